#!/usr/bin/env python3
"""Regenerates the detection tables of DESIGN.md §6 from mutants/last_results.json and seeded/*/meta.json."""
import json, glob, os, re
out = []
out.append("#### (a) own mutants (`mutants/mutants.py`, quick tier)\n")
out.append("| mutant | property | repository suite with the mutant | check | first signatures |")
out.append("|---|---|---|---|---|")
try:
    for r in json.load(open("/verif/mutants/last_results.json")):
        out.append("| %s | %s | %s | %s | %s |" % (r["mutant"], r["property"], "passes" if r["baseline_tests_pass"] else "FAILS (not a fair mutant)",
                   "VIOLATION" if r["detected"] else "missed", "; ".join(s.replace("signature: ", "") for s in r["signatures"][:2])))
except FileNotFoundError:
    out.append("| (not run yet) | | | | |")
out.append("")
out.append("#### (b) independent seeded changes (`seeded/<id>-<k>/`, written by sub-agents that saw only the property text)\n")
out.append("| change | what it breaks / what it needs | confirmed (suite passes, demo fails with / passes without) | caught by (quick tier) |")
out.append("|---|---|---|---|")
for d in sorted(glob.glob("/verif/seeded/C*-*")):
    m = json.load(open(d + "/meta.json"))
    summ = (m.get("summary") or "").replace("|", "/").replace("\n", " ")
    need = (m.get("needs_to_manifest") or "").replace("|", "/").replace("\n", " ")
    if len(summ) > 230: summ = summ[:227] + "…"
    if len(need) > 200: need = need[:197] + "…"
    caught = []
    for c, r in (m.get("checks_run") or {}).items():
        caught.append("%s: %s" % (c, ("VIOLATION (" + "; ".join(r["signatures"][:2]) + ")") if r["detected"] else "missed (exit %s)" % r["exit"]))
    rc = m.get("reconfirmed") or {}
    conf = "yes"
    if rc:
        conf = ("yes (re-confirmed at /repo %s)%s" % (rc.get("head"), (" — " + rc["note"].replace("|", "/")) if rc.get("note") else "")) if rc.get("confirmed") else "when kept; at /repo %s: %s" % (rc.get("head"), (rc.get("note") or "not re-confirmed").replace("|", "/"))
    out.append("| %s | %s — needs: %s | %s | %s |" % (os.path.basename(d), summ, need, conf, "; ".join(caught)))
out.append("")
out.append("#### (c) benign refactors (`benign/run_benign.py`, quick tier): no alarm\n")
out.append("| change | repository suite | checks run | result |")
out.append("|---|---|---|---|")
try:
    for r in json.load(open("/verif/benign/last_results.json")):
        cs = ", ".join("%s exit %s" % (c, v["exit"]) for c, v in sorted((r.get("checks") or {}).items()))
        out.append("| %s | %s | %s | %s |" % (r["change"], "passes" if r.get("suite_passes") else "FAILS (not a fair change)", cs, "quiet" if r.get("quiet") else "ALARM"))
except FileNotFoundError:
    out.append("| (not run yet) | | | |")
text = "\n".join(out)
p = "/verif/DESIGN.md"
s = open(p).read()
begin, end = "<!-- DETECTION-TABLES-BEGIN -->", "<!-- DETECTION-TABLES-END -->"
if begin not in s:
    s = s.replace("(The tables are appended at the end of this section by later commits as runs complete.)", begin + "\n" + end)
a, b = s.index(begin) + len(begin), s.index(end)
s = s[:a] + "\n" + text + "\n" + s[b:]
open(p, "w").write(s)
print("tables written:", len(out), "lines")
