#!/bin/bash
# usage: tools/seeded_batch.sh <src-format> <k-offset> C01 C03 ...   (evaluates OUT/1 and OUT/2 of each)
# Runs tools/seeded.py against a fresh snapshot of /verif so that evidence of mutated trees never
# lands in /verif/evidence; /repo itself is never touched (scratch worktrees only).
set -u
SRC=$1; OFF=$2; shift 2
SNAP=/var/tmp/verif-snap-$$
rm -rf $SNAP; mkdir -p $SNAP
rsync -a --exclude .git --exclude evidence --exclude replays /verif/ $SNAP/
mkdir -p $SNAP/evidence
for p in "$@"; do
  for k in 1 2; do
    [ -f "$(printf "$SRC" | sed "s/{prop}/$p/")/OUT/$k/meta.json" ] || { echo "== $p $k: no output"; continue; }
    echo "== $p $k"
    SEEDED_SRC="$SRC" SEEDED_K_OFFSET=$OFF SEEDED_VERIF_ROOT=$SNAP python3 /verif/tools/seeded.py $p $k 2>&1 | grep -v "^WARNING conda"
  done
done
rm -rf $SNAP
