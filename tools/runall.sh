#!/bin/bash
# usage: tools/runall.sh quick|thorough [ids...]
cd ${VERIF_ROOT:-/verif}
tier=${1:-quick}; shift
ids="$@"
if [ -z "$ids" ]; then ids=$(python3 -c "import json;print(' '.join(c['property_id'] for c in json.load(open('MANIFEST.json'))['checks']))"); fi
for id in $ids; do
  out=$(./bin/vcheck $id --tier $tier 2>&1); rc=$?
  echo "$id rc=$rc $(echo "$out" | grep -E "^$id tier" )"
  if [ $rc -ne 0 ]; then echo "$out" | grep -E "signature|VIOLATION|INFRA|KNOWN" | head -8; fi
done
