#!/bin/bash
# usage: tools/trymut.sh <patch.diff> <check> [tier]   — runs a check against a scratch worktree of /repo with the patch
# applied, from a snapshot of /verif (nothing is written to /repo or /verif/evidence)
set -u
P=$(readlink -f $1); C=$2; T=${3:-quick}
R=/var/tmp/repo-try-$$; V=/var/tmp/verif-try-$$
git -C /repo worktree add -q --detach $R HEAD || exit 2
mkdir -p $V && rsync -a --exclude .git --exclude evidence --exclude replays /verif/ $V/ && mkdir -p $V/evidence
(cd $R && git apply $P) || { echo "patch does not apply"; }
(cd $V && VERIF_REPO=$R VERIF_ROOT=$V ./bin/vcheck $C --tier $T 2>&1 | grep -v "^WARNING conda" | tail -${TAILN:-12})
git -C /repo worktree remove --force $R; rm -rf $R $V
