#!/usr/bin/env python3
"""Re-confirm every kept seeded change against the current /repo HEAD and the current checks.

usage: tools/reconfirm.py [shard nshards] [--only C01-3,C02-4]
For each seeded/<id>-<k>/ (in a scratch worktree of /repo, never /repo itself; checks run from a
snapshot of /verif so that no evidence of a mutated tree lands in /verif/evidence):
  1. patch.diff applies to HEAD, the repository builds and its own suite passes with it
  2. the demonstration fails with the change and passes without it
  3. the property's quick check exits 1 with a VIOLATION line
meta.json is updated (confirmed_at, checks_run). A change that no longer confirms is reported (and
marked in meta.json) but not deleted.
"""
import json, os, re, shutil, subprocess, sys, glob, time

ENV = dict(os.environ, GOFLAGS="-mod=mod", GOPROXY="off", GOSUMDB="off", GOTOOLCHAIN="local")

def sh(cmd, cwd=None, timeout=3600, env=None):
    p = subprocess.run(cmd, shell=True, cwd=cwd, env=env or ENV, capture_output=True, text=True, timeout=timeout)
    return p.returncode, p.stdout + p.stderr

def main():
    args = sys.argv[1:]
    only = None
    if "--only" in args:
        i = args.index("--only")
        only = set(args[i + 1].split(","))
        del args[i:i + 2]
    shard, nshards = (int(args[0]), int(args[1])) if len(args) >= 2 else (0, 1)
    head = sh("git -C /repo log --format=%h -1")[1].strip()
    dirs = sorted(glob.glob("/verif/seeded/C*-*"))
    if only:
        dirs = [d for d in dirs if os.path.basename(d) in only]
    dirs = [d for i, d in enumerate(dirs) if i % nshards == shard]
    snap = f"/var/tmp/verif-reconf-{os.getpid()}"
    sh(f"rm -rf {snap}; mkdir -p {snap} && rsync -a --exclude .git --exclude evidence --exclude replays /verif/ {snap}/ && mkdir -p {snap}/evidence")
    wt = f"/var/tmp/repo-reconf-{os.getpid()}"
    sh(f"git -C /repo worktree remove --force {wt}")
    sh(f"git -C /repo worktree add -q --detach {wt} HEAD")
    summary = []
    try:
        for d in dirs:
            name = os.path.basename(d)
            prop = name.split("-")[0]
            meta = json.load(open(d + "/meta.json"))
            res = {"head": head}
            sh("git checkout -q -- . && git clean -fdq", wt)
            rc, out = sh(f"git apply {d}/patch.diff", wt)
            res["patch_applies"] = rc == 0
            if rc == 0:
                rc, out = sh("go build ./... && go test -vet=off -count=1 ./...", wt)
                res["suite_passes_with_change"] = rc == 0
                placed = meta.get("demo_placement") or []
                if isinstance(placed, str):
                    placed = [placed]
                demos = sorted(glob.glob(d + "/*_test.go.txt"))
                for i, src in enumerate(demos):
                    t = placed[i] if i < len(placed) else os.path.join(os.path.dirname(placed[0]), os.path.basename(src).replace(".txt", ""))
                    os.makedirs(os.path.join(wt, os.path.dirname(t)), exist_ok=True)
                    shutil.copy(src, os.path.join(wt, t))
                cmd = meta.get("demo_cmd", "")
                rc1, out1 = sh(cmd, wt, timeout=1200)
                res["demo_fails_with_change"] = rc1 != 0
                sh(f"git apply -R {d}/patch.diff", wt)
                rc2, out2 = sh(cmd, wt, timeout=1200)
                res["demo_passes_without_change"] = rc2 == 0
                sh("git checkout -q -- . && git clean -fdq", wt)
                sh(f"git apply {d}/patch.diff", wt)
                env = dict(ENV, VERIF_REPO=wt, VERIF_ROOT=snap)
                t0 = time.time()
                rc, out = sh(f"./bin/vcheck {prop} --tier quick", snap, env=env)
                sigs = [l.strip()[11:] for l in out.splitlines() if l.strip().startswith("signature:")]
                res["check"] = {"id": prop, "tier": "quick", "exit": rc, "detected": rc == 1 and f"VIOLATION property={prop}" in out, "signatures": sorted(set(sigs))[:6], "wall_s": round(time.time() - t0, 1)}
            ok = all(res.get(k) for k in ("patch_applies", "suite_passes_with_change", "demo_fails_with_change", "demo_passes_without_change"))
            res["confirmed"] = bool(ok)
            if (meta.get("reconfirmed") or {}).get("note"):
                res["note"] = meta["reconfirmed"]["note"]  # explanations written by hand survive a re-run
            meta["reconfirmed"] = res
            if "check" in res:
                meta["checks_run"] = {prop: res["check"]}
            json.dump(meta, open(d + "/meta.json", "w"), indent=1)
            line = f"{name}: confirmed={ok} detected={res.get('check', {}).get('detected')} " + ("" if ok else json.dumps({k: v for k, v in res.items() if k != 'check'}))
            print(line, flush=True)
            summary.append(line)
    finally:
        sh(f"git -C /repo worktree remove --force {wt}")
        shutil.rmtree(wt, ignore_errors=True)
        shutil.rmtree(snap, ignore_errors=True)

if __name__ == "__main__":
    main()
