#!/usr/bin/env python3
"""Regenerates /verif/MANIFEST.json from the table below (single source of truth)."""
import json, collections

CHECKS = collections.OrderedDict()
def check(pid, category, text, note, technique, design_ref):
    CHECKS[pid] = dict(category=category, text=text, note=note, technique=technique, design_ref=design_ref)

check("C05", "model_checking",
      "Every sequence of nonce submissions (3 identities x 6 nonce kinds + clock ticks, depth 4/5) is applied to both real store drivers in lock-step with a high-water-mark reference model; every interleaving of 2-3 racing submissions (store level and through the real signed vipnode_update) within a preemption bound is executed under a controlled scheduler; close/reopen of the on-disk driver between submissions. Exhaustive within those bounds, which is what the property's 'for all histories / interleavings' needs and a sampled test cannot give.",
      "Bounded: depth, alphabet and preemption bound as reported in the evidence; boundary equality at exactly 15 minutes not judged; badger TTL expiry (real time) not explored; instrumentation by build overlay is trusted to preserve behaviour (the repository suite passes on the instrumented tree).",
      "explicit-state BFS on real code vs reference model + preemption-bounded schedule DFS under a controlled scheduler",
      "DESIGN.md §4 C05")

ALL = ["C%02d" % i for i in range(1, 21)]
NA_REASON = "check not built yet (work in progress; see DESIGN.md §4 for the planned model-checking design)"

manifest = {
    "version": 1,
    "setup_cmd": "./setup.sh",
    "hooks": {
        "guard": "verif",
        "enable": "no source hooks are committed to /repo: checks instrument the current working tree at build time with `go build -overlay` (rewritten copies of the vipnode sources + injected packages under internal/verif, all carrying //go:build go1.21, worker built with -tags verif); with the overlay off the tree is byte-identical to the pinned one",
        "baseline_off_cmd": "cd /repo && GOFLAGS=-mod=mod GOPROXY=off GOSUMDB=off GOTOOLCHAIN=local go test -vet=off -count=1 ./...",
        "source_commits": [],
        "add_only": True,
    },
    "engines": [
        {"name": "vsched", "path": "engine/vsched", "serves_properties": list(CHECKS.keys()),
         "kind_free_text": "controlled cooperative scheduler with virtual time, channel/mutex/context shims, deviation-bounded stateless DFS over schedules (hand-written; no off-the-shelf Go model checker in the image)"},
        {"name": "vrewrite", "path": "engine/vrewrite", "serves_properties": list(CHECKS.keys()),
         "kind_free_text": "type-aware AST rewriter producing the instrumented overlay from /repo's current working tree"},
        {"name": "vcheck/vworker", "path": "cmd/vcheck", "serves_properties": list(CHECKS.keys()),
         "kind_free_text": "driver: instrument, build, shard units over 16 worker processes, merge evidence, known-findings filter; explicit-state BFS engine (harness/vh) replaying event histories on fresh real objects"},
    ],
    "checks": [],
    "not_applicable": [],
    "notes": "All checks are exhaustive bounded explorations of the real implementation (explicit-state BFS over operation histories, schedule DFS under a controlled scheduler, crash-image / fault enumeration). Exit codes: 0 held, 1 VIOLATION, 2 INFRA.",
}
for pid in ALL:
    if pid in CHECKS:
        c = CHECKS[pid]
        manifest["checks"].append({
            "property_id": pid,
            "quick_cmd": "./bin/vcheck %s --tier quick" % pid,
            "thorough_cmd": "./bin/vcheck %s --tier thorough" % pid,
            "evidence_file": "/verif/evidence/%s.json" % pid,
            "replay_cmd_template": "./bin/vcheck %s --replay {path}" % pid,
            "engine": "vsched",
            "level_claimed": {"category": c["category"], "text": c["text"], "design_ref": c["design_ref"]},
            "level_note": c["note"],
            "technique": c["technique"],
        })
    else:
        manifest["not_applicable"].append({"property_id": pid, "reason": NA_REASON})
json.dump(manifest, open("/verif/MANIFEST.json", "w"), indent=1)
print("wrote MANIFEST.json with", len(manifest["checks"]), "checks")
