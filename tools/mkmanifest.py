#!/usr/bin/env python3
"""Regenerates /verif/MANIFEST.json from the table below (single source of truth)."""
import json, collections

CHECKS = collections.OrderedDict()
def check(pid, category, text, note, technique, design_ref):
    CHECKS[pid] = dict(category=category, text=text, note=note, technique=technique, design_ref=design_ref)

check("C05", "model_checking",
      "Every sequence of nonce submissions (3 identities x 6 nonce kinds + clock ticks, depth 4/5) is applied to both real store drivers in lock-step with a high-water-mark reference model; every interleaving of 2-3 racing submissions (store level and through the real signed vipnode_update) within a preemption bound is executed under a controlled scheduler; close/reopen of the on-disk driver between submissions. Exhaustive within those bounds, which is what the property's 'for all histories / interleavings' needs and a sampled test cannot give.",
      "Bounded: depth, alphabet and preemption bound as reported in the evidence; boundary equality at exactly 15 minutes not judged; badger TTL expiry (real time) not explored; instrumentation by build overlay is trusted to preserve behaviour (the repository suite passes on the instrumented tree).",
      "explicit-state BFS on real code vs reference model + preemption-bounded schedule DFS under a controlled scheduler",
      "DESIGN.md §4 C05")

check("C01", "model_checking",
      "The conservation law (sum of all account credit and trial credit, read both from the getters and from Stats) is evaluated after every event of every pool-session history up to the depth bound, on the real pool with real signed requests, for both store drivers and 8 price/interval/minimum configurations; every event is additionally run with each single store call failing; the same histories are also explored from a prepared non-initial session state (hosts and clients connected, peers tracked, shared wallet, part of an interval elapsed); concurrent keep-alives/links/host keep-alives/host reconnects are explored under a controlled scheduler with scheduling points inside the memory driver's statements and inside badger transaction closures (so optimistic-transaction conflicts really occur) up to a preemption bound.",
      "Bounded depth / preemption bound / alphabet as reported; nonce marks excluded from the state key (harness nonces strictly increase); deposits and settlement modelled at the BalanceStore / SettleHandler seams; build-overlay instrumentation trusted (repository suite passes on it).",
      "explicit-state BFS on the real pool with invariant checking + single-fault deviations + preemption-bounded schedule DFS",
      "DESIGN.md §4 C01")
check("C02", "model_checking",
      "Bounded-exhaustive: the full product of elapsed x price x interval x peer set x node kind x linkage is run through the real OnUpdate on both drivers and judged by the defining inequality q*I <= elapsed*price < (q+1)*I (big integers, binary search, not the implementation's expression); all 32 ways of slicing one 6-step span into keep-alives x 18 configurations go through the real signed pool (total within one unit per keep-alive per peer of the unsliced charge, client debited exactly the sum); every store call of a billing keep-alive is failed once (all-or-nothing); overlapping keep-alives of one client (two at once; one queued behind another request plus a late arrival) are explored under the controlled scheduler against the serial-permutation oracle; a latency decorator lets virtual time pass inside a keep-alive (known finding: that time is billed twice).",
      "Finite alphabets listed in the evidence rule; negative elapsed not explored; all-or-nothing judged on balances.",
      "bounded-exhaustive input/history enumeration on real code vs arithmetic reference + exhaustive single-fault injection",
      "DESIGN.md §4 C02")
check("C03", "model_checking",
      "Full product of minimum x balance around the threshold x deposit/credit split x entry point (vipnode_connect, vipnode_client, vipnode_host) and x charge x peer count x client/host for keep-alives on the real pool with a deposit overlay equivalent to the contract store; oracle: refused/cut off iff client and deposit+credit after the charge < minimum, reported balance equals the balance read back, exactly one vipnode_disconnect per connected active peer, ledger zero-sum; plus BFS over histories walking a balance across the threshold in both directions.",
      "Finite alphabets; the statement is silent about non-billing keep-alives of a client already below the minimum (not judged).",
      "bounded-exhaustive configuration enumeration + explicit-state BFS on the real pool",
      "DESIGN.md §4 C03")
check("C11", "model_checking",
      "Every history of keep-alives by a node and its peers (all report subsets incl. unknown and duplicate ids, peers checking in, reconnects, gaps of 59s/60s/61s/120s-1ns/120s+1ns) up to depth 4-5 (quick) / 5-6 (thorough) is run on both real drivers and through the real signed vipnode_update; declared-invalid set, active set (NodePeers / ActivePeers) and the set of peers billed are compared with a peer-tracking reference model after every step, plus a model-independent oracle (a reported peer whose own check-in is inside the window is never declared).",
      "Timestamps exactly on the boundary are not judged (branch closed, counted); depth bound.",
      "explicit-state BFS on real code vs reference model",
      "DESIGN.md §4 C11")
check("C12", "model_checking",
      "A reference model of the documented store contract and both real drivers are driven in lock-step through every sequence of store mutators up to depth 3 (quick) / 4 (thorough, ~200k transitions); after every transition the complete read battery (every getter x every id incl. empty and unregistered x every account x every kind x limits 0..3, Stats) of each driver is compared with the model, and the two drivers' results with each other.",
      "Negative limits excluded (outside the property's domain); list order and host choice under a limit not judged; model keeps tracked peers on re-SetNode (contract silent, drivers must agree).",
      "explicit-state BFS, model + two implementations in lock-step",
      "DESIGN.md §4 C12")

check("C04", "model_checking",
      "For each of the seven signed endpoints and three session states a correctly signed base request is generated and then every single-component alteration is applied, exhaustively over a finite grammar: signed for every other method name, identity swapped / other key / case change, nonce +-1, every leaf field of the parameter struct (enumerated by reflection, nested PeerInfo included), every signature byte flipped, every truncation length, garbage and re-encoded signatures. Oracle: altered => VerifyFailedError, no panic and an unchanged digest of the whole pool; unaltered => the verification step accepts (also for lower-case wallet spelling). The same is done for vipnode_update signed in the deprecated format (known finding: peers_info is not covered there).",
      "Finite alteration grammar (one component at a time); memory driver; the recovery byte of node-style signatures is not judged.",
      "bounded-exhaustive alteration enumeration on the real endpoints with digest oracle",
      "DESIGN.md §4 C04")
check("C06", "model_checking",
      "All session histories up to depth 3 (quick) / 4 (thorough) are generated and de-duplicated into reachable pool states; in each state every endpoint x refusal kind (bad signature, other key, malformed signature, stale nonce, replayed nonce) x existing/fresh identity is executed on the real pool: the digest of nodes, peers, balances, links, stats, registered connections and host call logs must be identical before and after, and the owner's next legitimate request with a nonce below the refused one must still be accepted.",
      "Depth bound; memory driver; digest covers what is observable through getters, NumRemotes and the fake hosts' call logs.",
      "explicit-state enumeration of session states x exhaustive refusal matrix, before/after digest oracle",
      "DESIGN.md §4 C06")

check("C07", "model_checking",
      "Every history of accrual, deposit, withdrawal (settlement succeeding or failing), forged withdrawal and a second wallet up to depth 5 (quick) / 7 (thorough) for three minimum/fee configurations is executed on the real PaymentService against a payout reference model (settle attempted iff signed and balance >= minimum, amount = deposit+credit-fee, balance cleared after success and untouched after failure/refusal, total paid equals the model); 2-3 racing withdrawals of one wallet are explored under the controlled scheduler with scheduling points at every BalanceStore call, the settlement and every statement of Withdraw.",
      "Depth / preemption bounds; settlement and deposits modelled at the SettleHandler / BalanceStore seams; no fault injected between a successful settlement and the ledger update.",
      "explicit-state BFS vs reference model + preemption-bounded schedule DFS + settlement fault sequences",
      "DESIGN.md §4 C07")
check("C08", "model_checking",
      "Exhaustive sweep: every multiset of up to 3 (quick) / 4 (thorough) nodes over 6 variants x requester kind x requested kind x k in {-3,-1,0,1,2,5} x maximum x every ack/error/silent assignment x vipnode_peer / legacy vipnode_client runs through the real requestHosts, whose goroutines, channels, select and 5 s time-out execute under the controlled scheduler on a virtual clock; every reply is judged against the eligibility rules, the acknowledgement log of the fake hosts, the size limits and the completeness clause, and the execution is drained to detect goroutines blocked for good. A schedule DFS additionally enumerates all acknowledgement orders and early time-outs within a deviation bound.",
      "Population size and deviation bounds; host choice under excess supply not judged; negative legacy NumHosts treated as absent.",
      "exhaustive configuration enumeration under a controlled scheduler + deviation-bounded schedule DFS",
      "DESIGN.md §4 C08")

check("C09", "model_checking",
      "Every sequence of connect(host, connection) / close(connection) over hosts {A,B} x connections {c1,c2,c3} up to depth 7 (quick) / 9 (thorough) is executed on the real pool (real signed vipnode_connect carrying the connection object in its context, CloseRemote) next to a registry model; after every event a peer request started afterwards must reach exactly the live, most recently registered connection of each host and NumRemotes must equal the number of such hosts. Closes racing an in-flight peer request and a reconnect are explored under the controlled scheduler with statement-granular points in the registry code; a probe started after all threads finished is judged.",
      "Depth / preemption bounds; requests in flight during a close are unconstrained (as stated by the property); the server.go link (serve loop ends => CloseRemote) is covered by the wire-level checks.",
      "explicit-state BFS vs registry model + preemption-bounded schedule DFS",
      "DESIGN.md §4 C09")
check("C10", "model_checking",
      "13 scenarios of 2-3 concurrent signed requests (keep-alives of clients sharing a host, duplicate and same-client keep-alives, reconnect, wallet link, withdraw, peer request) per driver are executed under every interleaving within a preemption bound, with scheduling points at every statement of the memory driver, inside badger transaction closures, in the balance manager and the pool service; the outcome (balances, links, peer sets, payouts, accept/reject per call) must equal that of some sequential permutation of the same requests run on the real code (differential oracle, no hand-written expectation). Snapshot immutability: BFS over store operation sequences in which every value ever handed out is deep-copied at hand-out and re-compared after each later operation. A free-running -race pass over the same scenario bodies is attached as supplementary, non-deciding evidence.",
      "Sequential consistency (a data race in the memory-model sense can only be reported, not excluded, by the -race pass); preemption / depth bounds; bookkeeping fields outside the property (BlockNumber, LastSeen) not compared.",
      "preemption-bounded schedule DFS with differential serial oracle + explicit-state BFS (aliasing) + supplementary -race pass",
      "DESIGN.md §4 C10")

check("C14", "model_checking",
      "Two real jsonrpc2.Remote endpoints are joined by an in-memory codec whose sends and receives are scheduling points; both Serve loops, every spawned handleRequest goroutine, the callers and a cancelling thread run as logical threads of the controlled scheduler with statement-granular points in remote.go, client.go, pending.go and server.go. 11 scenarios (2-3 concurrent callers on one side and on both sides, nested call-backs of depth 1-3 in one and both directions, cancellation racing the reply) plus the production pending-table shape scaled to 2/1 are explored over every schedule within the delay bound; each call must return its own token (or context.Canceled), each request be handled exactly once with the arrival connection as context service, and after draining nothing but the two read loops may remain blocked.",
      "Delay bound 2 (quick) / 3 (thorough) over a deterministic round-robin scheduler; FIFO delivery per direction; sequential consistency.",
      "delay-bounded schedule DFS on the real Remote under a controlled scheduler",
      "DESIGN.md §4 C14")

check("C15", "model_checking",
      "Bounded-exhaustive message grammars applied to the real Server / Remote / HTTPServer with a live pool world: every production method (pool, payment, status, agent) x arities 0..n+1 x 20 JSON value kinds per position; correctly signed requests carrying hostile node URIs, peer descriptions and counts (incl. 2^31, 2^62, negative) through the real signature check; 22 envelope shapes and 125 reply shapes sent to a waiting Remote.Call under the controlled scheduler (virtual time-outs, execution drained); every prefix and 12 byte substitutions at every position of 6 representative messages through the stream codec, Server.Handle and HTTPServer; and ~300 hostile requests against the real pool binary over HTTP and WebSocket with a bystander connection that must keep being served. Oracle: no panic (also in spawned goroutines), one well-formed reply per request id, vipnode_ping still answered on the same server/connection, waiting callers return, the worker process survives (address-space limit makes unbounded allocations fatal and visible).",
      "Finite grammars; malformed byte streams and non-message JSON may cost the sender its own connection (not judged).",
      "bounded-exhaustive input-grammar enumeration on real code (in-process and under the controlled scheduler)",
      "DESIGN.md §4 C15")
check("C16", "model_checking",
      "Exhaustive over finite alphabets: instrumented receivers registered under 3 prefixes x 9 allow-lists and probed with every case/prefix variant of every method name (exported, unexported, promoted from an embedded field, unsupported argument types, other receivers' names); every method called with every arity 0..n+1 and 9 JSON kinds per position, judged against encoding/json decodability, with invocation counters proving that rejected calls run nothing; the production registration in process with a pool digest before/after; and the real pool binary built from the working tree, probed over HTTP and WebSocket with every exported method name of VipnodePool / PaymentService / PoolStatus (by reflection) and guessed helper names in 4 prefixes x 4 spellings: callable set must equal the 10 documented names on both transports.",
      "Finite name/kind alphabets; JSON null in non-pointer positions observed only.",
      "exhaustive name x arity x kind enumeration on real code and on the real binary",
      "DESIGN.md §4 C16")
check("C17", "model_checking",
      "For every message sequence the bytes (stream codec, HTTP request and response bodies) or WebSocket frames (gorilla and gobwas codecs, both directions, produced by the real codec after a real handshake over an in-memory connection) are delivered to the real reader split at every set of <=2 (quick) / <=3 (thorough) candidate offsets, including no cut at all, ~4*10^5 deliveries in the quick tier; the sequence read must equal the sequence written, then nothing more. Three concurrent writers (one message larger than the 4 kB write buffer) on the gorilla codec are explored under the controlled scheduler with every net.Conn write and every statement of the codec as scheduling points; the captured wire bytes are then read back by the peer.",
      "Candidate offsets: all for streams <=420 bytes, otherwise frame/message boundaries -4..+14, every 997th byte and the 4096 edge; delay bound 2/3 for the writers.",
      "exhaustive cut-set enumeration + delay-bounded schedule DFS of concurrent writers",
      "DESIGN.md §4 C17")

check("C19", "model_checking",
      "The full product of a node-URI override grammar (absent; 3 schemes x 6 user parts x 6 hosts incl. IPv6 literal, unspecified and empty x 4 ports x 3 tails) and 5 connection source addresses (IPv4, IPv6, IPv6 loopback, empty, service without RemoteAddr) is registered through the real signed vipnode_connect and vipnode_host (~13 000 registrations); accepted registrations must store an enode URI whose id is the authenticated node id and whose host:port splits back (net.SplitHostPort) to the supplied or default address with default port 30303, the same URI must be handed to a client by vipnode_peer; foreign ids and undeterminable hosts must be refused leaving no node and no registered connection; well-formed own-id overrides must be accepted.",
      "Finite grammar; scheme-less overrides are not URIs and only their identity handling is judged.",
      "exhaustive input-grammar enumeration with parse-back oracle",
      "DESIGN.md §4 C19")

check("C18", "model_checking",
      "The real Agent.UpdatePeers / AddPeers runs against a recording EthNode and a scripted pool over the full product of per-peer situations (4 peers: IPv4, IPv6, loopback, no address; each absent / local only / local and listed as active under the same host, another host, another port, no address, as a bare id / listed only) x 5 pool invalid lists (bare id, enode URI, ids not connected locally) x strict on/off x target x node kind x number of hosts returned (~92 000 rounds quick, ~276 000 thorough), plus pool errors at Update and at Peer and 128 three-round histories where each round starts from the node state the previous one produced. Oracle: an agent model with its own URI parser: set un-trusted == set disconnected == model set, peer request iff shortfall with exact Num and Kind, every returned host connected, failed update => no node call.",
      "Finite alphabets; node-side call failures not modelled.",
      "bounded-exhaustive round enumeration and multi-round histories on real code vs agent model",
      "DESIGN.md §4 C18")
check("C20", "model_checking",
      "The real Agent (Start/Stop/Wait/UpdatePeers/serveUpdates; its ticker, stop/wait channels, mutex and Once run under the controlled scheduler on a virtual clock) is driven through every lifecycle history up to depth 6 (quick) / 8 (thorough) over {start, stop, wait, forced update, one interval elapsing, start against a pool refusing the connect, start whose first keep-alive is rejected, failing keep-alive}; after every event the number of live keep-alive loops (scheduler thread accounting) must equal the lifecycle model, a second start must be refused without touching the pool, exactly one keep-alive per interval per loop, Wait returns the loop's result and restart works. Concurrent start/start, stop/start, stop/tick, wait/stop and stop/update are explored within a delay bound, each followed by a probing Start that must agree with the number of live loops. The interval flag is checked on the real binary (vipnode agent --rpc fakenode://... :memory:) for 13 interval strings.",
      "Depth / delay bounds; Stop without a running loop not exercised; the exact lower bound 5s not judged; the CLI probe waits 2.5 s of real time per interval string to decide 'accepted' (process still running or registered).",
      "explicit-state lifecycle search + delay-bounded schedule DFS on the real agent; real binary for the CLI clause",
      "DESIGN.md §4 C20")

check("C13", "fault_enumeration",
      "A child process opens the on-disk store exactly as pool.go does, runs a history, reports every file's size after each acknowledged operation and is SIGKILLed without Close. For all histories of length 2 and half of those of length 3 (quick) / all of length 2-4 (thorough) over {SetNode, UpdateNodePeers, AddNodeBalance, AddAccountNode (three keys in one transaction), AddAccountBalance, nonce, close+reopen} every crash image 'killed after operation k' and, for the last operation, 'killed while it was being written' (value log cut inside the appended bytes: every byte for a representative subset, else every 16th plus both edges) is materialised, reopened through the real driver and compared getter by getter (plus nonce probes) with a reference model: exactly the acknowledged prefix, resp. the state before or after the interrupted operation and nothing else. Readers racing AddAccountNode / UpdateNodePeers are explored under the controlled scheduler with scheduling points inside the transaction closures; databases of format version 0/1/2 with every subset of key families and 0-2 old nonces are synthesised and opened twice (migration, idempotent reopen); the truncation model itself is validated on every run by really killing children after each prefix of three histories and comparing sizes and contents with the computed images.",
      "SIGKILL semantics (page cache survives); badger appends a commit with one write (validated on every run: the image cut at the final recorded size must equal the full history); recovery side opens with FileIO loading mode and small caches (same format and replay code); torn tails refused by production Open are reopened WithTruncate and counted.",
      "crash-point / torn-write enumeration on the real persistent driver + schedule DFS for readers + exhaustive migration inputs",
      "DESIGN.md §4 C13")

# Extensions made after the first version of each check (appended to the claim text); see DESIGN.md §4/§6.
EXT = {
 "C01": " Also: schedule DFS of withdrawals (settlement succeeding and failing) racing credits, with the invariant 'the sum changes only by the credit a successful withdrawal settled'; the BalanceStore is the real payment.contractPayment proxy; BlockNumberProvider wired as in runPool; BFS keys include the driver's complete internal state.",
 "C02": " Also: prices that put elapsed*price just below/at 2^31, 2^32, 2^53, 2^63, 2^64; time passing inside a keep-alive; schedule DFS of overlapping keep-alives and reconnects of one client with a clock thread and follow-up keep-alives in both nonce orders (serial-order differential incl. what the next keep-alive bills); keep-alives continuing below the minimum balance; billing keep-alives whose badger transactions lose 1..7 commit races in a row (injected at the library's commit) charge what an undisturbed one charges.",
 "C03": " Also: the client sharing its wallet with its first host; the cut-off reaching hosts that moved to a new connection (both orders of register/close); schedule DFS of two clients spending from one wallet.",
 "C04": " Also: correctly signed requests in every parameter shape (all peer lists of length <=3 over {self, hosts, unknown id}, parameter grids for the other endpoints) must be accepted; 200 wallet signatures per encoding (with/without 0x); delay-bounded DFS of four concurrent verifications (3 valid, 1 altered) with statement points inside the request package.",
 "C05": " Also: the badger library's record expiry follows the virtual clock (ticks of 1 s, 15 min, 16 min), so the expiry of nonce records is part of the histories; replays with the identity respelled or the nonce field bumped while the signature stays; racing first nonces of two identities.",
 "C06": " Also: victims that are hosts; a differential probe on fresh worlds (later whitelisting, effect of closing the arrival connection, replay of the victim's last honoured request, next billing) against a twin pool that never saw the refused request; bursts of 150/1500 refusals; replayed/stale requests while the k-th store call fails once.",
 "C07": " Also: the real contractPayment proxy as BalanceStore; racing withdrawals on badger; a withdrawal racing credits by node and by account (paid + remaining = earned); and the whole stack as the binary wires it - PaymentService -> ContractPayment (cache, contract reads, Balance events, OpSettle) -> the real VipnodePool contract on go-ethereum's simulated chain: BFS over {deposit, other wallet's deposit, credit +/-, forceSettle, operator drain, pool restart, withdraw} judged on what the wallet receives on chain, the contract's deposit/time lock/funds and the ledger.",
 "C08": " Also: requested kinds the pool does not know or spelled differently; peers tracked with an aged timestamp; hosts that moved to another connection; hosts behind real jsonrpc2.Remote pairs answering with a result, an error reply or silence.",
 "C09": " Also: keep-alive events arriving on any connection (state key = the pool's own registries, found by type); hosts over real Remote pairs that answer the whitelist request late or never and then hang up (serve loop must end, registration must go).",
 "C10": " Also: scenarios with a clock thread and follow-up requests in both nonce orders; store-level check-in races; concurrent writers on the stream codec; the badger library's pre-commit moment as scheduling point.",
 "C11": " Also: nodes listing themselves; schedule DFS of a report racing the peer's own check-in / re-registration (serial-order differential); reports of 40/300/1100 peers in permuted order.",
 "C12": " Also: peers listed under another spelling of a registered id; check-in races and racing first nonces of two identities on both drivers.",
 "C13": " Also: schedule DFS of concurrent writers (key-by-key database dump = some serial order); migrations of databases of realistic size (40-300 nodes with 128-hex ids, up to 150 nonce keys); operations that lose 0..200 commit races in a row (acknowledged => applied, also after reopen).",
 "C14": " Also: scheduling points inside method dispatch; connections built without an explicit Client (as the binaries build them); a handler forwarding its context to an in-memory Local service.",
 "C15": " Also: replies sent unsolicited and repeated 2-3 times; every numeric field of every request at the extremes of its type; the signed-hostile set on the badger driver; node ids that are prefixes/extensions of registered ones.",
 "C16": " Also: the params member absent, null or not an array, in process and against the real binary over HTTP and WebSocket.",
 "C17": " Also: HTTP client replies x {no size limit, limit} x {declared length, chunked}; messages handed out must stay unchanged while later ones are read; delay-bounded DFS of three concurrent writers on the stream codec.",
 "C18": " Also: what local peers advertise in their own enode field (absent / same / unspecified / other address); 4-round histories of one host being offered, declared invalid (by id or URI) or left alone; rounds against a slow pool and a node whose RPCs take time and honour their context.",
 "C19": " Also: link-local IPv6 addresses with a zone; every ordered pair of 6 registrations x 2 endpoints x same/new connection (re-registration); delay-bounded DFS of 2-3 hosts registering at once through the production server and of a re-registration racing a peer request.",
 "C20": " Also: lifecycle histories against a pool that takes 12 s to answer a keep-alive (cadence, Stop during a pending keep-alive); the CLI probe is judged by the process exiting (refused) versus logging its registration or still running after 90 s (accepted).",
}
NOTE_FIX = {
 "C05": ("badger TTL expiry (real time) not explored; ", ""),
 "C20": ("the CLI probe waits 2.5 s of real time per interval string to decide 'accepted' (process still running or registered)", "the CLI probe decides 'refused' by the process exiting and 'accepted' by its registration log line or by still running after 90 s"),
}
for pid, add in EXT.items():
    CHECKS[pid]["text"] += add
# Extensions made in the fourth strengthening round (see DESIGN.md §6).
EXT2 = {
 "C01": " Also: a node listing itself among its peers.",
 "C02": " Also: spans sliced while other requests (peer requests, empty-list keep-alives) fall between the slices.",
 "C03": " Also: arrival sequences (connect / host / client in both orders) of one node id.",
 "C06": " Also: on every endpoint, the honoured request replayed under up to 9 other spellings of its identity (case, 0x/0X prefix) is refused and changes nothing.",
 "C07": " Also: a requester that hangs up at the moment settlement begins (paid <=> cleared, whatever is reported); the whole registered RPC surface - names read from the server's registry plus every exported method of the registered services under both prefixes - called with 650 unsigned argument tuples each: no settlement, no balance change.",
 "C08": " Also: populations of 12-40 hosts; hosts of an unknown kind; an error although eligible hosts acknowledged.",
 "C09": " Also: peer requests abandoned by the requester while hosts are being asked (registrations unchanged); hosts announcing themselves to the real binary in a one-shot HTTP POST (no connection remains registered).",
 "C10": " Also: a connection closing while a request of the node registered on it is served (host re-registering on a new / the same connection, peer request, host keep-alive), with the pool's registries part of the compared state and lock-order deadlocks reported by the scheduler; concurrent callers over the socket transport.",
 "C13": " Also: 63 histories in which time passes (peer sets ageing out to the empty set, late nonces) through the same crash-image machinery.",
 "C14": " Also: calls of unregistered names among the other calls (answered with method-not-found, nothing else disturbed).",
 "C15": " Also: schedule DFS of a connection closing under an in-flight request of its node (a deadlock is a wedge).",
 "C16": " Also: the agent binary's reverse-callable set (the harness plays the pool end of its WebSocket and tries every exported method of the agent object x 4 prefixes x 4 spellings: only vipnode_whitelist may answer); receivers with interface-typed parameters.",
 "C17": " Also: the gorilla and gobwas codecs talking to each other in both roles (text vs binary frames).",
 "C18": " Also: ~1700 rounds through the real ethnode.RemoteNode geth and parity drivers (in-process go-ethereum RPC server speaking admin_* / parity_*, both shapes of Parity's peer name, on top of the recording node); nodes refusing every un-trust or every disconnect call (the other call is still made for every peer).",
 "C19": " Also: overrides that are a node id alone (<id>, enode://<id>, with a port).",
}
for pid, add in EXT2.items():
    CHECKS[pid]["text"] += add
# Binary-level configuration units (the pool binary started with the flag under test).
EXT3 = {
 "C02": " Also: the real pool binary with 5 spellings of --contract.price (default, gwei, bare wei, fractional gwei, szabo): a host's earnings over two keep-alives lie in the bracket [price x shortest span, price x longest span] taken from the harness' own clock around its requests, and client and host balances sum to zero.",
 "C03": " Also: the real pool binary with 6 spellings of --contract.min-balance: a client without any balance is admitted (vipnode_connect, vipnode_client) iff the minimum is off or zero; a host always.",
 "C08": " Also: the real pool binary with --max-request-hosts absent/0/1/2/5, three acknowledging hosts and requests for 1/2/3/10 hosts.",
 "C13": " Also: the real pool binary with --store=persist --datadir, SIGKILLed and restarted after every prefix of a 7-step signed session (registrations, billed keep-alives, wallet links): pool_account of both wallets and the node/credit counters are identical after the restart and every request accepted before the kill is refused when sent again.",
}
for pid, add in EXT3.items():
    CHECKS[pid]["text"] += add
# Extensions made in the fifth strengthening round (see DESIGN.md §6).
EXT4 = {
 "C01": " Also: connections closing; the non-fault BFS hands the pool the store driver itself (optional driver methods are visible to it as in the binary).",
 "C02": " Also: payout addresses announced by client and hosts (equal / different / none) in the product; ten spellings of --contract.price against the real binary.",
 "C03": " Also: every unit name --contract.min-balance accepts, by magnitude (price in bare wei, minimum -10 / -1 units, verdict from a clock bracket); the real binary wired to the real contract on a served simulated chain: a client whose wallet's funds are an on-chain deposit is admitted and keeps being served.",
 "C04": " Also: every name on the registered RPC surface (registry + all methods of the registered objects, promoted ones included) x 649 unsigned argument tuples leaves the pool digest unchanged; a current-format keep-alive that carries only the deprecated peers list, with every alteration.",
 "C05": " Also: the node's other signed endpoints (peer, connect) share its high-water mark; nonces off the whole second replayed 15 min 1.2 s later; the real binary killed and restarted on its data directory keeps refusing every request it had accepted.",
 "C06": " Also: replays across a kill and restart of the real binary.",
 "C07": " Also: three racing requests of one wallet with a failing first settlement or a link among them (preemption bound 2); the real binary + the real contract on a served simulated chain: a withdrawal while the Ethereum node accepts transactions but loses its replies, then again - the wallet is paid at most once; a plain withdrawal twice pays deposit + credit - fee once.",
 "C08": " Also: all 32 role sequences (host / client) of five registrations of one node over one open connection, both drivers.",
 "C09": " Also: a host's connection ending while that host's own request waits for another host's slow answer; vipnode_disconnect reaching each live host exactly once.",
 "C10": " Also: exclusive-use tracking in the controlled scheduler (maps in shared structures, *rand.Rand, buffers): two statements touching one unprotected object while both are ready to run end the execution as a data race; two peer requests at once by clients and by hosts.",
 "C11": " Also: keep-alives that fail half-way (ledger unreachable); the pool object's private maps are part of the state key.",
 "C12": " Also: nonces off the whole second replayed 15 min 1.2 s later (the persistent driver's records expire on whole seconds).",
 "C13": " Also: the default data directory under $HOME, and a $HOME under which nothing can be created (the pool must not serve).",
 "C14": " Also: request ids beyond 2^53 that differ in the low bits, string ids; 40 nested callers at once.",
 "C15": " Also: 1-3 hosts failing the pool's own calls in every ack / error / silence combination (the reply is built from those errors); 2 kB parameter values.",
 "C16": " Also: a refused registration leaves nothing of the object callable; request sequences over the HTTP server (a valid call, then each malformed form of the params member).",
 "C17": " Also: numbers that no float64 holds exactly, in ids, results and error data (expected values taken from the message text, compared digit by digit); real loopback TCP: 400 x 16 kB, Close right after the last write, slow reader, both WebSocket codecs, both directions.",
 "C18": " Also: 11 x 11 address pairs across private, carrier-grade, link-local, unique-local and public ranges under strict peering; the agent binary (--strict-peers on/off x --min-peers 0/3 x 3 invalid lists) against a served geth-dialect node and a scripted WebSocket pool, its start-up round judged like the in-process rounds.",
 "C19": " Also: the real binary with 7 sets of forwarding headers (advertised address = the connection's); registrations over an in-process pipe (no address: refused).",
 "C20": " Also: the interval reconfigured between runs; the agent binary with --update-interval=6s against a served pool (fourth keep-alive within 100 s; never more than one per full interval since process start plus the start-up one).",
}
for pid, add in EXT4.items():
    CHECKS[pid]["text"] += add
# Extensions made in the sixth strengthening round (see DESIGN.md §6).
EXT5 = {
 "C01": " Also: a withdrawal while the wallet's own client is billed.",
 "C02": " Also: all histories over {tick, keep-alive, reconnect} up to length 5/7 (elapsed counts from the previous keep-alive or connect).",
 "C03": " Also: every cut-off of a threshold walk reaches every connected host once; hosts up to 119 s behind with their own keep-alive.",
 "C04": " Also: pool.Remote with node keys whose public coordinates begin with zero bytes; node-style identities on the payment endpoints.",
 "C05": " Also: racing copies of one signed pool_withdraw.",
 "C08": " Also: hosts a client stopped reporting are offered again exactly once their entries aged out.",
 "C09": " Also: good-bye requests (vipnode_disconnect sent by a host) as BFS events.",
 "C12": " Also: the empty account in the read battery; a getter that panics is a finding.",
 "C13": " Also: balances returning to exactly zero; a golden database written by the pinned tree (golden/badger-v2) opened three times - getters as recorded, records unchanged.",
 "C14": " Also: 6.5 MB of calls over jsonrpc2.ServePipe.",
 "C15": " Also: schedule DFS of garbage-signed requests in the name of different nodes plus a valid one; the real agent as caller against a pool answering with ~460 combinations of hostile reply shapes.",
 "C17": " Also: real TCP with a peer pinging every 2 ms while 2 MB messages are in flight, and with a reader stalling 6.5 s mid-message on the stream codec.",
 "C18": " Also: DNS names and loopback / unspecified hosts in the address pairs; the running agent's own periodic keep-alive failing (node untouched).",
 "C19": " Also: keep-alives of the host after every accepted registration (stored address unchanged); schedule DFS of the old connection's clean-up racing a re-registration from a new address.",
}
for pid, add in EXT5.items():
    CHECKS[pid]["text"] += add
# Extensions made in the seventh round (see DESIGN.md §6).
EXT6 = {
 "C03": " A number in the pool's state that math/big cannot read (digits overwritten in place while shared) is a violation of the unit that met it.",
 "C11": " Also: a walk over a small alphabet (one reporter, one peer, 59 s / 61 s) to depth 7/9 on both drivers, reaching histories in which a tracked timestamp must be refreshed by a repeated report.",
}
for pid, add in EXT6.items():
    CHECKS[pid]["text"] += add
# technique strings: what was added to each check's deciding machinery since the first version
TECH_ADD = {
 "C02": " + exhaustive enumeration of --contract.price spellings against the real binary (clock-bracket oracle)",
 "C03": " + exhaustive enumeration of --contract.min-balance spellings / unit names against the real binary and of the binary wired to the real contract on a served simulated chain",
 "C04": " + exhaustive unsigned probing of the registered RPC surface",
 "C05": " + enumeration of kill/restart points of the real binary over a signed session",
 "C06": " + enumeration of kill/restart points of the real binary over a signed session",
 "C07": " + exhaustive unsigned probing of the registered RPC surface + the real binary and contract on a served simulated chain (lost node replies)",
 "C08": " + exhaustive enumeration of --max-request-hosts values against the real binary",
 "C09": " + real-binary connection lifecycle scenarios",
 "C10": " + exclusive-use tracking (deterministic detection of unordered accesses to maps and non-thread-safe library objects within the explored schedules)",
 "C13": " + kill/restart of the real binary at every prefix of a session + a committed golden database",
 "C15": " + schedule DFS of concurrent hostile requests + reply-shape enumeration against the real agent",
 "C16": " + exhaustive probing of the agent binary's reverse-callable set",
 "C17": " + real-socket scenarios (close after a burst, pings, stalled reader)",
 "C18": " + the same rounds through the real node drivers over an in-process RPC server and through the agent binary",
 "C19": " + schedule DFS of concurrent / racing registrations + real-binary header scenarios",
 "C20": " + cadence of the agent binary against a served pool",
}
for pid, add in TECH_ADD.items():
    CHECKS[pid]["technique"] += add
for pid, (old, new) in NOTE_FIX.items():
    CHECKS[pid]["note"] = CHECKS[pid]["note"].replace(old, new)

ALL = ["C%02d" % i for i in range(1, 21)]
NA_REASON = "check not built yet (work in progress; see DESIGN.md §4 for the planned model-checking design)"

manifest = {
    "version": 1,
    "setup_cmd": "./setup.sh",
    "hooks": {
        "guard": "verif",
        "enable": "no source hooks are committed to /repo: checks instrument the current working tree at build time with `go build -overlay` (rewritten copies of the vipnode sources + injected packages under internal/verif, all carrying //go:build go1.21, worker built with -tags verif); with the overlay off the tree is byte-identical to the pinned one",
        "baseline_off_cmd": "cd /repo && GOFLAGS=-mod=mod GOPROXY=off GOSUMDB=off GOTOOLCHAIN=local go test -vet=off -count=1 ./...",
        "source_commits": [],
        "add_only": True,
    },
    "engines": [
        {"name": "vsched", "path": "engine/vsched", "serves_properties": list(CHECKS.keys()),
         "kind_free_text": "controlled cooperative scheduler with virtual time, channel/mutex/context shims, deviation-bounded stateless DFS over schedules (hand-written; no off-the-shelf Go model checker in the image)"},
        {"name": "vrewrite", "path": "engine/vrewrite", "serves_properties": list(CHECKS.keys()),
         "kind_free_text": "type-aware AST rewriter producing the instrumented overlay from /repo's current working tree"},
        {"name": "vcheck/vworker", "path": "cmd/vcheck", "serves_properties": list(CHECKS.keys()),
         "kind_free_text": "driver: instrument, build, shard units over 16 worker processes, merge evidence, known-findings filter; explicit-state BFS engine (harness/vh) replaying event histories on fresh real objects"},
    ],
    "checks": [],
    "not_applicable": [],
    "notes": "All checks are exhaustive bounded explorations of the real implementation (explicit-state BFS over operation histories, schedule DFS under a controlled scheduler, crash-image / fault enumeration). Exit codes: 0 held, 1 VIOLATION, 2 INFRA.",
}
for pid in ALL:
    if pid in CHECKS:
        c = CHECKS[pid]
        manifest["checks"].append({
            "property_id": pid,
            "quick_cmd": "./bin/vcheck %s --tier quick" % pid,
            "thorough_cmd": "./bin/vcheck %s --tier thorough" % pid,
            "evidence_file": "/verif/evidence/%s.json" % pid,
            "replay_cmd_template": "./bin/vcheck %s --replay {path}" % pid,
            "engine": "vsched",
            "level_claimed": {"category": c["category"], "text": c["text"], "design_ref": c["design_ref"]},
            "level_note": c["note"],
            "technique": c["technique"],
        })
    else:
        manifest["not_applicable"].append({"property_id": pid, "reason": NA_REASON})
json.dump(manifest, open("/verif/MANIFEST.json", "w"), indent=1)
print("wrote MANIFEST.json with", len(manifest["checks"]), "checks")
