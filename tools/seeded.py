#!/usr/bin/env python3
"""Confirm and evaluate a property-breaking change produced by an independent sub-agent.

usage: tools/seeded.py <property> <k> [--checks C01,C10] [--tier quick|thorough]
  source: /tmp/wt-<property>/OUT/<k>/{patch.diff, demo file(s), meta.json}
Steps (all in a scratch worktree of /repo that is removed afterwards):
  1. patch applies, repo builds, the repository's own suite passes with it
  2. the demonstration fails with the change and passes without it
Then the patch is applied to /repo itself, the check(s) are run, and /repo is restored.
The kept artefact goes to /verif/seeded/<property>-<k>/.
"""
import json, os, re, shutil, subprocess, sys, glob, time

ENV = dict(os.environ, GOFLAGS="-mod=mod", GOPROXY="off", GOSUMDB="off", GOTOOLCHAIN="local")

def sh(cmd, cwd=None, timeout=3600):
    p = subprocess.run(cmd, shell=True, cwd=cwd, env=ENV, capture_output=True, text=True, timeout=timeout)
    return p.returncode, p.stdout + p.stderr

def main():
    prop, k = sys.argv[1], sys.argv[2]
    checks = [prop]
    tier = "quick"
    for i, a in enumerate(sys.argv):
        if a == "--checks":
            checks = sys.argv[i + 1].split(",")
        if a == "--tier":
            tier = sys.argv[i + 1]
    src = os.environ.get("SEEDED_SRC", "/tmp/wt-{prop}").format(prop=prop) + f"/OUT/{k}"
    keep_as = str(int(k) + int(os.environ.get("SEEDED_K_OFFSET", "0")))
    meta = json.load(open(f"{src}/meta.json"))
    patch = f"{src}/patch.diff"
    demos = [f for f in glob.glob(f"{src}/*") if re.search(r"_test\.go(\.txt)?$|\.go$", f)]
    wt = f"/tmp/eval-{prop}-{k}"
    sh(f"git -C /repo worktree remove --force {wt}")
    rc, out = sh(f"git -C /repo worktree add -q --detach {wt} HEAD")
    res = {"property": prop, "k": k, "agent_meta": meta}
    try:
        rc, out = sh(f"git apply {patch}", wt)
        res["patch_applies"] = rc == 0
        if rc != 0:
            print(out)
            raise SystemExit("patch does not apply")
        rc, out = sh("go build ./... && go test -vet=off -count=1 ./...", wt)
        res["baseline_tests_pass_with_change"] = rc == 0
        if rc != 0:
            print("\n".join(l for l in out.splitlines() if "FAIL" in l or "rror" in l)[:1500])
        # place the demo
        placement = meta.get("demo_placement", "")
        cands = [c for c in re.findall(r"([\w\-/\.]*_test\.go)", placement) if "OUT/" not in c]
        cands = [re.sub(r"^/tmp/w[t2]-C\d+/", "", c) for c in cands]
        withdir = [c for c in cands if "/" in c]
        target = withdir[0] if withdir else (cands[0] if cands else None)
        if target and "/" not in target and "root" not in placement:
            # a bare file name: look for a directory hint such as "pool/payment/"
            m2 = re.search(r"((?:[\w\-]+/)+)(?:\s|$|\()", placement)
            if m2:
                target = m2.group(1) + target
        if not target:
            m2 = re.search(r"((?:[\w\-]+/)+)", placement)
            target = (m2.group(1) if m2 else "") + "zz_demo_test.go"
        placed = []
        for d in demos:
            t = target
            if len(demos) > 1:
                t = os.path.join(os.path.dirname(target), os.path.basename(d).replace(".txt", ""))
            if "repository root" in placement and "/" not in target.strip("/"):
                t = os.path.basename(t)
            os.makedirs(os.path.join(wt, os.path.dirname(t)), exist_ok=True)
            txt = open(d).read()
            lines = txt.split("\n")
            if lines and lines[0].startswith("//go:build") and "demo" in lines[0]:
                txt = "\n".join(lines[1:])  # a private build tag the agent used to keep OUT/ out of ./...
            open(os.path.join(wt, t), "w").write(txt)
            placed.append(t)
        res["demo_placed"] = placed
        cmd = meta.get("demo_cmd", "")
        cmd = re.sub(r"/tmp/w[t2]-C\d+", wt, cmd)
        cmd = re.sub(r"^cd \S+ && ", "", cmd)
        if "go test" not in cmd and "go run" not in cmd:
            pkg = "./" + os.path.dirname(placed[0]) if os.path.dirname(placed[0]) else "."
            cmd = f"go test -vet=off -count=1 -run 'Demo|demo' {pkg}"
        cmd = re.sub(r"export [^;&]*[;&]+\s*", "", cmd)
        cmd = re.split(r"\s{2,}|\s\(", cmd)[0].strip()
        res["demo_cmd"] = cmd
        rc1, out1 = sh(cmd, wt, timeout=900)
        res["demo_fails_with_change"] = rc1 != 0
        sh(f"git apply -R {patch}", wt)
        rc2, out2 = sh(cmd, wt, timeout=900)
        res["demo_passes_without_change"] = rc2 == 0
        if rc1 == 0 or rc2 != 0:
            print("DEMO with change rc", rc1, out1[-800:])
            print("DEMO without change rc", rc2, out2[-800:])
    finally:
        sh(f"git -C /repo worktree remove --force {wt}")
        shutil.rmtree(wt, ignore_errors=True)
    # now the checks, against a scratch worktree of /repo (VERIF_REPO) so that /repo itself stays free
    erepo = f"/var/tmp/repo-eval-{prop}-{k}"
    sh(f"git -C /repo worktree remove --force {erepo}")
    sh(f"git -C /repo worktree add -q --detach {erepo} HEAD")
    vroot = os.environ.get("SEEDED_VERIF_ROOT", "/verif")
    ENV["VERIF_REPO"] = erepo
    ENV["VERIF_ROOT"] = vroot
    res["checks"] = {}
    try:
        rc, out = sh(f"git apply {patch}", erepo)
        if rc != 0:
            raise SystemExit("patch does not apply: " + out)
        for c in checks:
            t0 = time.time()
            rc, out = sh(f"./bin/vcheck {c} --tier {tier}", vroot)
            sigs = [l.strip()[11:] for l in out.splitlines() if l.strip().startswith("signature:")]
            res["checks"][c] = {"tier": tier, "exit": rc, "detected": rc == 1 and f"VIOLATION property={c}" in out, "signatures": sigs[:6], "wall_s": round(time.time() - t0, 1)}
            if rc not in (0, 1):
                print(out[-1500:])
    finally:
        sh(f"git -C /repo worktree remove --force {erepo}")
        shutil.rmtree(erepo, ignore_errors=True)
    print(json.dumps({k2: v for k2, v in res.items() if k2 != "agent_meta"}, indent=1))
    ok = res.get("baseline_tests_pass_with_change") and res.get("demo_fails_with_change") and res.get("demo_passes_without_change")
    dst = f"/verif/seeded/{prop}-{keep_as}"
    if ok:
        os.makedirs(dst, exist_ok=True)
        shutil.copy(patch, dst + "/patch.diff")
        for d in demos:
            shutil.copy(d, dst + "/" + os.path.basename(d).replace("_test.go", "_test.go.txt").replace(".txt.txt", ".txt"))
        json.dump({
            "property": prop,
            "summary": meta.get("summary"),
            "needs_to_manifest": meta.get("needs_to_manifest"),
            "files_changed": meta.get("files_changed"),
            "demo_placement": res["demo_placed"],
            "demo_cmd": res["demo_cmd"],
            "confirmed_by_us": {"baseline_suite_passes_with_change": True, "demo_fails_with_change": True, "demo_passes_without_change": True},
            "checks_run": res["checks"],
            "origin": "independent sub-agent given only the property text and a scratch worktree",
        }, open(dst + "/meta.json", "w"), indent=1)
        print("KEPT", dst)
    else:
        print("NOT KEPT (confirmation failed)")

if __name__ == "__main__":
    main()
