// vcheck is the host-side driver: it instruments /repo's current working tree through a build
// overlay (never touching /repo), builds the worker, distributes units over worker processes,
// merges their results into /verif/evidence/<ID>.json, applies the known-findings list and sets
// the exit code (0 held, 1 VIOLATION, 2 INFRA).
package main

import (
	"bufio"
	"bytes"
	"encoding/json"
	"flag"
	"fmt"
	"io"
	"os"
	"os/exec"
	"path/filepath"
	"sort"
	"strconv"
	"strings"
	"sync"
	"syscall"
	"time"
)

const (
	modPath  = "github.com/vipnode/vipnode/v2"
	vpkgRoot = "internal/verif"
)

// repo and verif are fixed for registered checks; VERIF_REPO / VERIF_ROOT let the evaluation of
// seeded changes run against a scratch worktree and a snapshot of the machinery.
var (
	repo  = envOr("VERIF_REPO", "/repo")
	verif = envOr("VERIF_ROOT", "/verif")
)

func envOr(k, d string) string {
	if v := os.Getenv(k); v != "" {
		return v
	}
	return d
}

// files that get statement-granular scheduling points
var stmtFiles = []string{
	"pool/store/memory/memory.go",
	"pool/store/badger/badger.go",
	"pool/store/badger/helpers.go",
	"pool/service.go",
	"pool/balance/perinterval.go",
	"pool/payment/service.go",
	"pool/payment/cache.go",
	"jsonrpc2/remote.go",
	"jsonrpc2/client.go",
	"jsonrpc2/pending.go",
	"jsonrpc2/server.go",
	"jsonrpc2/local.go",
	"jsonrpc2/ws/gorilla/codec.go",
	"agent/agent.go",
	"request/request.go",
	"request/node.go",
	"request/address.go",
	"jsonrpc2/method.go",
	"jsonrpc2/types.go",
	"jsonrpc2/codecs.go",
}

type budget struct {
	quick, thorough time.Duration
}

var budgets = map[string]budget{}

func defaultBudget(tier string) time.Duration {
	if tier == "thorough" {
		return 14 * time.Minute
	}
	return 100 * time.Second
}

type violation struct {
	Signature string          `json:"signature"`
	Detail    string          `json:"detail"`
	Unit      string          `json:"unit"`
	Replay    json.RawMessage `json:"replay,omitempty"`
}

type result struct {
	Unit        string                 `json:"unit"`
	States      int64                  `json:"states"`
	Transitions int64                  `json:"transitions"`
	Traces      int64                  `json:"traces_validated"`
	Evaluations int64                  `json:"evaluations"`
	Distinct    int64                  `json:"distinct"`
	Samples     []interface{}          `json:"samples,omitempty"`
	Exhaustive  bool                   `json:"exhaustive"`
	Bounds      map[string]interface{} `json:"bounds,omitempty"`
	Notes       []string               `json:"notes,omitempty"`
	Observed    map[string]int64       `json:"observed,omitempty"`
	Violations  []violation            `json:"violations,omitempty"`
	Infra       string                 `json:"infra,omitempty"`
	WallS       float64                `json:"wall_s"`
}

type meta struct {
	Units       []string `json:"units"`
	Level       string   `json:"level"`
	Rule        string   `json:"rule"`
	Technique   string   `json:"technique"`
	Assumptions []string `json:"assumptions"`
}

type knownFile struct {
	Findings []struct {
		Property  string `json:"property"`
		Signature string `json:"signature"`
		Text      string `json:"text"`
	} `json:"findings"`
	Fixed []string `json:"fixed"`
}

var globalCleanup func()

func infra(format string, a ...interface{}) {
	fmt.Printf("INFRA: "+format+"\n", a...)
	if globalCleanup != nil {
		globalCleanup()
	}
	os.Exit(2)
}

// modfile: a private copy of the repository's go.mod (with its go.sum next to it). Every go command
// runs with -modfile pointing at it, so that nothing the harness imports can ever make the go tool
// rewrite go.mod / go.sum in the repository's working tree.
var modfile string

func goEnv() []string {
	env := os.Environ()
	flags := "GOFLAGS=-mod=mod"
	if modfile != "" {
		flags += " -modfile=" + modfile
	}
	env = append(env, flags, "GOPROXY=off", "GOSUMDB=off", "GOTOOLCHAIN=local", "CGO_ENABLED=1")
	return env
}

func privateModfile(work string) {
	dir := filepath.Join(work, "mod")
	if err := os.MkdirAll(dir, 0755); err != nil {
		infra("mkdir: %v", err)
	}
	for _, f := range []string{"go.mod", "go.sum"} {
		b, err := os.ReadFile(filepath.Join(repo, f))
		if err != nil {
			infra("cannot read the repository's %s: %v", f, err)
		}
		if err := os.WriteFile(filepath.Join(dir, f), b, 0644); err != nil {
			infra("write: %v", err)
		}
	}
	modfile = filepath.Join(dir, "go.mod")
}

func main() {
	tier := flag.String("tier", "", "quick|thorough (default $VERIF_TIER or quick)")
	replay := flag.String("replay", "", "replay file")
	workers := flag.Int("workers", 0, "worker processes (default 16)")
	keep := flag.Bool("keep", false, "keep the work directory")
	withRace := flag.Bool("with-race", false, "with -build-only: also build the -race worker (pre-warms the build cache)")
	buildOnly := flag.Bool("build-only", false, "instrument and build the worker, then exit (used by setup)")
	selftest := flag.Bool("conformance", false, "run the repository's own test suite on the instrumented tree (pass-through mode)")
	budgetFlag := flag.Duration("budget", 0, "override the time budget")
	flag.Parse()
	id := flag.Arg(0)
	if id == "" && !*buildOnly && !*selftest {
		infra("usage: vcheck [flags] <property id>")
	}
	// allow flags after the id
	if flag.NArg() > 1 {
		flag.CommandLine.Parse(flag.Args()[1:])
	}
	if *tier == "" {
		*tier = os.Getenv("VERIF_TIER")
	}
	if *tier != "thorough" {
		*tier = "quick"
	}
	seed, _ := strconv.ParseInt(os.Getenv("VERIF_SEED"), 10, 64)
	if *workers <= 0 {
		*workers = 16
	}
	t0 := time.Now()

	work, err := os.MkdirTemp("/var/tmp", "vverif-")
	if err != nil {
		infra("mkdir: %v", err)
	}
	cleanup := func() {
		if !*keep {
			os.RemoveAll(work)
		}
	}
	defer cleanup()
	globalCleanup = cleanup
	os.Setenv("VERIF_SCRATCH", work)
	os.Setenv("VERIF_ROOT_DIR", verif) // fixtures committed under /verif (golden databases)
	privateModfile(work)

	overlay := buildOverlay(work)
	if *selftest {
		cmd := exec.Command("go", "test", "-overlay", overlay, "-vet=off", "-count=1", "./...")
		cmd.Dir = repo
		cmd.Env = goEnv()
		out, err := cmd.CombinedOutput()
		if err != nil {
			fmt.Printf("%s\n", out)
			cleanup()
			infra("conformance: repository test suite fails on the instrumented tree: %v", err)
		}
		fmt.Println("conformance: repository test suite passes on the instrumented tree (pass-through mode)")
		if id == "" {
			return
		}
	}
	worker := filepath.Join(work, "vworker")
	buildWorker(overlay, worker, cleanup)
	if *buildOnly {
		if *withRace {
			buildWorkerRace(overlay, filepath.Join(work, "vworker-race"), cleanup)
		}
		fmt.Println("build ok")
		return
	}

	if *replay != "" {
		cmd := exec.Command(worker, "-check", id, "-tier", *tier, "-replay", *replay)
		cmd.Stdout, cmd.Stderr = os.Stdout, os.Stderr
		cmd.Env = append(os.Environ(), "VERIF_SCRATCH="+work)
		err := cmd.Run()
		cleanup()
		if ee, ok := err.(*exec.ExitError); ok {
			os.Exit(ee.ExitCode())
		}
		return
	}

	// list units
	var m meta
	{
		cmd := exec.Command(worker, "-check", id, "-tier", *tier, "-list")
		var stderr bytes.Buffer
		cmd.Stderr = &stderr
		out, err := cmd.Output()
		if err != nil {
			cleanup()
			infra("list units: %v %s", err, stderr.String())
		}
		if err := json.Unmarshal(out, &m); err != nil {
			cleanup()
			infra("list units: %v", err)
		}
	}
	bud := defaultBudget(*tier)
	if b, ok := budgets[id]; ok {
		if *tier == "thorough" && b.thorough > 0 {
			bud = b.thorough
		} else if *tier == "quick" && b.quick > 0 {
			bud = b.quick
		}
	}
	if *budgetFlag > 0 {
		bud = *budgetFlag
	}
	deadline := time.Now().Add(bud)
	hard := bud*2 + 60*time.Second

	for _, un := range m.Units {
		if strings.HasPrefix(un, "wire/") {
			// the real binary, built from the working tree through the same overlay (pass-through)
			bin := filepath.Join(work, "vipnode")
			cmd := exec.Command("go", "build", "-overlay", overlay, "-tags", "verif", "-o", bin, ".")
			cmd.Dir = repo
			cmd.Env = goEnv()
			if b, err := cmd.CombinedOutput(); err != nil {
				fmt.Printf("%s\n", b)
				cleanup()
				infra("cannot build the vipnode binary: %v", err)
			}
			os.Setenv("VERIF_VIPNODE_BIN", bin)
			break
		}
	}
	raceWorker := ""
	for _, un := range m.Units {
		if strings.HasPrefix(un, "racepass/") {
			raceWorker = filepath.Join(work, "vworker-race")
			buildWorkerRace(overlay, raceWorker, cleanup)
			break
		}
	}
	results := runUnits(worker, raceWorker, id, *tier, seed, m.Units, *workers, deadline, hard, work)

	// merge
	var states, transitions, traces, evals, distinct int64
	exhaustive := true
	var samples []interface{}
	var notes []string
	bounds := map[string]interface{}{}
	observed := map[string]int64{}
	var viols []violation
	var infras []string
	perUnit := []map[string]interface{}{}
	for _, r := range results {
		states += r.States
		transitions += r.Transitions
		traces += r.Traces
		evals += r.Evaluations
		distinct += r.Distinct
		if !r.Exhaustive {
			exhaustive = false
		}
		for _, s := range r.Samples {
			if len(samples) < 8 {
				samples = append(samples, s)
			}
		}
		for _, n := range r.Notes {
			if len(notes) < 40 {
				notes = append(notes, r.Unit+": "+n)
			}
		}
		for k, v := range r.Bounds {
			bounds[r.Unit+"/"+k] = v
		}
		for k, v := range r.Observed {
			observed[k] += v
		}
		viols = append(viols, r.Violations...)
		if r.Infra != "" {
			infras = append(infras, r.Unit+": "+r.Infra)
		}
		if len(perUnit) < 400 {
			perUnit = append(perUnit, map[string]interface{}{"unit": r.Unit, "states": r.States, "transitions": r.Transitions, "distinct": r.Distinct, "exhaustive": r.Exhaustive, "wall_s": r.WallS})
		}
	}
	if evals == 0 {
		evals = traces
	}
	if evals == 0 {
		evals = transitions
	}

	// known findings
	var kf knownFile
	if b, err := os.ReadFile(filepath.Join(verif, "known_findings.json")); err == nil {
		json.Unmarshal(b, &kf)
	}
	known := map[string]string{}
	for _, f := range kf.Findings {
		if f.Property == id {
			known[f.Signature] = f.Text
		}
	}
	knownSeen := map[string]bool{}
	var unknown []violation
	for _, v := range viols {
		if _, ok := known[v.Signature]; ok {
			knownSeen[v.Signature] = true
		} else {
			unknown = append(unknown, v)
		}
	}

	// evidence
	cov := map[string]interface{}{
		"states":                        max64(states, 1),
		"transitions":                   max64(transitions, 1),
		"traces_validated_against_impl": traces,
		"evaluations":                   max64(evals, 1),
		"distinct_nontrivial":           distinct,
		"rule":                          m.Rule,
		"samples":                       samples,
		"exhaustive":                    exhaustive,
		"bounds":                        bounds,
		"units":                         len(results),
		"per_unit":                      perUnit,
		"observed":                      observed,
		"notes":                         notes,
		"technique":                     m.Technique,
		"known_findings_seen":           keys(knownSeen),
		"budget_s":                      bud.Seconds(),
	}
	if len(samples) == 0 {
		cov["samples"] = []interface{}{"(no samples recorded)"}
	}
	ev := map[string]interface{}{
		"property_id": id,
		"tier":        *tier,
		"seed":        seed,
		"level":       m.Level,
		"coverage":    cov,
		"assumptions": m.Assumptions,
		"wall_s":      time.Since(t0).Seconds(),
		"violations":  len(unknown),
	}
	os.MkdirAll(filepath.Join(verif, "evidence"), 0755)
	eb, _ := json.MarshalIndent(ev, "", " ")
	if len(infras) == 0 {
		if err := os.WriteFile(filepath.Join(verif, "evidence", id+".json"), eb, 0644); err != nil {
			cleanup()
			infra("write evidence: %v", err)
		}
	}

	fmt.Printf("%s tier=%s units=%d states=%d transitions=%d traces=%d distinct=%d exhaustive=%v wall=%.1fs\n",
		id, *tier, len(results), states, transitions, traces, distinct, exhaustive, time.Since(t0).Seconds())
	for _, n := range notes {
		fmt.Println("  note:", n)
	}
	sigs := keys(knownSeen)
	for _, s := range sigs {
		fmt.Printf("KNOWN-FINDING: property=%s %s — %s\n", id, s, known[s])
	}
	if len(infras) > 0 {
		for _, s := range infras {
			fmt.Println("INFRA:", s)
		}
		cleanup()
		os.Exit(2)
	}
	if len(unknown) > 0 {
		dir := filepath.Join(verif, "replays", id)
		os.MkdirAll(dir, 0755)
		seen := map[string]bool{}
		for _, v := range unknown {
			if seen[v.Signature] {
				continue
			}
			seen[v.Signature] = true
			rec := map[string]interface{}{"property": id, "tier": *tier, "unit": v.Unit, "signature": v.Signature, "detail": v.Detail, "replay": v.Replay}
			b, _ := json.MarshalIndent(rec, "", " ")
			p := filepath.Join(dir, hash(v.Signature+v.Unit)+".json")
			os.WriteFile(p, b, 0644)
			fmt.Printf("  signature: %s\n  detail: %s\n", v.Signature, firstLines(v.Detail, 12))
			fmt.Printf("VIOLATION property=%s replay=%s\n", id, p)
		}
		cleanup()
		os.Exit(1)
	}
}

func firstLines(s string, n int) string {
	l := strings.Split(s, "\n")
	if len(l) > n {
		l = append(l[:n], "...")
	}
	return strings.Join(l, "\n    ")
}

func hash(s string) string {
	var h uint64 = 14695981039346656037
	for i := 0; i < len(s); i++ {
		h ^= uint64(s[i])
		h *= 1099511628211
	}
	return fmt.Sprintf("%016x", h)
}

func keys(m map[string]bool) []string {
	r := []string{}
	for k := range m {
		r = append(r, k)
	}
	sort.Strings(r)
	return r
}

func max64(a, b int64) int64 {
	if a > b {
		return a
	}
	return b
}

// buildOverlay runs the rewriter and composes the overlay; returns the overlay path.
func buildOverlay(work string) string {
	gen := filepath.Join(work, "gen")
	os.MkdirAll(gen, 0755)
	cmd := exec.Command(filepath.Join(verif, "bin", "vrewrite"), "-repo", repo, "-out", gen,
		"-vsched-path", modPath+"/"+vpkgRoot+"/vsched", "-stmt", strings.Join(stmtFiles, ","))
	cmd.Env = goEnv()
	out, err := cmd.CombinedOutput()
	if err != nil {
		fmt.Printf("%s\n", out)
		os.RemoveAll(work)
		infra("cannot instrument the working tree: %v", err)
	}
	var ov struct {
		Replace map[string]string
	}
	b, err := os.ReadFile(filepath.Join(gen, "overlay.rewrite.json"))
	if err != nil {
		infra("%v", err)
	}
	json.Unmarshal(b, &ov)
	add := func(srcDir, dstDir string) {
		filepath.Walk(srcDir, func(p string, fi os.FileInfo, err error) error {
			if err != nil || fi.IsDir() || !strings.HasSuffix(p, ".go") {
				return nil
			}
			rel, _ := filepath.Rel(srcDir, p)
			ov.Replace[filepath.Join(dstDir, rel)] = p
			return nil
		})
	}
	add(filepath.Join(verif, "engine", "vsched"), filepath.Join(repo, vpkgRoot, "vsched"))
	for _, d := range []string{"vh", "checks", "vworker"} {
		add(filepath.Join(verif, "harness", d), filepath.Join(repo, vpkgRoot, d))
	}
	// in-package helper files: harness/inpkg/<pkg path>/*.go -> /repo/<pkg path>/
	add(filepath.Join(verif, "harness", "inpkg"), repo)
	patchBadgerClock(gen, ov.Replace)
	j, _ := json.MarshalIndent(ov, "", " ")
	p := filepath.Join(work, "overlay.json")
	os.WriteFile(p, j, 0644)
	return p
}

// patchBadgerClock puts the two places where the badger library reads the wall clock for record
// expiry (Entry.WithTTL and isDeletedOrExpired) behind a variable that the harness points at the
// virtual clock: nonce records carry a TTL, and the expiry must happen in the same (virtual) time
// the driver's freshness window is measured in. The library itself stays untouched (overlay).
func patchBadgerClock(gen string, replace map[string]string) {
	cmd := exec.Command("go", "list", "-m", "-f", "{{.Dir}}", "github.com/dgraph-io/badger/v2")
	cmd.Dir = repo
	cmd.Env = goEnv()
	out, err := cmd.Output()
	dir := strings.TrimSpace(string(out))
	if err != nil || dir == "" {
		infra("cannot locate the badger module: %v", err)
	}
	sites := map[string]string{
		"iterator.go": "return expiresAt <= uint64(time.Now().Unix())",
		"structs.go":  "e.ExpiresAt = uint64(time.Now().Add(dur).Unix())",
		// DB.Update: between the caller's closure returning and the commit lies the window in which a
		// concurrent transaction can commit first (conflict) or a buffer handed to the transaction can
		// be reused; the library is not instrumented, so that one point is made visible to the scheduler
		"txn.go": "\tif err := fn(txn); err != nil {\n\t\treturn err\n\t}\n\n\treturn txn.Commit()\n}",
	}
	for f, line := range sites {
		b, err := os.ReadFile(filepath.Join(dir, f))
		if err != nil {
			infra("%v", err)
		}
		src := string(b)
		if strings.Count(src, line) != 1 {
			infra("badger %s: patch site not found (library version changed?)", f)
		}
		if f == "txn.go" {
			src = strings.Replace(src, line, "\tif err := fn(txn); err != nil {\n\t\treturn err\n\t}\n\tif err := VerifBeforeCommit(); err != nil {\n\t\treturn err\n\t}\n\treturn txn.Commit()\n}", 1)
		} else {
			src = strings.Replace(src, line, strings.Replace(line, "time.Now()", "VerifNow()", 1), 1)
		}
		if f != "txn.go" {
			src += "\nvar _ = time.Now\n"
		}
		if f == "structs.go" {
			// (declared in a replaced file: files added to a module-cache package are not seen)
			src += "\n// VerifNow is the clock record expiry is measured with (verification overlay only).\nvar VerifNow = time.Now\n"
			src += "\n// VerifBeforeCommit runs in DB.Update between the closure and the commit; an error it returns\n// is returned instead of committing, as a lost commit race would be (verification overlay only).\nvar VerifBeforeCommit = func() error { return nil }\n"
		}
		dst := filepath.Join(gen, "badger_"+f)
		os.WriteFile(dst, []byte(src), 0644)
		replace[filepath.Join(dir, f)] = dst
	}
}

func buildWorkerRace(overlay, out string, cleanup func()) {
	cmd := exec.Command("go", "build", "-race", "-overlay", overlay, "-tags", "verif", "-o", out, "./"+vpkgRoot+"/vworker")
	cmd.Dir = repo
	cmd.Env = goEnv()
	b, err := cmd.CombinedOutput()
	if err != nil {
		fmt.Printf("%s\n", b)
		cleanup()
		infra("cannot build the -race worker: %v", err)
	}
}

func buildWorker(overlay, out string, cleanup func()) {
	cmd := exec.Command("go", "build", "-overlay", overlay, "-tags", "verif", "-o", out, "./"+vpkgRoot+"/vworker")
	cmd.Dir = repo
	cmd.Env = goEnv()
	b, err := cmd.CombinedOutput()
	if err != nil {
		fmt.Printf("%s\n", b)
		cleanup()
		infra("cannot build the instrumented worker: %v", err)
	}
}

// workerRecycleRSS: a worker whose resident set has grown beyond this between two units is replaced
// (16 workers share the machine's memory; a killed-by-the-kernel worker would look like a crash).
const workerRecycleRSS = 2 << 30

// workerRSS returns the resident set size of a process in bytes (0 if unknown).
func workerRSS(pid int) int64 {
	b, err := os.ReadFile(fmt.Sprintf("/proc/%d/statm", pid))
	if err != nil {
		return 0
	}
	f := strings.Fields(string(b))
	if len(f) < 2 {
		return 0
	}
	pages, _ := strconv.ParseInt(f[1], 10, 64)
	return pages * int64(os.Getpagesize())
}

type job struct {
	idx   int
	tries int
}

func runUnits(worker, raceWorker, id, tier string, seed int64, units []string, nworkers int, deadline time.Time, hard time.Duration, work string) []result {
	if nworkers > len(units) {
		nworkers = len(units)
	}
	jobs := make(chan job, len(units)*2+1)
	raceJobs := make(chan job, len(units)*2+1)
	nRace := 0
	only := os.Getenv("VERIF_ONLY") // debugging aid: run only the units whose name contains this
	skipped := 0
	for i := range units {
		if only != "" && !strings.Contains(units[i], only) {
			skipped++
			continue
		}
		if strings.HasPrefix(units[i], "racepass/") {
			raceJobs <- job{idx: i}
			nRace++
		} else {
			jobs <- job{idx: i}
		}
	}
	var mu sync.Mutex
	results := make([]result, 0, len(units))
	pending := len(units) - skipped
	if pending == 0 {
		return nil
	}
	done := make(chan struct{})
	finish := func(r result) {
		mu.Lock()
		results = append(results, r)
		pending--
		if pending == 0 {
			close(done)
		}
		mu.Unlock()
	}
	for w := 0; w < nworkers; w++ {
		bin, jobs := worker, jobs
		if nRace > 0 && w%4 == 3 {
			// a quarter of the worker slots serve the free-running -race pass
			bin, jobs = raceWorker, raceJobs
		}
		if nRace > 0 && nworkers < 4 && w == 0 {
			bin, jobs = raceWorker, raceJobs
		}
		go func() {
			var cmd *exec.Cmd
			var stdin io.WriteCloser
			var rd *bufio.Reader
			var stderr *bytes.Buffer
			// a worker started to run a unit once more (after a crash or hang) gets a fresh budget:
			// with the original deadline already in the past the unit would return at once
			workerDeadline := deadline
			start := func() error {
				cmd = exec.Command(bin, "-check", id, "-tier", tier, "-serve", "-deadline", strconv.FormatInt(workerDeadline.Unix(), 10), "-seed", strconv.FormatInt(seed, 10))
				cmd.Env = append(os.Environ(), "VERIF_SCRATCH="+work, "GOMAXPROCS=2")
				if bin == raceWorker {
					cmd.Env = append(os.Environ(), "VERIF_SCRATCH="+work, "GOMAXPROCS=4", "GORACE=halt_on_error=1 exitcode=66", "VERIF_NO_RLIMIT=1")
				}
				cmd.SysProcAttr = &syscall.SysProcAttr{Setpgid: true}
				stderr = &bytes.Buffer{}
				cmd.Stderr = stderr
				var err error
				stdin, err = cmd.StdinPipe()
				if err != nil {
					return err
				}
				so, err := cmd.StdoutPipe()
				if err != nil {
					return err
				}
				rd = bufio.NewReaderSize(so, 1<<20)
				return cmd.Start()
			}
			stop := func() {
				if cmd != nil && cmd.Process != nil {
					syscall.Kill(-cmd.Process.Pid, syscall.SIGKILL)
					cmd.Wait()
				}
				cmd = nil
			}
			defer stop()
			var again *job // a unit this goroutine runs once more itself (in a fresh process)
			for {
				var j job
				if again != nil {
					j, again = *again, nil
				} else {
					select {
					case j = <-jobs:
					case <-done:
						return
					}
				}
				if cmd != nil && cmd.Process != nil && workerRSS(cmd.Process.Pid) > workerRecycleRSS {
					// whatever the units run so far left behind (database handles, simulated chains,
					// caches the collector cannot see) goes with the process: a fresh one for the next unit
					stop()
				}
				if cmd == nil {
					if err := start(); err != nil {
						finish(result{Unit: units[j.idx], Infra: "cannot start worker: " + err.Error()})
						cmd = nil
						continue
					}
				}
				fmt.Fprintf(stdin, "%d\n", j.idx)
				type lineT struct {
					b   []byte
					err error
				}
				lc := make(chan lineT, 1)
				go func() {
					b, err := rd.ReadBytes('\n')
					lc <- lineT{b, err}
				}()
				var line lineT
				timedOut := false
				select {
				case line = <-lc:
				case <-time.After(hard):
					timedOut = true
				}
				if timedOut || line.err != nil {
					if timedOut && cmd != nil && cmd.Process != nil {
						// ask the runtime for the goroutine dump before killing the worker
						syscall.Kill(cmd.Process.Pid, syscall.SIGQUIT)
						time.Sleep(3 * time.Second)
					}
					tail := ""
					if stderr != nil {
						tail = stderr.String()
						if timedOut {
							if len(tail) > 20000 {
								tail = tail[:20000]
							}
						} else if len(tail) > 3000 {
							tail = tail[len(tail)-3000:]
						}
					}
					stop()
					what := "crashed"
					if timedOut {
						what = "hung (hard timeout " + hard.String() + ")"
					}
					if j.tries < 1 {
						if fresh := time.Now().Add((hard - 60*time.Second) / 2); fresh.After(workerDeadline) {
							workerDeadline = fresh
						}
						// once more, in a fresh process (a unit that kills or wedges its process does so again)
						if timedOut {
							os.WriteFile(filepath.Join(verif, "replays", id+"-first-hang-"+strings.ReplaceAll(units[j.idx], "/", "_")+".txt"), []byte(tail), 0644)
						}
						again = &job{idx: j.idx, tries: j.tries + 1}
						continue
					}
					// A worker that dies or hangs twice on the same unit: the code under test killed
					// or wedged the process.
					sig := "worker-" + strings.Fields(what)[0] + "/" + units[j.idx]
					if strings.Contains(tail, "DATA RACE") {
						sig = "data-race/" + units[j.idx]
					}
					finish(result{Unit: units[j.idx], Exhaustive: false, Violations: []violation{{
						Signature: sig, Unit: units[j.idx],
						Detail: "worker process " + what + " while running unit " + units[j.idx] + "; stderr tail:\n" + tail,
					}}})
					continue
				}
				var r result
				if err := json.Unmarshal(line.b, &r); err != nil {
					finish(result{Unit: units[j.idx], Infra: "bad worker output: " + err.Error()})
					continue
				}
				finish(r)
			}
		}()
	}
	<-done
	sort.Slice(results, func(i, j int) bool { return results[i].Unit < results[j].Unit })
	return results
}
