package main

import (
	"bytes"
	"os"
	"os/exec"
	"path/filepath"
	"strings"
	"testing"
)

// The rewriter's self-test: a corpus of Go constructs (testdata/corpus) is run as written, then
// instrumented and run again in pass-through mode and under the controlled scheduler; every function
// must give the same answer. Guards against instrumentation that does not compile or changes
// semantics on code the checks have never seen (changed trees are instrumented too).
func TestCorpus(t *testing.T) {
	if testing.Short() {
		t.Skip("builds three programs")
	}
	tmp := t.TempDir()
	run := func(dir string, name string, args ...string) string {
		t.Helper()
		cmd := exec.Command(name, args...)
		cmd.Dir = dir
		cmd.Env = append(os.Environ(), "GOFLAGS=-mod=mod", "GOPROXY=off", "GOSUMDB=off", "GOTOOLCHAIN=local")
		var out, errb bytes.Buffer
		cmd.Stdout, cmd.Stderr = &out, &errb
		if err := cmd.Run(); err != nil {
			t.Fatalf("%s %v: %v\n%s\n%s", name, args, err, out.String(), errb.String())
		}
		return out.String()
	}
	mod := filepath.Join(tmp, "corpus")
	run(".", "cp", "-r", "testdata/corpus", mod)
	vs := filepath.Join(mod, "internal", "verif", "vsched")
	os.MkdirAll(vs, 0755)
	for _, f := range []string{"vsched.go", "shims.go"} {
		run(".", "cp", filepath.Join("..", "vsched", f), vs)
	}
	plain := run(mod, "go", "run", "./cmd/run")
	want := map[string]string{}
	for _, l := range strings.Split(strings.TrimSpace(plain), "\n") {
		kv := strings.SplitN(l, " = ", 2)
		want[kv[0]] = kv[1]
	}
	if len(want) < 20 {
		t.Fatalf("corpus too small: %v", want)
	}
	bin := filepath.Join(tmp, "vrewrite")
	run(".", "go", "build", "-o", bin, ".")
	gen := filepath.Join(tmp, "gen")
	run(mod, bin, "-repo", mod, "-out", gen, "-vsched-path", "example.com/corpus/internal/verif/vsched", "-pkgs", ".,sub", "-stmt", "corpus.go,sub/sub.go")
	got := run(mod, "go", "run", "-overlay", filepath.Join(gen, "overlay.rewrite.json"), "./cmd/runv")
	seen := map[string]int{}
	for _, l := range strings.Split(strings.TrimSpace(got), "\n") {
		f := strings.SplitN(l, " ", 2)
		kv := strings.SplitN(f[1], " = ", 2)
		mode, name, val := f[0], kv[0], kv[1]
		if mode == "explore" {
			val = val[:strings.LastIndex(val, " (")]
		}
		seen[mode]++
		if val != want[name] {
			t.Errorf("%s %s: instrumented %q, original %q", mode, name, val, want[name])
		}
	}
	for _, m := range []string{"pass", "ctl", "explore"} {
		if seen[m] != len(want) {
			t.Errorf("mode %s ran %d of %d functions", m, seen[m], len(want))
		}
	}
}
