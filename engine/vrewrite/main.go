// vrewrite: type-aware AST rewriter producing instrumented copies of vipnode packages plus a
// go build overlay. It never writes into the repository.
//
//	vrewrite -repo /repo -out DIR -vsched-path <import path> [-stmt a.go,b.go] [-extra overlay entries]
//
// Rewrites (all semantics-preserving when vsched is in pass-through mode):
//
//	time.Now/Since/Until/After/Tick/Sleep        -> vsched.*
//	context.WithTimeout/WithCancel/WithDeadline  -> vsched.*
//	sync.Mutex/RWMutex/WaitGroup/Once            -> vsched.*
//	rand.Shuffle                                 -> vsched.Shuffle
//	go f(a...)                                   -> vsched.Go(func(){ f(a...) }) with eager evaluation
//	ch <- v, <-ch, v,ok := <-ch, close(ch)       -> vsched.Send/Recv/Recv2/Close
//	select {...}                                 -> switch vsched.Select(cases...) {...}
//	for k,v := range <map with string key>       -> iteration over vsched.SortedKeys
//	for v := range <chan>                        -> for { v, ok := vsched.Recv2(ch); if !ok {break}; ... }
//	(files in -stmt) every statement             -> preceded by vsched.Y(file, line)
package main

import (
	"bytes"
	"encoding/json"
	"flag"
	"fmt"
	"go/ast"
	"go/importer"
	"go/parser"
	"go/printer"
	"go/token"
	"go/types"
	"io"
	"os"
	"os/exec"
	"path/filepath"
	"reflect"
	"strconv"
	"strings"
)

var (
	repoFlag  = flag.String("repo", "/repo", "repository root")
	outFlag   = flag.String("out", "", "output directory for rewritten files and overlay.json")
	vpathFlag = flag.String("vsched-path", "github.com/vipnode/vipnode/v2/internal/verif/vsched", "import path of vsched")
	stmtFlag  = flag.String("stmt", "", "comma separated file paths (relative to repo) that get statement-level yields")
	pkgsFlag  = flag.String("pkgs", "", "comma separated package dirs relative to repo ('.' for root); empty = default set")
	tagsFlag  = flag.String("tags", "verif", "build tags for go list")
)

var defaultPkgs = []string{
	".", "agent", "ethnode", "jsonrpc2", "jsonrpc2/ws/gorilla", "jsonrpc2/ws/gobwas",
	"pool", "pool/balance", "pool/payment", "pool/status", "pool/store", "pool/store/memory",
	"pool/store/badger", "request",
}

type listPkg struct {
	Dir        string
	ImportPath string
	Export     string
	GoFiles    []string
	CgoFiles   []string
	Standard   bool
	Error      *struct{ Err string }
}

func infra(format string, a ...interface{}) {
	fmt.Fprintf(os.Stderr, "INFRA: "+format+"\n", a...)
	os.Exit(2)
}

func main() {
	flag.Parse()
	if *outFlag == "" {
		infra("missing -out")
	}
	os.MkdirAll(*outFlag, 0755)
	needGo121 = !moduleGoVersionAtLeast121(*repoFlag)
	pkgDirs := defaultPkgs
	if *pkgsFlag != "" {
		pkgDirs = strings.Split(*pkgsFlag, ",")
	}
	stmtFiles := map[string]bool{}
	for _, f := range strings.Split(*stmtFlag, ",") {
		if f != "" {
			stmtFiles[filepath.Join(*repoFlag, f)] = true
		}
	}

	// 1. export data for all dependencies
	args := []string{"list", "-export", "-deps", "-json=Dir,ImportPath,Export,GoFiles,CgoFiles,Standard,Error", "-tags", *tagsFlag, "./..."}
	cmd := exec.Command("go", args...)
	cmd.Dir = *repoFlag
	var stderr bytes.Buffer
	cmd.Stderr = &stderr
	out, err := cmd.Output()
	if err != nil {
		// a compile error in the repository: not ours to judge
		fmt.Fprintf(os.Stderr, "%s", stderr.String())
		infra("go list -export failed: %v", err)
	}
	exports := map[string]string{}
	byDir := map[string]*listPkg{}
	dec := json.NewDecoder(bytes.NewReader(out))
	for {
		var p listPkg
		if err := dec.Decode(&p); err == io.EOF {
			break
		} else if err != nil {
			infra("go list json: %v", err)
		}
		if p.Export != "" {
			exports[p.ImportPath] = p.Export
		}
		pp := p
		byDir[p.Dir] = &pp
	}

	if *pkgsFlag == "" {
		// every package of the repository itself (also ones that did not exist when this was written:
		// code that takes part in the concurrency must not keep native primitives), except the
		// verification packages injected by the overlay
		seen := map[string]bool{}
		for _, d := range pkgDirs {
			seen[filepath.Clean(filepath.Join(*repoFlag, d))] = true
		}
		root := filepath.Clean(*repoFlag)
		for dir, lp := range byDir {
			if lp.Standard || seen[dir] || !(dir == root || strings.HasPrefix(dir, root+string(filepath.Separator))) {
				continue
			}
			rel, _ := filepath.Rel(root, dir)
			if strings.HasPrefix(rel, filepath.Join("internal", "verif")) || strings.HasPrefix(rel, "vendor") {
				continue
			}
			pkgDirs = append(pkgDirs, rel)
		}
	}

	fset := token.NewFileSet()
	imp := importer.ForCompiler(fset, "gc", func(path string) (io.ReadCloser, error) {
		f, ok := exports[path]
		if !ok {
			return nil, fmt.Errorf("no export data for %s", path)
		}
		return os.Open(f)
	})

	overlay := map[string]string{}
	for _, rel := range pkgDirs {
		dir := filepath.Clean(filepath.Join(*repoFlag, rel))
		lp := byDir[dir]
		if lp == nil {
			// package vanished (e.g. removed by an edit): skip silently
			continue
		}
		if len(lp.CgoFiles) > 0 {
			continue
		}
		var files []*ast.File
		var paths []string
		for _, name := range lp.GoFiles {
			p := filepath.Join(dir, name)
			f, err := parser.ParseFile(fset, p, nil, parser.ParseComments)
			if err != nil {
				infra("cannot parse %s: %v", p, err)
			}
			files = append(files, f)
			paths = append(paths, p)
		}
		info := &types.Info{
			Types:      map[ast.Expr]types.TypeAndValue{},
			Uses:       map[*ast.Ident]types.Object{},
			Defs:       map[*ast.Ident]types.Object{},
			Selections: map[*ast.SelectorExpr]*types.Selection{},
		}
		conf := types.Config{Importer: imp, Error: func(err error) {}}
		if _, err := conf.Check(lp.ImportPath, fset, files, info); err != nil {
			infra("cannot type-check %s: %v", lp.ImportPath, err)
		}
		for i, f := range files {
			r := &rw{fset: fset, info: info, file: f, stmt: stmtFiles[paths[i]], base: filepath.Base(paths[i])}
			r.rewriteFile()
			var buf bytes.Buffer
			if c := r.constraint(); c != "" {
				buf.WriteString("//go:build " + c + "\n\n")
			}
			if err := printer.Fprint(&buf, fset, f); err != nil {
				infra("cannot print %s: %v", paths[i], err)
			}
			relp, _ := filepath.Rel(*repoFlag, paths[i])
			outp := filepath.Join(*outFlag, strings.ReplaceAll(relp, string(filepath.Separator), "__"))
			if err := os.WriteFile(outp, buf.Bytes(), 0644); err != nil {
				infra("write %s: %v", outp, err)
			}
			overlay[paths[i]] = outp
		}
	}
	j, _ := json.MarshalIndent(map[string]interface{}{"Replace": overlay}, "", " ")
	if err := os.WriteFile(filepath.Join(*outFlag, "overlay.rewrite.json"), j, 0644); err != nil {
		infra("write overlay: %v", err)
	}
}

type rw struct {
	fset *token.FileSet
	info *types.Info
	file *ast.File
	stmt bool
	base string
	used bool
	tmp  int
}

// needGo121: the module's language version is below 1.21 (the shims are generic: rewritten files
// then get a go1.21 build constraint, which also raises their language version). A module already
// at 1.21 or later keeps its own version: a constraint would lower it.
var needGo121 = true

func moduleGoVersionAtLeast121(repo string) bool {
	b, err := os.ReadFile(filepath.Join(repo, "go.mod"))
	if err != nil {
		return false
	}
	for _, l := range strings.Split(string(b), "\n") {
		f := strings.Fields(l)
		if len(f) == 2 && f[0] == "go" {
			parts := strings.Split(f[1], ".")
			if len(parts) >= 2 {
				major, _ := strconv.Atoi(parts[0])
				minor, _ := strconv.Atoi(parts[1])
				return major > 1 || minor >= 21
			}
		}
	}
	return false
}

func (r *rw) constraint() string {
	if !needGo121 {
		for _, cg := range r.file.Comments {
			if cg.Pos() > r.file.Package {
				break
			}
			for _, c := range cg.List {
				if strings.HasPrefix(c.Text, "//go:build ") {
					return strings.TrimSpace(strings.TrimPrefix(c.Text, "//go:build "))
				}
			}
		}
		return ""
	}
	for _, cg := range r.file.Comments {
		if cg.Pos() > r.file.Package {
			break
		}
		for _, c := range cg.List {
			if strings.HasPrefix(c.Text, "//go:build ") {
				return "(" + strings.TrimSpace(strings.TrimPrefix(c.Text, "//go:build ")) + ") && go1.21"
			}
		}
	}
	return "go1.21"
}

func (r *rw) vs(name string) ast.Expr {
	r.used = true
	return &ast.SelectorExpr{X: ast.NewIdent("vsched"), Sel: ast.NewIdent(name)}
}

func call(fn ast.Expr, args ...ast.Expr) *ast.CallExpr { return &ast.CallExpr{Fun: fn, Args: args} }

func (r *rw) tmpName(p string) *ast.Ident {
	r.tmp++
	return ast.NewIdent(fmt.Sprintf("_vs%s%d", p, r.tmp))
}

// pkgSel returns (importPath, name) if e is a qualified identifier pkg.Name.
func (r *rw) pkgSel(e ast.Expr) (string, string, bool) {
	s, ok := e.(*ast.SelectorExpr)
	if !ok {
		return "", "", false
	}
	id, ok := s.X.(*ast.Ident)
	if !ok {
		return "", "", false
	}
	pn, ok := r.info.Uses[id].(*types.PkgName)
	if !ok {
		return "", "", false
	}
	return pn.Imported().Path(), s.Sel.Name, true
}

var shimmed = map[string]map[string]string{
	"time": {"Now": "Now", "Since": "Since", "Until": "Until", "After": "After", "Tick": "Tick", "Sleep": "Sleep",
		"NewTimer": "NewTimer", "NewTicker": "NewTicker", "AfterFunc": "AfterFunc", "Timer": "Timer", "Ticker": "Ticker"},
	"context":   {"WithTimeout": "WithTimeout", "WithCancel": "WithCancel", "WithDeadline": "WithDeadline"},
	"sync":      {"Mutex": "Mutex", "RWMutex": "RWMutex", "WaitGroup": "WaitGroup", "Once": "Once", "Cond": "Cond", "NewCond": "NewCond", "Pool": "Pool"},
	"math/rand": {"Shuffle": "Shuffle"},
}

func (r *rw) isBuiltin(e ast.Expr, name string) bool {
	id, ok := e.(*ast.Ident)
	if !ok || id.Name != name {
		return false
	}
	_, ok = r.info.Uses[id].(*types.Builtin)
	return ok
}

func (r *rw) typeOf(e ast.Expr) types.Type {
	if tv, ok := r.info.Types[e]; ok {
		return tv.Type
	}
	if id, ok := e.(*ast.Ident); ok {
		if o := r.info.Uses[id]; o != nil {
			return o.Type()
		}
		if o := r.info.Defs[id]; o != nil {
			return o.Type()
		}
	}
	return nil
}

func isPure(e ast.Expr) bool {
	switch x := e.(type) {
	case *ast.Ident:
		return true
	case *ast.SelectorExpr:
		return isPure(x.X)
	case *ast.ParenExpr:
		return isPure(x.X)
	case *ast.StarExpr:
		return isPure(x.X)
	}
	return false
}

// rewriteExpr is applied bottom-up to every expression.
func (r *rw) rewriteExpr(e ast.Expr) ast.Expr {
	switch x := e.(type) {
	case *ast.SelectorExpr:
		if path, name, ok := r.pkgSel(x); ok {
			if m := shimmed[path]; m != nil {
				if n, ok := m[name]; ok {
					return r.vs(n)
				}
			}
		}
	case *ast.UnaryExpr:
		if x.Op == token.ARROW {
			return call(r.vs("Recv"), x.X)
		}
	case *ast.CallExpr:
		if len(x.Args) == 1 && r.isBuiltin(x.Fun, "close") {
			return call(r.vs("Close"), x.Args[0])
		}
	}
	return e
}

var exprType = reflect.TypeOf((*ast.Expr)(nil)).Elem()
var stmtType = reflect.TypeOf((*ast.Stmt)(nil)).Elem()

// walk rewrites expressions and statements reflectively (post-order).
func (r *rw) walk(v reflect.Value) {
	switch v.Kind() {
	case reflect.Interface, reflect.Ptr:
		if v.IsNil() {
			return
		}
		if v.Kind() == reflect.Ptr {
			switch v.Interface().(type) {
			case *ast.Object, *ast.Scope, *ast.CommentGroup, *ast.Comment:
				return
			}
		}
		r.walk(v.Elem())
	case reflect.Struct:
		for i := 0; i < v.NumField(); i++ {
			f := v.Field(i)
			if !f.CanSet() {
				continue
			}
			r.walkField(f)
		}
	case reflect.Slice:
		if v.Type().Elem() == stmtType {
			r.walkStmtList(v)
			return
		}
		for i := 0; i < v.Len(); i++ {
			r.walkField(v.Index(i))
		}
	}
}

func (r *rw) walkField(f reflect.Value) {
	switch {
	case f.Type() == exprType:
		if f.IsNil() {
			return
		}
		r.walk(f)
		f.Set(reflect.ValueOf(r.rewriteExpr(f.Interface().(ast.Expr))))
	case f.Type() == stmtType:
		if f.IsNil() {
			return
		}
		out := r.rewriteStmt(f.Interface().(ast.Stmt))
		if len(out) == 1 {
			f.Set(reflect.ValueOf(out[0]))
		} else {
			f.Set(reflect.ValueOf(ast.Stmt(&ast.BlockStmt{List: out})))
		}
	default:
		r.walk(f)
	}
}

func (r *rw) walkExpr(e *ast.Expr) {
	r.walkField(reflect.ValueOf(e).Elem())
}

func (r *rw) walkStmtList(v reflect.Value) {
	list := v.Interface().([]ast.Stmt)
	var out []ast.Stmt
	for _, s := range list {
		if r.stmt {
			_, isCase := s.(*ast.CaseClause)
			_, isComm := s.(*ast.CommClause)
			if _, empty := s.(*ast.EmptyStmt); !empty && !isCase && !isComm {
				pos := r.fset.Position(s.Pos())
				args := []ast.Expr{
					&ast.BasicLit{Kind: token.STRING, Value: strconv.Quote(r.base)},
					&ast.BasicLit{Kind: token.INT, Value: strconv.Itoa(pos.Line)}}
				// accesses to objects that are not safe for concurrent use (maps, *rand.Rand,
				// buffers) are announced at the scheduling point in front of the statement
				if accs := r.accesses(s, true); len(accs) > 0 {
					out = append(out, &ast.ExprStmt{X: call(r.vs("TouchY"), append(args, accs...)...)})
				} else {
					out = append(out, &ast.ExprStmt{X: call(r.vs("Y"), args...)})
				}
			}
		} else if _, isCase := s.(*ast.CaseClause); !isCase {
			if _, isComm := s.(*ast.CommClause); !isComm {
				// outside the statement-instrumented files only the rare library objects are tracked
				if accs := r.accesses(s, false); len(accs) > 0 {
					pos := r.fset.Position(s.Pos())
					out = append(out, &ast.ExprStmt{X: call(r.vs("TouchY"), append([]ast.Expr{
						&ast.BasicLit{Kind: token.STRING, Value: strconv.Quote("touch:" + r.base)},
						&ast.BasicLit{Kind: token.INT, Value: strconv.Itoa(pos.Line)}}, accs...)...)})
				}
			}
		}
		out = append(out, r.rewriteStmt(s)...)
	}
	v.Set(reflect.ValueOf(out))
}

// exclusiveTypes: library types whose values must not be used by two goroutines at once.
var exclusiveTypes = map[string]bool{"math/rand.Rand": true, "bytes.Buffer": true, "strings.Builder": true, "encoding/json.Encoder": true, "encoding/json.Decoder": true, "bufio.Writer": true, "bufio.Reader": true}

// accesses lists, as vsched.Acc literals, the accesses statement s makes (in its own expressions,
// not in nested blocks) to objects that are not safe for concurrent use: reads and writes of maps
// held in struct fields or package variables (maps only when withMaps), method calls on values of
// the exclusive library types. Object expressions are wrapped in closures, evaluated under recover.
func (r *rw) accesses(s ast.Stmt, withMaps bool) []ast.Expr {
	var roots []ast.Node
	writes := map[ast.Expr]bool{}
	markWrite := func(e ast.Expr) {
		if ix, ok := unparen(e).(*ast.IndexExpr); ok {
			writes[ix] = true
		}
	}
	switch x := s.(type) {
	case *ast.ExprStmt:
		roots = append(roots, x.X)
	case *ast.AssignStmt:
		for _, l := range x.Lhs {
			markWrite(l)
			roots = append(roots, l)
		}
		for _, e := range x.Rhs {
			roots = append(roots, e)
		}
	case *ast.IncDecStmt:
		markWrite(x.X)
		roots = append(roots, x.X)
	case *ast.ReturnStmt:
		for _, e := range x.Results {
			roots = append(roots, e)
		}
	case *ast.DeclStmt:
		roots = append(roots, x.Decl)
	case *ast.IfStmt:
		if x.Init != nil {
			return r.accesses(x.Init, withMaps)
		}
		return nil // (the condition may short-circuit: not evaluated ahead of time)
	case *ast.RangeStmt:
		if withMaps {
			if t := r.typeOf(x.X); t != nil {
				if _, ok := t.Underlying().(*types.Map); ok && r.sharedMapExpr(x.X) {
					return []ast.Expr{r.accLit(x.X, false, "range over map "+r.exprText(x.X))}
				}
			}
		}
		return nil
	default:
		return nil
	}
	var out []ast.Expr
	seen := map[string]bool{}
	add := func(obj ast.Expr, write bool, what string, addr bool) {
		key := fmt.Sprint(write, what)
		if seen[key] {
			return
		}
		seen[key] = true
		o := obj
		if addr {
			o = &ast.UnaryExpr{Op: token.AND, X: obj}
		}
		out = append(out, r.accLit(o, write, what))
	}
	for _, root := range roots {
		ast.Inspect(root, func(n ast.Node) bool {
			switch e := n.(type) {
			case *ast.FuncLit:
				return false
			case *ast.BinaryExpr:
				if e.Op == token.LAND || e.Op == token.LOR {
					return false // may short-circuit: not evaluated ahead of time
				}
			case *ast.IndexExpr:
				if !withMaps {
					return true
				}
				if t := r.typeOf(e.X); t != nil {
					if _, ok := t.Underlying().(*types.Map); ok && r.sharedMapExpr(e.X) {
						w := writes[e]
						kind := "read of map "
						if w {
							kind = "write to map "
						}
						add(e.X, w, kind+r.exprText(e.X), false)
					}
				}
			case *ast.CallExpr:
				if withMaps && len(e.Args) == 2 && r.isBuiltin(e.Fun, "delete") && r.sharedMapExpr(e.Args[0]) {
					add(e.Args[0], true, "delete from map "+r.exprText(e.Args[0]), false)
				}
				sel, ok := e.Fun.(*ast.SelectorExpr)
				if !ok {
					return true
				}
				selection := r.info.Selections[sel]
				if selection == nil || selection.Kind() != types.MethodVal || !isPure(sel.X) {
					return true
				}
				recv := selection.Recv()
				ptr := false
				if p, ok := recv.(*types.Pointer); ok {
					recv, ptr = p.Elem(), true
				}
				named, ok := recv.(*types.Named)
				if !ok || named.Obj().Pkg() == nil || len(selection.Index()) != 1 {
					return true
				}
				full := named.Obj().Pkg().Path() + "." + named.Obj().Name()
				if !exclusiveTypes[full] {
					return true
				}
				// only objects other goroutines can reach the same way: struct fields and
				// package-level variables (a function's own local buffer is nobody else's)
				if !r.sharedMapExpr(sel.X) {
					return true
				}
				add(sel.X, true, full+"."+sel.Sel.Name+" on "+r.exprText(sel.X), !ptr)
			}
			return true
		})
	}
	return out
}

// sharedMapExpr: an object held in a struct field or a package-level variable (pure expression).
func (r *rw) sharedMapExpr(e ast.Expr) bool {
	e = unparen(e)
	if !isPure(e) {
		return false
	}
	switch x := e.(type) {
	case *ast.SelectorExpr:
		if _, _, isPkg := r.pkgSel(x); isPkg {
			return true
		}
		return r.info.Selections[x] != nil && r.info.Selections[x].Kind() == types.FieldVal
	case *ast.Ident:
		if v, ok := r.info.Uses[x].(*types.Var); ok && v.Parent() == v.Pkg().Scope() {
			return true
		}
	}
	return false
}

func (r *rw) exprText(e ast.Expr) string {
	var b bytes.Buffer
	printer.Fprint(&b, r.fset, e)
	return b.String()
}

// accLit builds vsched.Acc{Obj: func() interface{} { return <obj> }, Write: w, What: "..."}.
func (r *rw) accLit(obj ast.Expr, write bool, what string) ast.Expr {
	w := "false"
	if write {
		w = "true"
	}
	fn := &ast.FuncLit{
		Type: &ast.FuncType{Params: &ast.FieldList{}, Results: &ast.FieldList{List: []*ast.Field{{Type: &ast.InterfaceType{Methods: &ast.FieldList{}}}}}},
		Body: &ast.BlockStmt{List: []ast.Stmt{&ast.ReturnStmt{Results: []ast.Expr{obj}}}},
	}
	return &ast.CompositeLit{Type: r.vs("Acc"), Elts: []ast.Expr{
		&ast.KeyValueExpr{Key: ast.NewIdent("Obj"), Value: fn},
		&ast.KeyValueExpr{Key: ast.NewIdent("Write"), Value: ast.NewIdent(w)},
		&ast.KeyValueExpr{Key: ast.NewIdent("What"), Value: &ast.BasicLit{Kind: token.STRING, Value: strconv.Quote(what)}},
	}}
}

func (r *rw) isConstOrNil(e ast.Expr) bool {
	if tv, ok := r.info.Types[e]; ok {
		if tv.Value != nil || tv.IsNil() {
			return true
		}
	}
	return false
}

// rewriteStmt returns the replacement statements for s (usually one).
func (r *rw) rewriteStmt(s ast.Stmt) []ast.Stmt {
	switch x := s.(type) {
	case *ast.LabeledStmt:
		inner := r.rewriteStmt(x.Stmt)
		// the label must stay on the last (looping/switching) statement
		x.Stmt = inner[len(inner)-1]
		return append(inner[:len(inner)-1:len(inner)-1], x)
	case *ast.SelectStmt:
		return r.rewriteSelect(x)
	case *ast.SendStmt:
		r.walkExpr(&x.Chan)
		r.walkExpr(&x.Value)
		return []ast.Stmt{&ast.ExprStmt{X: call(r.vs("Send"), x.Chan, x.Value)}}
	case *ast.GoStmt:
		return r.rewriteGo(x)
	case *ast.AssignStmt:
		if len(x.Lhs) == 2 && len(x.Rhs) == 1 {
			if u, ok := unparen(x.Rhs[0]).(*ast.UnaryExpr); ok && u.Op == token.ARROW {
				r.walkExpr(&u.X)
				for i := range x.Lhs {
					r.walkExpr(&x.Lhs[i])
				}
				x.Rhs[0] = call(r.vs("Recv2"), u.X)
				return []ast.Stmt{x}
			}
		}
	case *ast.DeclStmt:
		if gd, ok := x.Decl.(*ast.GenDecl); ok && gd.Tok == token.VAR {
			for _, sp := range gd.Specs {
				vsp := sp.(*ast.ValueSpec)
				if len(vsp.Names) == 2 && len(vsp.Values) == 1 {
					if u, ok := unparen(vsp.Values[0]).(*ast.UnaryExpr); ok && u.Op == token.ARROW {
						r.walkExpr(&u.X)
						vsp.Values[0] = call(r.vs("Recv2"), u.X)
						return []ast.Stmt{x}
					}
				}
			}
		}
	case *ast.RangeStmt:
		if out := r.rewriteRange(x); out != nil {
			return out
		}
	}
	r.walk(reflect.ValueOf(s))
	return []ast.Stmt{s}
}

func unparen(e ast.Expr) ast.Expr {
	for {
		p, ok := e.(*ast.ParenExpr)
		if !ok {
			return e
		}
		e = p.X
	}
}

func (r *rw) rewriteGo(x *ast.GoStmt) []ast.Stmt {
	fun := unparen(x.Call.Fun)
	if id, ok := fun.(*ast.Ident); ok {
		if _, isB := r.info.Uses[id].(*types.Builtin); isB {
			r.walk(reflect.ValueOf(x.Call))
			return []ast.Stmt{x}
		}
	}
	// record constness before children are rewritten
	consts := make([]bool, len(x.Call.Args))
	for i, a := range x.Call.Args {
		consts[i] = r.isConstOrNil(a)
	}
	_, isLit := fun.(*ast.FuncLit)
	r.walkExpr(&x.Call.Fun)
	for i := range x.Call.Args {
		r.walkExpr(&x.Call.Args[i])
	}
	var lhs, rhs []ast.Expr
	var fn ast.Expr = x.Call.Fun
	if !isLit || len(x.Call.Args) > 0 {
		f := r.tmpName("f")
		lhs = append(lhs, f)
		rhs = append(rhs, x.Call.Fun)
		fn = f
	}
	var args []ast.Expr
	for i, a := range x.Call.Args {
		if consts[i] {
			args = append(args, a)
			continue
		}
		t := r.tmpName("a")
		lhs = append(lhs, t)
		rhs = append(rhs, a)
		args = append(args, t)
	}
	var spawn ast.Expr
	if isLit && len(x.Call.Args) == 0 {
		spawn = x.Call.Fun
	} else {
		inner := &ast.CallExpr{Fun: fn, Args: args, Ellipsis: x.Call.Ellipsis}
		if x.Call.Ellipsis != token.NoPos {
			inner.Ellipsis = 1
		}
		spawn = &ast.FuncLit{Type: &ast.FuncType{Params: &ast.FieldList{}}, Body: &ast.BlockStmt{List: []ast.Stmt{&ast.ExprStmt{X: inner}}}}
	}
	goCall := &ast.ExprStmt{X: call(r.vs("Go"), spawn)}
	if len(lhs) == 0 {
		return []ast.Stmt{goCall}
	}
	return []ast.Stmt{&ast.BlockStmt{List: []ast.Stmt{
		&ast.AssignStmt{Lhs: lhs, Tok: token.DEFINE, Rhs: rhs},
		goCall,
	}}}
}

func (r *rw) rewriteRange(x *ast.RangeStmt) []ast.Stmt {
	t := r.typeOf(x.X)
	if t == nil {
		return nil
	}
	if x.Tok == token.ASSIGN {
		return nil
	}
	switch u := t.Underlying().(type) {
	case *types.Map:
		b, ok := u.Key().Underlying().(*types.Basic)
		if !ok || b.Kind() != types.String || !isPure(x.X) {
			return nil
		}
		r.walkExpr(&x.X)
		r.walk(reflect.ValueOf(x.Body))
		k := r.tmpName("k")
		okv := r.tmpName("ok")
		vtmp := r.tmpName("v")
		var pre []ast.Stmt
		pre = append(pre, &ast.AssignStmt{Lhs: []ast.Expr{vtmp, okv}, Tok: token.DEFINE, Rhs: []ast.Expr{&ast.IndexExpr{X: x.X, Index: k}}})
		pre = append(pre, &ast.IfStmt{Cond: &ast.UnaryExpr{Op: token.NOT, X: okv}, Body: &ast.BlockStmt{List: []ast.Stmt{&ast.BranchStmt{Tok: token.CONTINUE}}}})
		if id, ok := x.Key.(*ast.Ident); ok && id.Name != "_" {
			pre = append(pre, &ast.AssignStmt{Lhs: []ast.Expr{ast.NewIdent(id.Name)}, Tok: token.DEFINE, Rhs: []ast.Expr{k}})
			pre = append(pre, &ast.AssignStmt{Lhs: []ast.Expr{ast.NewIdent("_")}, Tok: token.ASSIGN, Rhs: []ast.Expr{ast.NewIdent(id.Name)}})
		}
		if id, ok := x.Value.(*ast.Ident); ok && id.Name != "_" {
			pre = append(pre, &ast.AssignStmt{Lhs: []ast.Expr{ast.NewIdent(id.Name)}, Tok: token.DEFINE, Rhs: []ast.Expr{vtmp}})
			pre = append(pre, &ast.AssignStmt{Lhs: []ast.Expr{ast.NewIdent("_")}, Tok: token.ASSIGN, Rhs: []ast.Expr{ast.NewIdent(id.Name)}})
		} else {
			pre = append(pre, &ast.AssignStmt{Lhs: []ast.Expr{ast.NewIdent("_")}, Tok: token.ASSIGN, Rhs: []ast.Expr{vtmp}})
		}
		body := &ast.BlockStmt{List: append(pre, x.Body.List...)}
		return []ast.Stmt{&ast.RangeStmt{Key: ast.NewIdent("_"), Value: k, Tok: token.DEFINE, X: call(r.vs("SortedKeys"), x.X), Body: body}}
	case *types.Chan:
		if !isPure(x.X) {
			return nil
		}
		r.walkExpr(&x.X)
		r.walk(reflect.ValueOf(x.Body))
		okv := r.tmpName("ok")
		var v ast.Expr = ast.NewIdent("_")
		var use []ast.Stmt
		if id, ok := x.Key.(*ast.Ident); ok && id.Name != "_" {
			v = ast.NewIdent(id.Name)
			use = append(use, &ast.AssignStmt{Lhs: []ast.Expr{ast.NewIdent("_")}, Tok: token.ASSIGN, Rhs: []ast.Expr{ast.NewIdent(id.Name)}})
		}
		pre := []ast.Stmt{
			&ast.AssignStmt{Lhs: []ast.Expr{v, okv}, Tok: token.DEFINE, Rhs: []ast.Expr{call(r.vs("Recv2"), x.X)}},
			&ast.IfStmt{Cond: &ast.UnaryExpr{Op: token.NOT, X: okv}, Body: &ast.BlockStmt{List: []ast.Stmt{&ast.BranchStmt{Tok: token.BREAK}}}},
		}
		pre = append(pre, use...)
		return []ast.Stmt{&ast.ForStmt{Body: &ast.BlockStmt{List: append(pre, x.Body.List...)}}}
	}
	return nil
}

func (r *rw) rewriteSelect(x *ast.SelectStmt) []ast.Stmt {
	var pre []ast.Stmt
	var caseVars []ast.Expr
	sw := &ast.SwitchStmt{Body: &ast.BlockStmt{}}
	hasDefault := false
	idx := 0
	for _, c := range x.Body.List {
		cc := c.(*ast.CommClause)
		r.walkStmtList(reflect.ValueOf(&cc.Body).Elem())
		if cc.Comm == nil {
			hasDefault = true
			sw.Body.List = append(sw.Body.List, &ast.CaseClause{Body: cc.Body})
			continue
		}
		cv := r.tmpName("c")
		var body []ast.Stmt
		switch comm := cc.Comm.(type) {
		case *ast.SendStmt:
			r.walkExpr(&comm.Chan)
			r.walkExpr(&comm.Value)
			pre = append(pre, &ast.AssignStmt{Lhs: []ast.Expr{cv}, Tok: token.DEFINE, Rhs: []ast.Expr{call(r.vs("NewSend"), comm.Chan, comm.Value)}})
		case *ast.ExprStmt: // <-ch
			u := unparen(comm.X).(*ast.UnaryExpr)
			r.walkExpr(&u.X)
			pre = append(pre, &ast.AssignStmt{Lhs: []ast.Expr{cv}, Tok: token.DEFINE, Rhs: []ast.Expr{call(r.vs("NewRecv"), u.X)}})
		case *ast.AssignStmt: // v := <-ch ; v, ok := <-ch ; v = <-ch
			u := unparen(comm.Rhs[0]).(*ast.UnaryExpr)
			r.walkExpr(&u.X)
			for i := range comm.Lhs {
				r.walkExpr(&comm.Lhs[i])
			}
			pre = append(pre, &ast.AssignStmt{Lhs: []ast.Expr{cv}, Tok: token.DEFINE, Rhs: []ast.Expr{call(r.vs("NewRecv"), u.X)}})
			rhs := []ast.Expr{&ast.SelectorExpr{X: cv, Sel: ast.NewIdent("Val")}}
			if len(comm.Lhs) == 2 {
				rhs = append(rhs, &ast.SelectorExpr{X: cv, Sel: ast.NewIdent("OK")})
			}
			body = append(body, &ast.AssignStmt{Lhs: comm.Lhs, Tok: comm.Tok, Rhs: rhs})
			if comm.Tok == token.DEFINE {
				for _, l := range comm.Lhs {
					if id, ok := l.(*ast.Ident); ok && id.Name != "_" {
						body = append(body, &ast.AssignStmt{Lhs: []ast.Expr{ast.NewIdent("_")}, Tok: token.ASSIGN, Rhs: []ast.Expr{ast.NewIdent(id.Name)}})
					}
				}
			}
		}
		caseVars = append(caseVars, cv)
		sw.Body.List = append(sw.Body.List, &ast.CaseClause{
			List: []ast.Expr{&ast.BasicLit{Kind: token.INT, Value: strconv.Itoa(idx)}},
			Body: append(body, cc.Body...),
		})
		idx++
	}
	fn := "Select"
	if hasDefault {
		fn = "SelectDefault"
	} else {
		sw.Body.List = append(sw.Body.List, &ast.CaseClause{Body: []ast.Stmt{&ast.ExprStmt{X: call(ast.NewIdent("panic"), &ast.BasicLit{Kind: token.STRING, Value: strconv.Quote("vsched: bad select index")})}}})
	}
	sw.Tag = call(r.vs(fn), caseVars...)
	return append(pre, sw)
}

func (r *rw) rewriteFile() {
	f := r.file
	for _, d := range f.Decls {
		if fd, ok := d.(*ast.FuncDecl); ok {
			if fd.Body == nil {
				continue
			}
			saved := r.stmt
			if fd.Name.Name == "init" && fd.Recv == nil {
				r.stmt = false
			}
			r.walk(reflect.ValueOf(fd.Type))
			r.walkStmtList(reflect.ValueOf(&fd.Body.List).Elem())
			r.stmt = saved
		} else {
			saved := r.stmt
			r.stmt = false
			r.walk(reflect.ValueOf(d))
			r.stmt = saved
		}
	}
	r.fixImports()
	f.Comments = nil
	f.Doc = nil
	for _, d := range f.Decls {
		switch x := d.(type) {
		case *ast.FuncDecl:
			x.Doc = nil
		case *ast.GenDecl:
			x.Doc = nil
		}
	}
}

func (r *rw) fixImports() {
	f := r.file
	usedPkgs := map[string]bool{}
	ast.Inspect(f, func(n ast.Node) bool {
		if s, ok := n.(*ast.SelectorExpr); ok {
			if id, ok := s.X.(*ast.Ident); ok {
				usedPkgs[id.Name] = true
			}
		}
		return true
	})
	added := !r.used
	for _, d := range f.Decls {
		gd, ok := d.(*ast.GenDecl)
		if !ok || gd.Tok != token.IMPORT {
			continue
		}
		var specs []ast.Spec
		for _, s := range gd.Specs {
			is := s.(*ast.ImportSpec)
			p, _ := strconv.Unquote(is.Path.Value)
			if _, ours := shimmed[p]; ours {
				local := filepath.Base(p)
				if is.Name != nil {
					local = is.Name.Name
				}
				if local != "_" && local != "." && !usedPkgs[local] {
					continue
				}
			}
			is.Doc, is.Comment = nil, nil
			specs = append(specs, s)
		}
		if !added {
			specs = append(specs, &ast.ImportSpec{Path: &ast.BasicLit{Kind: token.STRING, Value: strconv.Quote(*vpathFlag)}})
			added = true
		}
		gd.Specs = specs
		if gd.Lparen == token.NoPos {
			gd.Lparen = gd.Pos()
			gd.Rparen = gd.End()
		}
	}
	if !added {
		// file without import declaration
		gd := &ast.GenDecl{Tok: token.IMPORT, Specs: []ast.Spec{&ast.ImportSpec{Path: &ast.BasicLit{Kind: token.STRING, Value: strconv.Quote(*vpathFlag)}}}}
		f.Decls = append([]ast.Decl{gd}, f.Decls...)
	}
	f.Imports = nil
}
