//go:build go1.21

package main

import (
	"fmt"
	"sort"
	"time"

	"example.com/corpus"
	"example.com/corpus/internal/verif/vsched"
)

func main() {
	var names []string
	for n := range corpus.Funcs {
		names = append(names, n)
	}
	sort.Strings(names)
	for _, n := range names {
		fmt.Printf("pass %s = %s\n", n, corpus.Funcs[n]())
	}
	for _, n := range names {
		var res string
		s := vsched.Run(vsched.Options{Drain: true, MaxTime: time.Hour, YieldFiles: []string{"*"}}, func() { res = corpus.Funcs[n]() })
		switch {
		case s.Panic != nil:
			res = fmt.Sprintf("PANIC %v", s.Panic)
		case s.Deadlock:
			res = fmt.Sprintf("DEADLOCK %v (partial %q)", s.Blocked, res)
		case s.Diverged != "":
			res = "DIVERGED " + s.Diverged
		}
		fmt.Printf("ctl %s = %s\n", n, res)
	}
	// a second schedule: every decision takes the last alternative (exercises other interleavings)
	for _, n := range names {
		var res string
		st := vsched.Explore(vsched.ExploreOpt{Bound: 1, MaxExecs: 40, Run: vsched.Options{Drain: true, MaxTime: time.Hour, YieldFiles: []string{"*"}}},
			func() { res = corpus.Funcs[n]() },
			func(s *vsched.Sched) bool {
				if s.Panic != nil || s.Deadlock || s.Diverged != "" {
					res = fmt.Sprintf("BAD panic=%v deadlock=%v diverged=%q", s.Panic, s.Deadlock, s.Diverged)
					return false
				}
				return true
			})
		fmt.Printf("explore %s = %s (%d schedules)\n", n, res, st.Execs)
	}
}
