package main

import (
	"fmt"
	"sort"

	"example.com/corpus"
)

func main() {
	var names []string
	for n := range corpus.Funcs {
		names = append(names, n)
	}
	sort.Strings(names)
	for _, n := range names {
		fmt.Printf("%s = %s\n", n, corpus.Funcs[n]())
	}
}
