// Package sub: constructs in a second package (cross-package types with embedded mutexes).
package sub

import (
	"sync"
	"time"
)

// Counter embeds a mutex and is used from package corpus.
type Counter struct {
	sync.Mutex
	N     int
	Since time.Time
}

func (c *Counter) Inc() int {
	c.Lock()
	defer c.Unlock()
	c.N++
	return c.N
}

// Guarded has a named RWMutex field and a Locker view.
type Guarded struct {
	mu sync.RWMutex
	m  map[string]int
}

func NewGuarded() *Guarded { return &Guarded{m: map[string]int{}} }

func (g *Guarded) Set(k string, v int) {
	g.mu.Lock()
	g.m[k] = v
	g.mu.Unlock()
}

func (g *Guarded) Sum() int {
	g.mu.RLock()
	defer g.mu.RUnlock()
	s := 0
	for _, v := range g.m {
		s += v
	}
	return s
}

func (g *Guarded) Reader() sync.Locker { return g.mu.RLocker() }
