module example.com/corpus

go 1.23
