// Package corpus is the rewriter's self-test: every function returns a deterministic string; the
// original and the instrumented build (pass-through and under the controlled scheduler) must agree.
package corpus

import (
	"bytes"
	"context"
	"fmt"
	"math/rand"
	"sort"
	"strings"
	"sync"
	"time"

	"example.com/corpus/sub"
)

var pkgMu sync.Mutex
var pkgOnce sync.Once
var pkgCount int

type queue struct {
	mu    sync.Mutex
	cond  *sync.Cond
	items []int
	timer *time.Timer
	tick  *time.Ticker
	done  chan struct{}
}

func newQueue() *queue {
	q := &queue{done: make(chan struct{})}
	q.cond = sync.NewCond(&q.mu)
	return q
}

// Funcs lists the corpus.
var Funcs = map[string]func() string{
	"switch-empty-cases":    switchEmptyCases,
	"type-switch":           typeSwitch,
	"select-forms":          selectForms,
	"select-send-recv":      selectSendRecv,
	"labeled-loops":         labeledLoops,
	"range-chan":            rangeChan,
	"range-map":             rangeMap,
	"go-forms":              goForms,
	"defer-chan":            deferChan,
	"if-recv-init":          ifRecvInit,
	"embedded-mutex":        embeddedMutex,
	"once-and-waitgroup":    onceAndWaitGroup,
	"cond-queue":            condQueue,
	"timer-ticker":          timerTicker,
	"afterfunc":             afterFunc,
	"context-forms":         contextForms,
	"nil-and-closed-chan":   nilAndClosedChan,
	"chan-of-chan":          chanOfChan,
	"select-in-loop-break":  selectInLoopBreak,
	"goto-and-fallthrough":  gotoAndFallthrough,
	"method-values":         methodValues,
	"shuffle":               shuffle,
	"recv-in-expressions":   recvInExpressions,
	"switch-init-and-scope": switchInitAndScope,
	"locker-interface":      lockerInterface,
	"time-arith":            timeArith,
	"len-cap-of-chan":       lenCapOfChan,
	"mutex-values":          mutexValues,
	"select-send-call":      selectSendCall,
	"generic-chan":          genericChan,
	"range-int-and-func":    rangeIntAndFunc,
	"trylock":               tryLock,
	"directional":           directional,
	"ticker-loop":           tickerLoop,
	"nested-select":         nestedSelect,
	"struct-with-timers":    structWithTimers,
	"sync-pool":             syncPool,
	"shared-objects":        sharedObjects,
}

func switchEmptyCases() string {
	out := ""
	for i := 0; i < 4; i++ {
		switch i {
		case 0:
		case 1:
			out += "one"
		case 2, 3:
			out += "many"
		default:
		}
	}
	switch {
	}
	switch x := len(out); {
	case x > 3:
		out += "!"
	}
	return out
}

func typeSwitch() string {
	var vals = []interface{}{1, "s", nil, 2.5, []int{1}, make(chan int)}
	var out []string
	for _, v := range vals {
		switch x := v.(type) {
		case nil:
			out = append(out, "nil")
		case int, float64:
			out = append(out, fmt.Sprint(x))
		case string:
			out = append(out, x+x)
		case chan int:
			close(x)
			_, ok := <-x
			out = append(out, fmt.Sprint("chan", ok))
		default:
			out = append(out, "other")
		}
	}
	return strings.Join(out, ",")
}

func selectForms() string {
	a := make(chan int, 1)
	b := make(chan string, 1)
	var out []string
	select {
	case v := <-a:
		out = append(out, fmt.Sprint(v))
	default:
		out = append(out, "empty")
	}
	a <- 7
	select {
	case v, ok := <-a:
		out = append(out, fmt.Sprint(v, ok))
	case s := <-b:
		out = append(out, s)
	}
	b <- "x"
	var v string
	var ok bool
	select {
	case v, ok = <-b:
		out = append(out, v, fmt.Sprint(ok))
	case <-a:
	}
	select {
	case <-time.After(time.Millisecond):
		out = append(out, "timeout")
	case <-a:
		out = append(out, "a")
	}
	return strings.Join(out, ",")
}

func selectSendRecv() string {
	in := make(chan int, 2)
	outc := make(chan int, 2)
	sent, got := 0, 0
	for i := 0; i < 4; i++ {
		select {
		case outc <- i:
			sent++
		case v := <-in:
			got += v
		}
		if i == 1 {
			in <- 10
			<-outc
		}
	}
	return fmt.Sprint(sent, got, len(outc))
}

func labeledLoops() string {
	ch := make(chan int, 5)
	for i := 0; i < 5; i++ {
		ch <- i
	}
	close(ch)
	n := 0
outer:
	for {
		select {
		case v, ok := <-ch:
			if !ok {
				break outer
			}
			if v%2 == 0 {
				continue outer
			}
			n += v
		}
	}
inner:
	for i := 0; i < 3; i++ {
		for j := 0; j < 3; j++ {
			if j == 2 {
				continue inner
			}
			if i == 2 {
				break inner
			}
			n += 10
		}
	}
	return fmt.Sprint(n)
}

func rangeChan() string {
	ch := make(chan string, 3)
	go func() {
		defer close(ch)
		for _, s := range []string{"a", "b", "c"} {
			ch <- s
		}
	}()
	out := ""
	for s := range ch {
		out += s
	}
	for range ch {
		out += "?"
	}
	return out
}

func rangeMap() string {
	m := map[string]int{"b": 2, "a": 1, "c": 3}
	type id string
	m2 := map[id][]int{"y": {2}, "x": {1}}
	sum := 0
	var keys []string
	for k, v := range m {
		keys = append(keys, k)
		sum += v
	}
	for k := range m2 {
		keys = append(keys, string(k))
	}
	for _, v := range m2 {
		sum += v[0]
	}
	sort.Strings(keys)
	return fmt.Sprint(keys, sum)
}

type worker struct {
	wg  *sync.WaitGroup
	mu  sync.Mutex
	out []string
}

func (w *worker) run(tag string, n int) {
	defer w.wg.Done()
	w.mu.Lock()
	w.out = append(w.out, fmt.Sprint(tag, n))
	w.mu.Unlock()
}

func goForms() string {
	var wg sync.WaitGroup
	w := &worker{wg: &wg}
	wg.Add(4)
	go w.run("method", 1)
	go func(x int) { w.run("lit", x) }(2)
	f := w.run
	go f("value", 3)
	go func() {
		defer wg.Done()
		w.mu.Lock()
		defer w.mu.Unlock()
		w.out = append(w.out, "plain")
	}()
	wg.Wait()
	sort.Strings(w.out)
	return strings.Join(w.out, ",")
}

func deferChan() (res string) {
	done := make(chan string, 1)
	func() {
		defer close(done)
		defer func() { done <- "deferred" }()
	}()
	v, ok := <-done
	_, ok2 := <-done
	return fmt.Sprint(v, ok, ok2)
}

func ifRecvInit() string {
	ch := make(chan int, 1)
	ch <- 3
	out := ""
	if v, ok := <-ch; ok && v == 3 {
		out += "three"
	}
	close(ch)
	if _, ok := <-ch; !ok {
		out += "-closed"
	}
	for v, ok := 0, true; ok; v, ok = <-ch {
		out += fmt.Sprint(v)
	}
	return out
}

func embeddedMutex() string {
	c := &sub.Counter{Since: time.Now()}
	var wg sync.WaitGroup
	for i := 0; i < 3; i++ {
		wg.Add(1)
		go func() {
			defer wg.Done()
			c.Inc()
		}()
	}
	wg.Wait()
	c.Lock()
	n := c.N
	c.Unlock()
	g := sub.NewGuarded()
	g.Set("a", 1)
	g.Set("b", 2)
	l := g.Reader()
	l.Lock()
	l.Unlock()
	return fmt.Sprint(n, g.Sum(), !c.Since.IsZero())
}

func onceAndWaitGroup() string {
	var once sync.Once
	n := 0
	var wg sync.WaitGroup
	for i := 0; i < 3; i++ {
		wg.Add(1)
		go func() {
			defer wg.Done()
			once.Do(func() { n++ })
			pkgOnce.Do(func() { pkgCount++ })
		}()
	}
	wg.Wait()
	pkgMu.Lock()
	defer pkgMu.Unlock()
	return fmt.Sprint(n, pkgCount)
}

func condQueue() string {
	q := newQueue()
	var got []int
	var wg sync.WaitGroup
	wg.Add(1)
	go func() {
		defer wg.Done()
		for len(got) < 3 {
			q.mu.Lock()
			for len(q.items) == 0 {
				q.cond.Wait()
			}
			got = append(got, q.items[0])
			q.items = q.items[1:]
			q.mu.Unlock()
		}
	}()
	for i := 1; i <= 3; i++ {
		q.mu.Lock()
		q.items = append(q.items, i)
		q.mu.Unlock()
		q.cond.Broadcast()
	}
	wg.Wait()
	return fmt.Sprint(got)
}

func timerTicker() string {
	q := newQueue()
	q.timer = time.NewTimer(3 * time.Millisecond)
	q.tick = time.NewTicker(time.Millisecond)
	defer q.tick.Stop()
	ticks := 0
	for {
		select {
		case <-q.tick.C:
			ticks++
		case <-q.timer.C:
			stopped := q.timer.Stop()
			q.timer.Reset(time.Millisecond)
			<-q.timer.C
			return fmt.Sprint(ticks >= 1, stopped)
		}
	}
}

func afterFunc() string {
	done := make(chan string, 2)
	t1 := time.AfterFunc(time.Millisecond, func() { done <- "fired" })
	t2 := time.AfterFunc(time.Hour, func() { done <- "never" })
	stopped := t2.Stop()
	v := <-done
	_ = t1
	return fmt.Sprint(v, stopped)
}

func contextForms() string {
	ctx, cancel := context.WithCancel(context.Background())
	ctx2, cancel2 := context.WithTimeout(ctx, time.Millisecond)
	defer cancel2()
	ctx3, cancel3 := context.WithDeadline(context.WithValue(ctx, "k", "v"), time.Now().Add(time.Hour))
	defer cancel3()
	<-ctx2.Done()
	e2 := ctx2.Err()
	cancel()
	<-ctx3.Done()
	_, hasDL := ctx3.Deadline()
	return fmt.Sprint(e2, ctx3.Err(), ctx3.Value("k"), hasDL)
}

func nilAndClosedChan() string {
	var nilc chan int
	closed := make(chan int)
	close(closed)
	out := ""
	select {
	case <-nilc:
		out += "nil"
	case v, ok := <-closed:
		out += fmt.Sprint(v, ok)
	}
	select {
	case nilc <- 1:
		out += "sent"
	default:
		out += "-default"
	}
	func() {
		defer func() { out += fmt.Sprint("-", recover() != nil) }()
		closed <- 1
	}()
	return out
}

func chanOfChan() string {
	reqs := make(chan chan string)
	go func() {
		for r := range reqs {
			r <- "reply"
		}
	}()
	r := make(chan string)
	reqs <- r
	v := <-r
	close(reqs)
	return v
}

func selectInLoopBreak() string {
	stop := make(chan struct{})
	data := make(chan int)
	go func() {
		for i := 0; i < 3; i++ {
			data <- i
		}
		close(stop)
	}()
	sum := 0
	for {
		select {
		case v := <-data:
			sum += v
			continue
		case <-stop:
		}
		break
	}
	return fmt.Sprint(sum)
}

func gotoAndFallthrough() string {
	i, out := 0, ""
loop:
	if i < 3 {
		switch i {
		case 0:
			out += "z"
			fallthrough
		case 1:
			out += "o"
		default:
			out += "d"
		}
		i++
		goto loop
	}
	return out
}

func methodValues() string {
	var mu sync.Mutex
	lock, unlock := mu.Lock, mu.Unlock
	lock()
	n := 1
	unlock()
	var wg sync.WaitGroup
	add, done, wait := wg.Add, wg.Done, wg.Wait
	add(1)
	go done()
	wait()
	now := time.Now
	return fmt.Sprint(n, !now().IsZero())
}

func shuffle() string {
	s := []int{1, 2, 3, 4, 5}
	rand.Shuffle(len(s), func(i, j int) { s[i], s[j] = s[j], s[i] })
	sum := 0
	for _, v := range s {
		sum += v
	}
	return fmt.Sprint(len(s), sum)
}

func recvInExpressions() string {
	ch := make(chan int, 4)
	ch <- 1
	ch <- 2
	ch <- 3
	ch <- 4
	a := <-ch + <-ch
	b := []int{<-ch}
	f := func(x int) int { return x * 2 }
	c := f(<-ch)
	return fmt.Sprint(a, b, c)
}

func switchInitAndScope() string {
	ch := make(chan int, 1)
	ch <- 5
	switch v := <-ch; {
	case v > 3:
		if w := v * 2; w > 9 {
			return fmt.Sprint("big", w)
		}
	}
	return "small"
}

func lockerInterface() string {
	var l sync.Locker = &sync.Mutex{}
	l.Lock()
	l.Unlock()
	rw := &sync.RWMutex{}
	l = rw.RLocker()
	l.Lock()
	l.Unlock()
	rw.Lock()
	rw.Unlock()
	return "ok"
}

func timeArith() string {
	t0 := time.Now()
	time.Sleep(time.Millisecond)
	d := time.Since(t0)
	u := time.Until(t0.Add(time.Hour))
	return fmt.Sprint(d >= time.Millisecond, u > 0, time.Now().After(t0))
}

func lenCapOfChan() string {
	ch := make(chan int, 3)
	ch <- 1
	ch <- 2
	a := fmt.Sprint(len(ch), cap(ch))
	<-ch
	b := fmt.Sprint(len(ch), cap(ch))
	for len(ch) > 0 {
		<-ch
	}
	return a + "/" + b + "/" + fmt.Sprint(len(ch))
}

func mutexValues() string {
	locks := map[string]*sync.Mutex{"a": {}, "b": new(sync.Mutex)}
	arr := [2]sync.Mutex{}
	zero := sync.Mutex{}
	type pair struct {
		sync.RWMutex
		wg sync.WaitGroup
	}
	p := pair{}
	for _, k := range []string{"a", "b"} {
		locks[k].Lock()
		locks[k].Unlock()
	}
	arr[1].Lock()
	arr[1].Unlock()
	zero.Lock()
	zero.Unlock()
	p.RLock()
	p.RUnlock()
	p.wg.Add(1)
	go p.wg.Done()
	p.wg.Wait()
	return "ok"
}

func produce(n *int) int { *n++; return *n * 10 }

func selectSendCall() string {
	ch := make(chan int, 1)
	calls := 0
	select {
	case ch <- produce(&calls):
	default:
	}
	select {
	case ch <- produce(&calls): // buffer full: the value is still evaluated
	default:
	}
	return fmt.Sprint(<-ch, calls)
}

func merge[T any](cs ...<-chan T) []T {
	var out []T
	for _, c := range cs {
		for v := range c {
			out = append(out, v)
		}
	}
	return out
}

func genericChan() string {
	a, b := make(chan string, 2), make(chan string, 1)
	a <- "x"
	a <- "y"
	b <- "z"
	close(a)
	close(b)
	return strings.Join(merge[string](a, b), "")
}

func rangeIntAndFunc() string {
	n := 0
	for i := range 4 {
		n += i
	}
	seq := func(yield func(int) bool) {
		for i := 0; i < 3; i++ {
			if !yield(i * i) {
				return
			}
		}
	}
	for v := range seq {
		n += v
	}
	return fmt.Sprint(n)
}

func tryLock() string {
	var mu sync.Mutex
	a := mu.TryLock()
	b := mu.TryLock()
	mu.Unlock()
	var rw sync.RWMutex
	c := rw.TryRLock()
	d := rw.TryLock()
	rw.RUnlock()
	return fmt.Sprint(a, b, c, d)
}

func feed(out chan<- int, n int) {
	for i := 0; i < n; i++ {
		out <- i
	}
	close(out)
}

func drain(in <-chan int) int {
	s := 0
	for v := range in {
		s += v
	}
	return s
}

func directional() string {
	ch := make(chan int)
	go feed(ch, 4)
	return fmt.Sprint(drain(ch))
}

func tickerLoop() string {
	tick := time.Tick(time.Millisecond)
	deadline := time.After(5 * time.Millisecond)
	n := 0
	for {
		select {
		case <-tick:
			n++
		case <-deadline:
			return fmt.Sprint(n >= 2)
		}
	}
}

func nestedSelect() string {
	a, b := make(chan int, 1), make(chan int, 1)
	a <- 1
	out := ""
	select {
	case v := <-a:
		b <- v + 1
		select {
		case w := <-b:
			out = fmt.Sprint(v, w)
		default:
			out = "inner-default"
		}
	case <-b:
		out = "b"
	}
	return out
}

type svc struct {
	mu      sync.Mutex
	timers  map[string]*time.Timer
	results chan string
}

func structWithTimers() string {
	s := &svc{timers: map[string]*time.Timer{}, results: make(chan string, 4)}
	for _, k := range []string{"a", "b", "c"} {
		k := k
		s.mu.Lock()
		s.timers[k] = time.AfterFunc(time.Millisecond, func() { s.results <- k })
		s.mu.Unlock()
	}
	s.mu.Lock()
	stopped := s.timers["c"].Stop()
	s.mu.Unlock()
	var got []string
	for i := 0; i < 2; i++ {
		got = append(got, <-s.results)
	}
	sort.Strings(got)
	_ = stopped
	return strings.Join(got, "")
}

var bufPool = sync.Pool{New: func() interface{} { return new(strings.Builder) }}

func syncPool() string {
	local := &sync.Pool{}
	if local.Get() != nil {
		return "non-nil from empty pool"
	}
	b := bufPool.Get().(*strings.Builder)
	b.Reset()
	b.WriteString("x")
	out := b.String()
	bufPool.Put(b)
	local.Put(out)
	got, _ := local.Get().(string)
	return out + got
}

// objects that are not safe for concurrent use, used correctly (under a lock, or by one goroutine):
// the access tracking must neither change results nor raise an alarm, also when the holder is nil
type registry struct {
	mu    sync.Mutex
	byKey map[string]int
	rng   *rand.Rand
	buf   bytes.Buffer
	inner *registry
}

var table = map[string]int{"a": 1}

func (r *registry) put(k string, v int) {
	r.mu.Lock()
	defer r.mu.Unlock()
	r.byKey[k] = v
	r.byKey[k]++
	if old, ok := r.byKey["gone"]; ok && old > 0 {
		delete(r.byKey, "gone")
	}
	r.buf.WriteString(k)
}

func (r *registry) sum() int {
	r.mu.Lock()
	defer r.mu.Unlock()
	n := 0
	for _, v := range r.byKey {
		n += v
	}
	return n + r.rng.Intn(1) + table["a"]
}

func sharedObjects() string {
	r := &registry{byKey: map[string]int{"gone": 1}, rng: rand.New(rand.NewSource(1))}
	var wg sync.WaitGroup
	for i := 0; i < 3; i++ {
		wg.Add(1)
		go func(i int) {
			defer wg.Done()
			r.put(fmt.Sprint("k", i), i)
		}(i)
	}
	wg.Wait()
	var none *registry
	// the holder may be nil where the access is guarded: announcing it ahead must not crash
	if none != nil && none.byKey["x"] > 0 {
		return "unreachable"
	}
	if r.inner != nil {
		r.inner.byKey["x"] = 1
	}
	return fmt.Sprint(r.sum(), len(r.buf.String()))
}
