//go:build go1.21

package vsched

import (
	"fmt"
	"sort"
	"strings"
	"testing"
	"time"
)

// Self-tests of the explorer: it must find textbook bugs at the stated bound, not find them
// below it, enumerate a known number of schedules, replay deterministically, and model timers,
// tickers, AfterFunc and condition variables the way the runtime does.

func outcomes(t *testing.T, bound int, delay bool, body func(), obs func() string) (map[string]int, ExploreStats) {
	t.Helper()
	out := map[string]int{}
	st := Explore(ExploreOpt{Bound: bound, Run: Options{Delay: delay, Drain: true}}, body, func(s *Sched) bool {
		if s.Diverged != "" {
			t.Fatalf("diverged: %s", s.Diverged)
		}
		k := obs()
		if s.Deadlock {
			k += " DEADLOCK"
		}
		out[k]++
		return true
	})
	if !st.Complete {
		t.Fatalf("exploration stopped: %s", st.Stopped)
	}
	return out, st
}

func keys(m map[string]int) string {
	var k []string
	for s := range m {
		k = append(k, s)
	}
	sort.Strings(k)
	return strings.Join(k, ",")
}

// lost update: read; point; write. Needs exactly one preemption.
func TestLostUpdateNeedsOnePreemption(t *testing.T) {
	var x int
	var wg *WaitGroup
	body := func() {
		x = 0
		wg = &WaitGroup{}
		wg.Add(2)
		for i := 0; i < 2; i++ {
			GoNamed("inc", func() {
				defer wg.Done()
				v := x
				Yield("between")
				x = v + 1
			})
		}
		wg.Wait()
	}
	o0, _ := outcomes(t, 0, false, body, func() string { return fmt.Sprint(x) })
	if keys(o0) != "2" {
		t.Fatalf("bound 0 must see only the serial outcome, saw %v", o0)
	}
	o1, st := outcomes(t, 1, false, body, func() string { return fmt.Sprint(x) })
	if keys(o1) != "1,2" {
		t.Fatalf("bound 1 must see the lost update, saw %v", o1)
	}
	if st.Execs < 3 {
		t.Fatalf("suspiciously few executions: %+v", st)
	}
	d1, _ := outcomes(t, 1, true, body, func() string { return fmt.Sprint(x) })
	if keys(d1) != "1,2" {
		t.Fatalf("delay bound 1 must see the lost update, saw %v", d1)
	}
}

// with the mutex held across the read-modify-write, no bound finds a lost update
func TestMutexProtects(t *testing.T) {
	var x int
	body := func() {
		x = 0
		var mu Mutex
		var wg WaitGroup
		wg.Add(3)
		for i := 0; i < 3; i++ {
			GoNamed("inc", func() {
				defer wg.Done()
				mu.Lock()
				v := x
				Yield("between")
				x = v + 1
				mu.Unlock()
			})
		}
		wg.Wait()
	}
	o, st := outcomes(t, 3, false, body, func() string { return fmt.Sprint(x) })
	if keys(o) != "3" {
		t.Fatalf("saw %v", o)
	}
	if st.Execs < 20 {
		t.Fatalf("too few executions for 3 threads at bound 3: %+v", st)
	}
}

// lock-order inversion: deadlock is reported, and only with a preemption
func TestDeadlockDetected(t *testing.T) {
	body := func() {
		var a, b Mutex
		var wg WaitGroup
		wg.Add(2)
		GoNamed("ab", func() { defer wg.Done(); a.Lock(); b.Lock(); b.Unlock(); a.Unlock() })
		GoNamed("ba", func() { defer wg.Done(); b.Lock(); a.Lock(); a.Unlock(); b.Unlock() })
		wg.Wait()
	}
	o0, _ := outcomes(t, 0, false, body, func() string { return "" })
	if keys(o0) != "" {
		t.Fatalf("bound 0: %v", o0)
	}
	o1, _ := outcomes(t, 1, false, body, func() string { return "" })
	if _, ok := o1[" DEADLOCK"]; !ok {
		t.Fatalf("bound 1 must reach the deadlock: %v", o1)
	}
}

// unbounded exploration of two threads with n points each enumerates C(2n, n)-like many distinct
// orders: check the exact count of distinct observation orders for n = 2 (6 interleavings).
func TestEnumeratesAllInterleavings(t *testing.T) {
	var log []string
	body := func() {
		log = nil
		var wg WaitGroup
		wg.Add(2)
		for _, n := range []string{"a", "b"} {
			n := n
			GoNamed(n, func() {
				defer wg.Done()
				Yield("p1")
				log = append(log, n+"1")
				Yield("p2")
				log = append(log, n+"2")
			})
		}
		wg.Wait()
	}
	o, _ := outcomes(t, 100, false, body, func() string { return strings.Join(log, "") })
	if len(o) != 6 {
		t.Fatalf("want the 6 interleavings of a1a2 / b1b2, got %d: %v", len(o), keys(o))
	}
}

// the same prefix replays to the same trace, twice
func TestReplayDeterministic(t *testing.T) {
	var log []string
	body := func() {
		log = nil
		ch := make(chan int)
		var wg WaitGroup
		wg.Add(2)
		GoNamed("s", func() { defer wg.Done(); Send(ch, 1); log = append(log, "sent") })
		GoNamed("r", func() { defer wg.Done(); v := Recv(ch); log = append(log, fmt.Sprint("got", v)) })
		wg.Wait()
	}
	var traces [][]int
	Explore(ExploreOpt{Bound: 2}, body, func(s *Sched) bool {
		traces = append(traces, Choices(s.Trace))
		return true
	})
	if len(traces) < 2 {
		t.Fatalf("only %d executions", len(traces))
	}
	for _, tr := range traces {
		a := Run(Options{Prefix: tr}, body)
		la := strings.Join(log, ",")
		b := Run(Options{Prefix: tr}, body)
		lb := strings.Join(log, ",")
		if la != lb || fmt.Sprint(Choices(a.Trace)) != fmt.Sprint(Choices(b.Trace)) || a.Diverged != "" || b.Diverged != "" {
			t.Fatalf("replay of %v not deterministic: %q vs %q", tr, la, lb)
		}
	}
}

func TestTimerTickerAfterFunc(t *testing.T) {
	var log []string
	body := func() {
		log = nil
		tm := NewTimer(5 * time.Second)
		tk := NewTicker(2 * time.Second)
		af := AfterFunc(3*time.Second, func() { log = append(log, fmt.Sprint("af@", Elapsed())) })
		_ = af
		for i := 0; i < 2; i++ {
			Recv(tk.C)
			log = append(log, fmt.Sprint("tick@", Elapsed()))
		}
		tk.Stop()
		Recv(tm.C)
		log = append(log, fmt.Sprint("timer@", Elapsed()))
		if tm.Stop() {
			log = append(log, "stop-after-fire-true")
		}
		tm.Reset(time.Second)
		Recv(tm.C)
		log = append(log, fmt.Sprint("reset@", Elapsed()))
		stopped := AfterFunc(time.Second, func() { log = append(log, "must-not-run") })
		if !stopped.Stop() {
			log = append(log, "stop-false")
		}
		Sleep(10 * time.Second)
		log = append(log, fmt.Sprint("end@", Elapsed()))
	}
	s := Run(Options{Drain: true}, body)
	got := strings.Join(log, " ")
	want := "tick@2s af@3s tick@4s timer@5s reset@6s end@16s"
	if got != want || s.Deadlock || s.Diverged != "" {
		t.Fatalf("got  %q\nwant %q (deadlock=%v)", got, want, s.Deadlock)
	}
}

func TestCond(t *testing.T) {
	var got []int
	body := func() {
		got = nil
		var mu Mutex
		c := NewCond(&mu)
		queue := []int{}
		var wg WaitGroup
		wg.Add(2)
		GoNamed("consumer", func() {
			defer wg.Done()
			for n := 0; n < 2; n++ {
				mu.Lock()
				for len(queue) == 0 {
					c.Wait()
				}
				got = append(got, queue[0])
				queue = queue[1:]
				mu.Unlock()
			}
		})
		GoNamed("producer", func() {
			defer wg.Done()
			for i := 1; i <= 2; i++ {
				mu.Lock()
				queue = append(queue, i)
				mu.Unlock()
				c.Signal()
			}
		})
		wg.Wait()
	}
	o, st := outcomes(t, 3, false, body, func() string { return fmt.Sprint(got) })
	if keys(o) != "[1 2]" {
		t.Fatalf("cond outcomes %v", o)
	}
	if st.Execs < 5 {
		t.Fatalf("too few executions %+v", st)
	}
	// a missed wake-up (signal without holding the lock around the predicate change, waiter
	// checks the predicate once) must be found as a deadlock
	body2 := func() {
		var mu Mutex
		c := NewCond(&mu)
		ready := false
		var wg WaitGroup
		wg.Add(2)
		GoNamed("waiter", func() {
			defer wg.Done()
			mu.Lock()
			r := ready
			mu.Unlock()
			Yield("window")
			if !r {
				mu.Lock()
				c.Wait()
				mu.Unlock()
			}
		})
		GoNamed("signaller", func() { defer wg.Done(); mu.Lock(); ready = true; mu.Unlock(); c.Signal() })
		wg.Wait()
	}
	o2, _ := outcomes(t, 2, false, body2, func() string { return "" })
	if _, ok := o2[" DEADLOCK"]; !ok {
		t.Fatalf("missed wake-up not found: %v", o2)
	}
}

// channel semantics: unbuffered rendezvous, buffered capacity, close wakes receivers, select default
func TestChannels(t *testing.T) {
	var log []string
	body := func() {
		log = nil
		un := make(chan int)
		buf := make(chan int, 1)
		done := make(chan struct{})
		var wg WaitGroup
		wg.Add(2)
		GoNamed("p", func() {
			defer wg.Done()
			Send(buf, 1)
			Send(un, 2)
			Close(done)
		})
		GoNamed("c", func() {
			defer wg.Done()
			a := Recv(un)
			b := Recv(buf)
			_, ok := Recv2(done)
			log = append(log, fmt.Sprint(a, b, ok))
		})
		wg.Wait()
		r := NewRecv(un)
		if SelectDefault(r) != -1 {
			log = append(log, "select-default-took-a-case")
		}
	}
	o, _ := outcomes(t, 3, false, body, func() string { return strings.Join(log, ";") })
	if keys(o) != "2 1 false" {
		t.Fatalf("channel outcomes %v", o)
	}
}

// Exclusive-use tracking: two threads writing one map without a lock meet at their scheduling
// points in some schedule (and only with one preemption); under a common mutex they never do.
func TestTouchFindsUnsynchronisedMapWrites(t *testing.T) {
	run := func(bound int, locked bool) (races int) {
		var m map[string]int
		var mu Mutex
		body := func() {
			m = map[string]int{}
			writer := func(k string) func() {
				return func() {
					if locked {
						mu.Lock()
						defer mu.Unlock()
					}
					TouchY("t.go", 1, Acc{Obj: func() interface{} { return m }, Write: true, What: "write to map m"})
					m[k] = 1
				}
			}
			var wg WaitGroup
			wg.Add(2)
			Go(func() { defer wg.Done(); writer("a")() })
			Go(func() { defer wg.Done(); writer("b")() })
			wg.Wait()
		}
		st := Explore(ExploreOpt{Bound: bound, Run: Options{YieldFiles: []string{"t.go"}, Drain: true}}, body, func(s *Sched) bool {
			if s.Panic != nil {
				if !strings.Contains(fmt.Sprint(s.Panic), "vsched: unsynchronised write to map m") {
					t.Fatalf("unexpected panic: %v", s.Panic)
				}
				races++
			}
			return true
		})
		if !st.Complete {
			t.Fatalf("exploration stopped: %s", st.Stopped)
		}
		return races
	}
	if n := run(0, false); n != 0 {
		t.Errorf("bound 0: %d schedules report the race, expected none (it needs a preemption)", n)
	}
	if n := run(1, false); n == 0 {
		t.Errorf("bound 1: the unsynchronised writes were never seen together")
	}
	if n := run(2, true); n != 0 {
		t.Errorf("writes under one mutex reported as a race in %d schedules", n)
	}
}
