//go:build go1.21

// Package vsched is the controlled scheduler used by the vipnode verification
// machinery. It is injected into the vipnode module by a build overlay (never
// committed to /repo). Instrumented code calls the shims in this package
// instead of sync / time / context / channel primitives.
//
// Two modes:
//   - pass-through (no active Sched): every shim falls through to the native
//     primitive; only the clock may be virtual (SetVirtualClock).
//   - controlled (inside Run): exactly one logical thread holds the baton,
//     every shim is a scheduling point, blocking is modelled, time is virtual.
package vsched

import (
	"fmt"
	"reflect"
	"runtime/debug"
	"sort"
	"strings"
	"sync"
	"sync/atomic"
	"time"
)

// ---------------------------------------------------------------------------
// Scheduler state

type thread struct {
	id     int
	name   string
	wake   chan struct{}
	exited chan struct{}
	done   bool
	daemon bool
	ready  func() bool // nil => runnable
	site   string
}

// Step is one recorded decision of an execution.
type Step struct {
	Kind   string // "sched", "env", "select"
	Site   string
	N      int
	Chosen int
	Costs  []int
	En     string // enabled set description (for the determinism check)
}

// Sched is one controlled execution.
type Sched struct {
	threads []*thread
	cur     *thread

	prefix []int
	expect []Step // optional: recorded steps of the parent execution for divergence detection
	Trace  []Step

	now      time.Duration
	start    time.Duration
	timers   []*vtimer
	timerSeq int
	chans    map[uintptr]*chanState
	touch    map[uintptr][]touchEntry

	finish  chan struct{}
	ended   bool
	aborted atomic.Bool

	// results
	Deadlock   bool
	Horizon    bool     // step horizon exceeded
	Blocked    []string // threads alive at the end "t3:name@site"
	Panic      interface{}
	PanicStack string
	Diverged   string // non-empty: replay divergence (INFRA)
	Steps      int

	// configuration
	MaxSteps    int
	MaxTime     time.Duration // timers beyond this virtual time are not fired
	TimerAlt    bool          // "fire next timer now" is an alternative (cost 1) at every decision
	yieldFiles  map[string]bool
	yieldAll    bool
	AutoTick    time.Duration // Now() advances the clock by this much on every call (0 = pure)
	Drain       bool          // after the last main thread finished, run daemons to quiescence
	Delay       bool          // delay-bounded instead of preemption-bounded exploration
	NoPreemptAt map[string]bool
}

type vtimer struct {
	when time.Duration
	seq  int
	fire func()
	dead bool
}

var active atomic.Pointer[Sched]

// Active reports whether a controlled execution is running.
func Active() bool { return active.Load() != nil }

func cur() *Sched { return active.Load() }

type abortT struct{}

// Options configures one controlled execution.
type Options struct {
	Prefix     []int
	Expect     []Step
	TimerAlt   bool
	MaxSteps   int
	MaxTime    time.Duration
	YieldFiles []string // files whose statement-level yields are scheduling points ("*" = all)
	AutoTick   time.Duration
	Drain      bool // see Sched.Drain
	// Delay selects delay-bounded scheduling (Emmi, Qadeer, Rakamaric 2011): a deterministic
	// round-robin scheduler, every skipped thread at any decision (including the free choices after
	// a thread blocks or exits) costs one unit of the bound. Polynomial in the bound where
	// preemption bounding explodes on code that blocks often.
	Delay      bool
	StartClock time.Duration // virtual clock offset at which every execution starts
}

var runMu sync.Mutex

// Run executes body as main thread 0 under the scheduler.
func Run(opt Options, body func()) *Sched {
	runMu.Lock()
	defer runMu.Unlock()
	s := &Sched{
		prefix:     opt.Prefix,
		expect:     opt.Expect,
		chans:      map[uintptr]*chanState{},
		finish:     make(chan struct{}),
		MaxSteps:   opt.MaxSteps,
		MaxTime:    opt.MaxTime,
		TimerAlt:   opt.TimerAlt,
		AutoTick:   opt.AutoTick,
		Drain:      opt.Drain,
		Delay:      opt.Delay,
		yieldFiles: map[string]bool{},
	}
	if s.MaxSteps == 0 {
		s.MaxSteps = 20000
	}
	if s.MaxTime == 0 {
		s.MaxTime = 24 * time.Hour
	}
	for _, f := range opt.YieldFiles {
		if f == "*" {
			s.yieldAll = true
		}
		s.yieldFiles[f] = true
	}
	s.now = opt.StartClock
	s.start = s.now
	active.Store(s)
	t := s.newThread("main", false)
	s.cur = t
	go s.runThread(t, body)
	t.wake <- struct{}{}
	<-s.finish
	// unwind every parked thread, one at a time (the finishing thread first)
	if s.cur != nil {
		select {
		case <-s.cur.exited:
		case <-time.After(20 * time.Second):
		}
	}
	for _, th := range s.threads {
		select {
		case <-th.exited:
			continue
		default:
		}
		select {
		case th.wake <- struct{}{}:
		default:
		}
		select {
		case <-th.exited:
		case <-time.After(20 * time.Second):
			s.Diverged = fmt.Sprintf("thread t%d:%s did not unwind (blocked natively at %s)", th.id, th.name, th.site)
		}
	}
	active.Store(nil)
	return s
}

func (s *Sched) newThread(name string, daemon bool) *thread {
	t := &thread{id: len(s.threads), name: name, wake: make(chan struct{}, 1), exited: make(chan struct{}), daemon: daemon}
	s.threads = append(s.threads, t)
	return t
}

func (s *Sched) runThread(t *thread, fn func()) {
	<-t.wake
	defer close(t.exited)
	if s.aborted.Load() {
		t.done = true
		return
	}
	defer func() {
		if r := recover(); r != nil {
			if _, ok := r.(abortT); !ok && !s.aborted.Load() {
				if s.Panic == nil {
					s.Panic = r
					s.PanicStack = string(debug.Stack())
				}
				t.done = true
				s.finishExec()
				return
			}
		}
		t.done = true
		if !s.aborted.Load() {
			s.schedule("exit", true)
		}
	}()
	fn()
}

// Go spawns a daemon logical thread (a goroutine started by code under test).
func Go(fn func()) { GoNamed("go", fn) }

// GoNamed spawns a daemon logical thread with a name (pass-through: plain goroutine).
func GoNamed(name string, fn func()) {
	s := cur()
	if s == nil {
		if h := panicHook.Load(); h != nil {
			go func() {
				defer func() {
					if r := recover(); r != nil {
						(*h)(r, debug.Stack())
					}
				}()
				fn()
			}()
			return
		}
		go fn()
		return
	}
	s.checkAbort()
	t := s.newThread(name, true)
	go s.runThread(t, fn)
	s.point("go")
}

// GoMain spawns a non-daemon logical thread: the execution lasts until all main threads finish.
func GoMain(name string, fn func()) {
	s := cur()
	if s == nil {
		panic("vsched.GoMain outside Run")
	}
	s.checkAbort()
	t := s.newThread(name, false)
	go s.runThread(t, fn)
	s.point("go")
}

var panicHook atomic.Pointer[func(r interface{}, stack []byte)]

// SetPanicHook makes pass-through Go() recover panics of spawned goroutines and report them.
func SetPanicHook(h func(r interface{}, stack []byte)) {
	if h == nil {
		panicHook.Store(nil)
		return
	}
	panicHook.Store(&h)
}

func (s *Sched) checkAbort() {
	if s.aborted.Load() {
		panic(abortT{})
	}
}

// Y is the statement-level yield inserted by the rewriter.
func Y(file string, line int) {
	s := cur()
	if s == nil {
		return
	}
	if !s.yieldAll && !s.yieldFiles[file] {
		return
	}
	s.checkAbort()
	s.cur.site = file + ":" + itoa(line)
	s.point(s.cur.site)
}

// Acc announces one access of the statement that follows to an object that is not safe for
// concurrent use (a map, a *rand.Rand, a buffer ...). Obj is evaluated under recover.
type Acc struct {
	Obj   func() interface{}
	Write bool
	What  string
}

type touchEntry struct {
	thread int
	write  bool
	what   string
	site   string
}

// TouchY is Y plus exclusive-use tracking: the announced accesses are registered while the thread
// waits at the scheduling point in front of its statement. If another thread announces a
// conflicting access (write/write or read/write of the same object) during that time, the two
// statements can run at the same moment in this schedule - nothing orders them - and the execution
// ends with a panic "vsched: unsynchronised ...". Accesses made under a common lock never meet
// here: the second thread blocks on the lock before it reaches its statement.
func TouchY(file string, line int, accs ...Acc) {
	s := cur()
	if s == nil {
		return
	}
	site := file + ":" + itoa(line)
	var keys []uintptr
	me := s.cur.id
	for _, a := range accs {
		k := touchKey(a.Obj)
		if k == 0 {
			continue
		}
		for _, e := range s.touch[k] {
			if e.thread != me && (e.write || a.Write) {
				panic(fmt.Sprintf("vsched: unsynchronised %s at %s (thread %s) while thread %s is at %s: %s - no lock or channel orders the two", a.What, site, s.cur.name, s.threads[e.thread].name, e.site, e.what))
			}
		}
		if s.touch == nil {
			s.touch = map[uintptr][]touchEntry{}
		}
		s.touch[k] = append(s.touch[k], touchEntry{me, a.Write, a.What, site})
		keys = append(keys, k)
	}
	defer func() {
		for _, k := range keys {
			l := s.touch[k]
			for i := len(l) - 1; i >= 0; i-- {
				if l[i].thread == me {
					l = append(l[:i], l[i+1:]...)
					break
				}
			}
			if len(l) == 0 {
				delete(s.touch, k)
			} else {
				s.touch[k] = l
			}
		}
	}()
	if strings.HasPrefix(file, "touch:") {
		if len(keys) > 0 {
			Yield(site)
		}
		return
	}
	Y(file, line)
}

func touchKey(f func() interface{}) (k uintptr) {
	defer func() {
		if recover() != nil {
			k = 0
		}
	}()
	v := reflect.ValueOf(f())
	switch v.Kind() {
	case reflect.Ptr, reflect.Map, reflect.Chan, reflect.UnsafePointer:
		return v.Pointer()
	}
	return 0
}

// Yield is an explicit scheduling point for harness code.
func Yield(site string) {
	s := cur()
	if s == nil {
		return
	}
	s.checkAbort()
	s.cur.site = site
	s.point(site)
}

func itoa(i int) string { return fmt.Sprintf("%d", i) }

// point: the running thread stays enabled; another may be chosen at cost 1.
func (s *Sched) point(site string) {
	s.cur.site = site
	s.schedule(site, false)
}

// block: the running thread is disabled until ready() holds.
func (s *Sched) block(site string, ready func() bool) {
	s.checkAbort()
	s.cur.ready = ready
	s.cur.site = site
	s.schedule(site, false)
}

func (s *Sched) choose(kind, site string, costs []int, en string) int {
	n := len(costs)
	c := 0
	i := len(s.Trace)
	if i < len(s.prefix) {
		c = s.prefix[i]
		if c >= n {
			s.Diverged = fmt.Sprintf("replay divergence at step %d: choice %d of %d (%s %s)", i, c, n, kind, site)
			c = 0
		}
		if i < len(s.expect) {
			e := s.expect[i]
			if e.Kind != kind || e.N != n || e.En != en {
				s.Diverged = fmt.Sprintf("replay divergence at step %d: recorded %s/%s n=%d en=%s, now %s/%s n=%d en=%s", i, e.Kind, e.Site, e.N, e.En, kind, site, n, en)
			}
		}
	}
	s.Trace = append(s.Trace, Step{Kind: kind, N: n, Chosen: c, Costs: costs, Site: site, En: en})
	return c
}

// Choose is an environment choice point: alternative 0 is the default, others cost 1 each.
func Choose(n int, label string) int {
	s := cur()
	if s == nil || n <= 1 {
		return 0
	}
	s.checkAbort()
	costs := make([]int, n)
	for i := 1; i < n; i++ {
		costs[i] = 1
	}
	return s.choose("env", label, costs, "")
}

// ChooseFree is an environment choice point whose alternatives all cost 0.
func ChooseFree(n int, label string) int {
	s := cur()
	if s == nil || n <= 1 {
		return 0
	}
	s.checkAbort()
	return s.choose("env", label, make([]int, n), "")
}

func (s *Sched) enabled(me *thread, exiting bool) []*thread {
	var en []*thread
	if !exiting && !me.done && (me.ready == nil || me.ready()) {
		en = append(en, me)
	}
	n := len(s.threads)
	start := 0
	if s.Delay {
		// delay-bounded scheduling: the others follow in round-robin order after the running thread
		start = me.id + 1
	}
	for k := 0; k < n; k++ {
		t := s.threads[(start+k)%n]
		if t == me || t.done {
			continue
		}
		if t.ready == nil || t.ready() {
			en = append(en, t)
		}
	}
	return en
}

func (s *Sched) schedule(site string, exiting bool) {
	me := s.cur
	s.Steps++
	for {
		if s.ended {
			if exiting {
				return
			}
			panic(abortT{})
		}
		mainsLeft := false
		for _, t := range s.threads {
			if !t.daemon && !t.done {
				mainsLeft = true
			}
		}
		en := s.enabled(me, exiting)
		nextTimer := s.nextTimer()
		if !mainsLeft {
			// Drain: keep running spawned goroutines until nothing can move any more, so that the
			// threads still alive at the end are exactly the ones blocked for good.
			if !s.Drain || (len(en) == 0 && nextTimer == nil) {
				s.finishExec()
				continue
			}
		}
		if s.Steps > s.MaxSteps {
			s.Horizon = mainsLeft
			s.finishExec()
			continue
		}
		if len(en) == 0 {
			if nextTimer != nil {
				s.fire(nextTimer)
				continue
			}
			s.Deadlock = true
			s.finishExec()
			continue
		}
		nalt := len(en)
		timerAlt := s.TimerAlt && nextTimer != nil
		if timerAlt {
			nalt++
		}
		c := 0
		if nalt > 1 {
			costs := make([]int, nalt)
			meEnabled := en[0] == me
			if s.Delay {
				// every departure from the deterministic round-robin choice costs one delay per skipped thread
				for i := 1; i < nalt; i++ {
					costs[i] = i
				}
			} else if meEnabled {
				for i := 1; i < nalt; i++ {
					costs[i] = 1
				}
			}
			if timerAlt && !s.Delay {
				costs[nalt-1] = 1
			}
			ens := make([]byte, 0, 2*nalt)
			for _, t := range en {
				ens = append(ens, byte('a'+t.id%26), byte('0'+t.id/26))
			}
			if timerAlt {
				ens = append(ens, 'T')
			}
			c = s.choose("sched", site, costs, string(ens))
		}
		if timerAlt && c == nalt-1 {
			s.fire(nextTimer)
			continue
		}
		next := en[c]
		next.ready = nil
		if next == me {
			return
		}
		s.cur = next
		next.wake <- struct{}{}
		if exiting {
			return
		}
		<-me.wake
		if s.aborted.Load() {
			panic(abortT{})
		}
		return
	}
}

// finishExec ends the execution: records live threads, marks aborted and releases Run.
func (s *Sched) finishExec() {
	if s.ended {
		return
	}
	s.ended = true
	for _, t := range s.threads {
		if !t.done {
			s.Blocked = append(s.Blocked, fmt.Sprintf("t%d:%s@%s", t.id, t.name, t.site))
		}
	}
	s.aborted.Store(true)
	close(s.finish)
}

// Live returns the descriptions of threads still alive when the execution ended.
func (s *Sched) Live() []string { return s.Blocked }

func (s *Sched) nextTimer() *vtimer {
	var best *vtimer
	for _, t := range s.timers {
		if t.dead {
			continue
		}
		if best == nil || t.when < best.when || (t.when == best.when && t.seq < best.seq) {
			best = t
		}
	}
	if best != nil && best.when-s.start > s.MaxTime {
		return nil
	}
	return best
}

func (s *Sched) fire(t *vtimer) {
	t.dead = true
	if t.when > s.now {
		s.now = t.when
	}
	s.gcTimers()
	t.fire()
}

func (s *Sched) gcTimers() {
	if len(s.timers) < 32 {
		return
	}
	live := s.timers[:0]
	for _, t := range s.timers {
		if !t.dead {
			live = append(live, t)
		}
	}
	s.timers = live
}

func (s *Sched) addTimer(d time.Duration, fire func()) *vtimer {
	if d < 0 {
		d = 0
	}
	s.timerSeq++
	t := &vtimer{when: s.now + d, seq: s.timerSeq, fire: fire}
	s.timers = append(s.timers, t)
	return t
}

// PendingTimers returns the number of live virtual timers.
func (s *Sched) PendingTimers() int {
	n := 0
	for _, t := range s.timers {
		if !t.dead {
			n++
		}
	}
	return n
}

// Cost returns the deviation cost of the first upto steps of a trace.
func Cost(tr []Step, upto int) int {
	c := 0
	for i := 0; i < upto && i < len(tr); i++ {
		c += tr[i].Costs[tr[i].Chosen]
	}
	return c
}

// Choices extracts the choice list of a trace.
func Choices(tr []Step) []int {
	r := make([]int, len(tr))
	for i, s := range tr {
		r[i] = s.Chosen
	}
	return r
}

// ---------------------------------------------------------------------------
// DFS explorer with deviation bounding

// ExploreStats reports what an exploration covered.
type ExploreStats struct {
	Execs     int
	Points    int64
	MaxPoints int
	Complete  bool // false if a cap or deadline stopped the search
	Stopped   string
}

// ExploreOpt configures Explore.
type ExploreOpt struct {
	Bound    int
	Run      Options // Prefix/Expect are set by the explorer
	Shard    int     // explore only root alternatives whose ordinal % NShards == Shard (root itself: shard 0)
	NShards  int
	MaxExecs int
	Deadline time.Time
	// Before, if set, runs before every execution, outside the controlled mode (native set-up).
	Before func()
	// Prune, if set, is called after each execution with the execution; it returns a key for
	// (state after step i) or "" — not used yet.
}

// Explore runs body under every schedule within the deviation bound. check is called after each
// execution; returning false stops the search (violation found).
func Explore(opt ExploreOpt, body func(), check func(s *Sched) bool) (st ExploreStats) {
	if opt.NShards <= 0 {
		opt.NShards = 1
	}
	stop := false
	ordinal := 0
	var rec func(prefix []int, expect []Step, depth int)
	rec = func(prefix []int, expect []Step, depth int) {
		if stop {
			return
		}
		ro := opt.Run
		ro.Prefix = prefix
		ro.Expect = expect
		if opt.Before != nil {
			opt.Before()
		}
		s := Run(ro, body)
		st.Execs++
		st.Points += int64(len(s.Trace))
		if len(s.Trace) > st.MaxPoints {
			st.MaxPoints = len(s.Trace)
		}
		skipCheck := depth == 0 && opt.Shard != 0
		if !skipCheck && !check(s) {
			stop = true
			st.Stopped = "violation"
			return
		}
		if s.Diverged != "" {
			stop = true
			st.Stopped = "diverged: " + s.Diverged
			return
		}
		if opt.MaxExecs > 0 && st.Execs >= opt.MaxExecs {
			stop = true
			st.Stopped = "max-execs"
			return
		}
		if !opt.Deadline.IsZero() && time.Now().After(opt.Deadline) {
			stop = true
			st.Stopped = "deadline"
			return
		}
		tr := s.Trace
		for i := len(prefix); i < len(tr); i++ {
			base := Cost(tr, i)
			for alt := 1; alt < tr[i].N; alt++ {
				if base+tr[i].Costs[alt] > opt.Bound {
					continue
				}
				if depth == 0 {
					o := ordinal
					ordinal++
					if o%opt.NShards != opt.Shard {
						continue
					}
				}
				np := make([]int, i+1)
				for j := 0; j < i; j++ {
					np[j] = tr[j].Chosen
				}
				np[i] = alt
				rec(np, tr[:i], depth+1)
				if stop {
					return
				}
			}
		}
	}
	rec(nil, nil, 0)
	st.Complete = !stop
	return
}

// SortedKeys returns the keys of a string-keyed map in sorted order (deterministic map iteration).
func SortedKeys[K ~string, V any](m map[K]V) []K {
	r := make([]K, 0, len(m))
	for k := range m {
		r = append(r, k)
	}
	sort.Slice(r, func(i, j int) bool { return r[i] < r[j] })
	if rot := int(mapRotation.Load()); rot > 0 && len(r) > 1 {
		rot %= len(r)
		r = append(r[rot:], r[:rot]...)
	}
	return r
}

var mapRotation atomic.Int64

// SetMapRotation rotates every sorted map iteration by n positions (a harness-owned choice).
func SetMapRotation(n int) { mapRotation.Store(int64(n)) }

// AliveDaemonSites returns the last scheduling site of every spawned thread that has not finished.
func AliveDaemonSites() []string {
	s := cur()
	if s == nil {
		return nil
	}
	var r []string
	for _, t := range s.threads {
		if t.daemon && !t.done {
			r = append(r, t.site)
		}
	}
	return r
}

// AliveDaemonInfo returns id -> last scheduling site of every spawned thread that has not finished.
func AliveDaemonInfo() map[int]string {
	s := cur()
	r := map[int]string{}
	if s == nil {
		return r
	}
	for _, t := range s.threads {
		if t.daemon && !t.done {
			r[t.id] = t.site
		}
	}
	return r
}

// AliveDaemons returns how many spawned (daemon) threads have not finished yet. Callable from a
// logical thread during a controlled execution.
func AliveDaemons() int {
	s := cur()
	if s == nil {
		return -1
	}
	n := 0
	for _, t := range s.threads {
		if t.daemon && !t.done {
			n++
		}
	}
	return n
}
