//go:build go1.21

package vsched

import (
	"context"
	"math/rand"
	"reflect"
	"runtime/debug"
	"sync"
	"sync/atomic"
	"time"
)

// ---------------------------------------------------------------------------
// Clock

var base = time.Unix(1700000000, 0).UTC()
var virtualOn atomic.Bool
var virtualOffset atomic.Int64

// SetVirtualClock switches Now() to the virtual clock (base + offset) in pass-through mode too.
func SetVirtualClock(on bool) { virtualOn.Store(on) }

// ResetClock sets the virtual clock offset (pass-through mode or between runs).
func ResetClock(d time.Duration) { virtualOffset.Store(int64(d)) }

// Base is the virtual epoch.
func Base() time.Time { return base }

// Now is the shim for time.Now.
func Now() time.Time {
	if s := cur(); s != nil {
		if s.AutoTick > 0 {
			s.now += s.AutoTick
		}
		return base.Add(s.now)
	}
	if virtualOn.Load() {
		return base.Add(time.Duration(virtualOffset.Load()))
	}
	return time.Now()
}

// Advance moves the virtual clock forward.
func Advance(d time.Duration) {
	if s := cur(); s != nil {
		s.now += d
		return
	}
	virtualOffset.Add(int64(d))
}

// Elapsed returns the virtual offset since Base.
func Elapsed() time.Duration {
	if s := cur(); s != nil {
		return s.now
	}
	return time.Duration(virtualOffset.Load())
}

func Since(t time.Time) time.Duration { return Now().Sub(t) }
func Until(t time.Time) time.Duration { return t.Sub(Now()) }

func After(d time.Duration) <-chan time.Time {
	s := cur()
	if s == nil {
		return time.After(d)
	}
	s.checkAbort()
	ch := make(chan time.Time, 1)
	s.addTimer(d, func() {
		select {
		case ch <- base.Add(s.now):
		default:
		}
	})
	return ch
}

func Tick(d time.Duration) <-chan time.Time {
	s := cur()
	if s == nil {
		return time.Tick(d)
	}
	s.checkAbort()
	if d <= 0 {
		return nil
	}
	ch := make(chan time.Time, 1)
	var arm func()
	arm = func() {
		s.addTimer(d, func() {
			select {
			case ch <- base.Add(s.now):
			default:
			}
			arm()
		})
	}
	arm()
	return ch
}

func Sleep(d time.Duration) {
	s := cur()
	if s == nil {
		if virtualOn.Load() {
			virtualOffset.Add(int64(d))
			return
		}
		time.Sleep(d)
		return
	}
	Recv(After(d))
}

// ---------------------------------------------------------------------------
// Context

type vctxKeyT struct{}

var vctxKey = vctxKeyT{}

type vctx struct {
	parent   context.Context
	s        *Sched
	done     chan struct{}
	err      error
	t        *vtimer
	deadline time.Time
	hasDL    bool
	children []*vctx
}

func (c *vctx) Deadline() (time.Time, bool) {
	if c.hasDL {
		return c.deadline, true
	}
	return c.parent.Deadline()
}
func (c *vctx) Done() <-chan struct{} { return c.done }
func (c *vctx) Err() error            { return c.err }
func (c *vctx) Value(k interface{}) interface{} {
	if k == vctxKey {
		return c
	}
	return c.parent.Value(k)
}

func (c *vctx) cancel(err error) {
	if c.err != nil {
		return
	}
	c.err = err
	if c.t != nil {
		c.t.dead = true
	}
	if st := c.s.chans[chanKey(c.done)]; st != nil {
		st.closed = true
	} else {
		c.s.cs(chanKey(c.done)).closed = true
	}
	close(c.done)
	for _, ch := range c.children {
		ch.cancel(err)
	}
}

func newVctx(s *Sched, parent context.Context) *vctx {
	c := &vctx{parent: parent, s: s, done: make(chan struct{})}
	if p, ok := parent.Value(vctxKey).(*vctx); ok && p != nil && p.s == s {
		if p.err != nil {
			c.cancel(p.err)
		} else {
			p.children = append(p.children, c)
		}
	} else if parent.Err() != nil {
		c.cancel(parent.Err())
	}
	return c
}

func WithCancel(parent context.Context) (context.Context, context.CancelFunc) {
	s := cur()
	if s == nil {
		return context.WithCancel(parent)
	}
	c := newVctx(s, parent)
	return c, func() {
		if s.aborted.Load() {
			return
		}
		c.cancel(context.Canceled)
	}
}

func WithTimeout(parent context.Context, d time.Duration) (context.Context, context.CancelFunc) {
	s := cur()
	if s == nil {
		return context.WithTimeout(parent, d)
	}
	s.checkAbort()
	c := newVctx(s, parent)
	c.deadline, c.hasDL = base.Add(s.now+d), true
	if c.err == nil {
		c.t = s.addTimer(d, func() { c.cancel(context.DeadlineExceeded) })
	}
	return c, func() {
		if s.aborted.Load() {
			return
		}
		c.cancel(context.Canceled)
	}
}

func WithDeadline(parent context.Context, t time.Time) (context.Context, context.CancelFunc) {
	if cur() == nil {
		return context.WithDeadline(parent, t)
	}
	return WithTimeout(parent, t.Sub(Now()))
}

// ---------------------------------------------------------------------------
// Mutexes

type Mutex struct {
	real sync.Mutex
	held bool
}

func (m *Mutex) Lock() {
	s := cur()
	if s == nil {
		m.real.Lock()
		return
	}
	s.checkAbort()
	s.point("lock")
	for m.held {
		s.block("lock-wait", func() bool { return !m.held })
	}
	m.held = true
}

func (m *Mutex) Unlock() {
	s := cur()
	if s == nil {
		m.real.Unlock()
		return
	}
	if s.aborted.Load() {
		m.held = false
		return
	}
	if !m.held {
		panic("sync: unlock of unlocked mutex")
	}
	m.held = false
}

func (m *Mutex) TryLock() bool {
	s := cur()
	if s == nil {
		return m.real.TryLock()
	}
	if m.held {
		return false
	}
	m.held = true
	return true
}

type RWMutex struct {
	real    sync.RWMutex
	w       bool
	readers int
}

func (m *RWMutex) Lock() {
	s := cur()
	if s == nil {
		m.real.Lock()
		return
	}
	s.checkAbort()
	s.point("wlock")
	for m.w || m.readers > 0 {
		s.block("wlock-wait", func() bool { return !m.w && m.readers == 0 })
	}
	m.w = true
}
func (m *RWMutex) Unlock() {
	s := cur()
	if s == nil {
		m.real.Unlock()
		return
	}
	if !m.w && !s.aborted.Load() {
		panic("sync: Unlock of unlocked RWMutex")
	}
	m.w = false
}
func (m *RWMutex) RLock() {
	s := cur()
	if s == nil {
		m.real.RLock()
		return
	}
	s.checkAbort()
	s.point("rlock")
	for m.w {
		s.block("rlock-wait", func() bool { return !m.w })
	}
	m.readers++
}
func (m *RWMutex) RUnlock() {
	s := cur()
	if s == nil {
		m.real.RUnlock()
		return
	}
	if m.readers > 0 {
		m.readers--
	}
}
func (m *RWMutex) TryLock() bool {
	s := cur()
	if s == nil {
		return m.real.TryLock()
	}
	if m.w || m.readers > 0 {
		return false
	}
	m.w = true
	return true
}

func (m *RWMutex) TryRLock() bool {
	s := cur()
	if s == nil {
		return m.real.TryRLock()
	}
	if m.w {
		return false
	}
	m.readers++
	return true
}

func (m *RWMutex) RLocker() sync.Locker { return (*rlocker)(m) }

type rlocker RWMutex

func (r *rlocker) Lock()   { (*RWMutex)(r).RLock() }
func (r *rlocker) Unlock() { (*RWMutex)(r).RUnlock() }

// Once is the shim for sync.Once: under control a second caller waits at scheduler level (a native
// Once held across a scheduling point would block the baton holder for good).
type Once struct {
	real    sync.Once
	done    bool
	running bool
	mu      sync.Mutex // guards done in pass-through mode
}

func (o *Once) Do(f func()) {
	s := cur()
	if s == nil {
		// (a Once outlives executions: what ran in one mode has run in the other)
		o.mu.Lock()
		done := o.done
		o.mu.Unlock()
		if done {
			return
		}
		o.real.Do(func() {
			defer func() {
				o.mu.Lock()
				o.done = true
				o.mu.Unlock()
			}()
			f()
		})
		return
	}
	s.checkAbort()
	if o.done {
		return
	}
	s.point("once")
	for o.running {
		s.block("once-wait", func() bool { return !o.running })
	}
	if o.done {
		return
	}
	o.running = true
	defer func() {
		o.running = false
		o.done = true
	}()
	f()
}

type WaitGroup struct {
	real sync.WaitGroup
	n    int
}

func (w *WaitGroup) Add(d int) {
	if cur() == nil {
		w.real.Add(d)
		return
	}
	w.n += d
	if w.n < 0 {
		panic("sync: negative WaitGroup counter")
	}
}
func (w *WaitGroup) Done() { w.Add(-1) }
func (w *WaitGroup) Wait() {
	s := cur()
	if s == nil {
		w.real.Wait()
		return
	}
	s.checkAbort()
	s.point("wg")
	for w.n > 0 {
		s.block("wg-wait", func() bool { return w.n == 0 })
	}
}

// Shuffle is the shim for rand.Shuffle: under control / virtual clock it is the identity
// permutation rotated by the harness-owned map rotation.
func Shuffle(n int, swap func(i, j int)) {
	if cur() == nil && !virtualOn.Load() {
		rand.Shuffle(n, swap)
		return
	}
	rot := int(mapRotation.Load())
	if n > 1 && rot%n != 0 {
		// rotate left by rot using swaps (reverse three times)
		rot %= n
		rev := func(a, b int) {
			for a < b {
				swap(a, b)
				a++
				b--
			}
		}
		rev(0, rot-1)
		rev(rot, n-1)
		rev(0, n-1)
	}
}

// ---------------------------------------------------------------------------
// Channels

type chanState struct {
	closed bool
	sends  []*pend // blocked senders (cases)
	recvs  []*pend // blocked receivers (cases)
	stash  []interface{}
}

type waiter struct {
	t     *thread
	cases []SelCase
	done  int
}

type pend struct {
	w   *waiter
	idx int
}

func chanKey(ch interface{}) uintptr {
	v := reflect.ValueOf(ch)
	if !v.IsValid() || v.Kind() != reflect.Chan || v.IsNil() {
		return 0
	}
	return v.Pointer()
}

func (s *Sched) cs(k uintptr) *chanState {
	c := s.chans[k]
	if c == nil {
		c = &chanState{}
		s.chans[k] = c
	}
	return c
}

// SelCase is one communication clause.
type SelCase interface {
	key() uintptr
	isSend() bool
	ready(s *Sched, me *waiter) bool
	exec(s *Sched, me *waiter)
	native() reflect.SelectCase
	setRecv(v reflect.Value, ok bool)
	deliver(v interface{})
	value() interface{}
}

type RecvCase[T any] struct {
	ch  <-chan T
	Val T
	OK  bool
}

func NewRecv[T any](ch <-chan T) *RecvCase[T] { return &RecvCase[T]{ch: ch} }

func (c *RecvCase[T]) key() uintptr       { return chanKey(c.ch) }
func (c *RecvCase[T]) isSend() bool       { return false }
func (c *RecvCase[T]) value() interface{} { return nil }
func (c *RecvCase[T]) deliver(v interface{}) {
	if v != nil {
		c.Val = v.(T)
	}
	c.OK = true
}

func (c *RecvCase[T]) probe(st *chanState) {
	// detect a natively closed channel (e.g. a context not created through the shim) or a value
	// sent by a foreign goroutine, without losing it.
	if st.closed || c.ch == nil {
		return
	}
	select {
	case v, ok := <-c.ch:
		if ok {
			st.stash = append(st.stash, v)
		} else {
			st.closed = true
		}
	default:
	}
}

func (c *RecvCase[T]) ready(s *Sched, me *waiter) bool {
	k := c.key()
	if k == 0 {
		return false
	}
	st := s.cs(k)
	if len(st.stash) > 0 || len(c.ch) > 0 || st.closed {
		return true
	}
	for _, p := range st.sends {
		if p.w != me && p.w.done < 0 {
			return true
		}
	}
	c.probe(st)
	return len(st.stash) > 0 || st.closed
}

func (c *RecvCase[T]) exec(s *Sched, me *waiter) {
	st := s.cs(c.key())
	if len(st.stash) > 0 {
		v := st.stash[0]
		st.stash = st.stash[1:]
		c.deliver(v)
		return
	}
	if len(c.ch) > 0 {
		c.Val, c.OK = <-c.ch
		return
	}
	for _, p := range st.sends {
		if p.w != me && p.w.done < 0 {
			c.deliver(p.w.cases[p.idx].value())
			s.complete(p.w, p.idx)
			return
		}
	}
	var z T
	c.Val, c.OK = z, false
}

type SendCase[T any] struct {
	ch chan<- T
	v  T
}

func NewSend[T any](ch chan<- T, v T) *SendCase[T] { return &SendCase[T]{ch: ch, v: v} }

func (c *SendCase[T]) key() uintptr          { return chanKey(c.ch) }
func (c *SendCase[T]) isSend() bool          { return true }
func (c *SendCase[T]) value() interface{}    { return c.v }
func (c *SendCase[T]) deliver(v interface{}) {}

func (c *SendCase[T]) ready(s *Sched, me *waiter) bool {
	k := c.key()
	if k == 0 {
		return false
	}
	st := s.cs(k)
	if st.closed {
		return true
	}
	if cap(c.ch) > 0 && len(c.ch) < cap(c.ch) {
		return true
	}
	for _, p := range st.recvs {
		if p.w != me && p.w.done < 0 {
			return true
		}
	}
	return false
}

func (c *SendCase[T]) exec(s *Sched, me *waiter) {
	st := s.cs(c.key())
	if st.closed {
		panic("send on closed channel")
	}
	if cap(c.ch) > 0 && len(c.ch) < cap(c.ch) {
		c.ch <- c.v
		return
	}
	for _, p := range st.recvs {
		if p.w != me && p.w.done < 0 {
			p.w.cases[p.idx].deliver(c.v)
			s.complete(p.w, p.idx)
			return
		}
	}
	panic("vsched: send case executed while not ready")
}

func (c *RecvCase[T]) native() reflect.SelectCase {
	return reflect.SelectCase{Dir: reflect.SelectRecv, Chan: reflect.ValueOf(c.ch)}
}
func (c *RecvCase[T]) setRecv(v reflect.Value, ok bool) {
	c.OK = ok
	if ok {
		c.Val, _ = v.Interface().(T)
	}
}
func (c *SendCase[T]) native() reflect.SelectCase {
	return reflect.SelectCase{Dir: reflect.SelectSend, Chan: reflect.ValueOf(c.ch), Send: reflect.ValueOf(&c.v).Elem()}
}
func (c *SendCase[T]) setRecv(v reflect.Value, ok bool) {}

func (s *Sched) complete(w *waiter, idx int) {
	w.done = idx
	s.unregister(w)
}

func (s *Sched) unregister(w *waiter) {
	for _, c := range w.cases {
		k := c.key()
		if k == 0 {
			continue
		}
		st := s.cs(k)
		st.sends = dropWaiter(st.sends, w)
		st.recvs = dropWaiter(st.recvs, w)
	}
}

func dropWaiter(l []*pend, w *waiter) []*pend {
	out := l[:0]
	for _, p := range l {
		if p.w != w {
			out = append(out, p)
		}
	}
	return out
}

func nativeSelect(cases []SelCase, def bool) int {
	rc := make([]reflect.SelectCase, 0, len(cases)+1)
	for _, c := range cases {
		rc = append(rc, c.native())
	}
	if def {
		rc = append(rc, reflect.SelectCase{Dir: reflect.SelectDefault})
	}
	i, v, ok := reflect.Select(rc)
	if i == len(cases) {
		return -1
	}
	cases[i].setRecv(v, ok)
	return i
}

func (s *Sched) readyCases(cases []SelCase, me *waiter) []int {
	var rd []int
	for i, c := range cases {
		if c.ready(s, me) {
			rd = append(rd, i)
		}
	}
	return rd
}

func (s *Sched) doSelect(cases []SelCase, hasDefault bool, site string) int {
	s.checkAbort()
	s.point(site)
	me := &waiter{t: s.cur, cases: cases, done: -1}
	rd := s.readyCases(cases, me)
	if len(rd) == 0 {
		if hasDefault {
			return -1
		}
		// register and block
		for i, c := range cases {
			k := c.key()
			if k == 0 {
				continue
			}
			st := s.cs(k)
			p := &pend{w: me, idx: i}
			if c.isSend() {
				st.sends = append(st.sends, p)
			} else {
				st.recvs = append(st.recvs, p)
			}
		}
		s.block(site+"-wait", func() bool {
			return me.done >= 0 || len(s.readyCases(cases, me)) > 0
		})
		if me.done >= 0 {
			return me.done
		}
		s.unregister(me)
		rd = s.readyCases(cases, me)
		if len(rd) == 0 {
			panic("vsched: woken select has no ready case")
		}
	}
	k := 0
	if len(rd) > 1 {
		k = s.choose("select", site, make([]int, len(rd)), "")
	}
	cases[rd[k]].exec(s, me)
	return rd[k]
}

// Select blocks until one case can proceed, executes it and returns its index.
func Select(cases ...SelCase) int {
	s := cur()
	if s == nil {
		return nativeSelect(cases, false)
	}
	return s.doSelect(cases, false, "select")
}

// SelectDefault is Select with a default clause: returns -1 when nothing is ready.
func SelectDefault(cases ...SelCase) int {
	s := cur()
	if s == nil {
		return nativeSelect(cases, true)
	}
	return s.doSelect(cases, true, "select")
}

func Recv[T any](ch <-chan T) T {
	s := cur()
	if s == nil {
		return <-ch
	}
	c := NewRecv(ch)
	s.doSelect([]SelCase{c}, false, "recv")
	return c.Val
}

func Recv2[T any](ch <-chan T) (T, bool) {
	s := cur()
	if s == nil {
		v, ok := <-ch
		return v, ok
	}
	c := NewRecv(ch)
	s.doSelect([]SelCase{c}, false, "recv")
	return c.Val, c.OK
}

func Send[T any](ch chan<- T, v T) {
	s := cur()
	if s == nil {
		ch <- v
		return
	}
	if s.aborted.Load() {
		panic(abortT{})
	}
	c := NewSend(ch, v)
	s.doSelect([]SelCase{c}, false, "send")
}

func Close[T any](ch chan<- T) {
	s := cur()
	if s != nil {
		if s.aborted.Load() {
			defer func() { recover() }()
			close(ch)
			return
		}
		s.cs(chanKey(ch)).closed = true
	}
	close(ch)
}

// ---------------------------------------------------------------------------
// Timers, tickers, AfterFunc (time.NewTimer / time.NewTicker / time.AfterFunc)

// Timer mirrors time.Timer on the virtual clock (pass-through: wraps the native one).
type Timer struct {
	C  <-chan time.Time
	c  chan time.Time
	vt *vtimer
	f  func()
	rt *time.Timer
}

func (t *Timer) arm(s *Sched, d time.Duration) {
	t.vt = s.addTimer(d, func() {
		if t.f != nil {
			th := s.newThread("afterfunc", true)
			go s.runThread(th, t.f)
			return
		}
		select {
		case t.c <- base.Add(s.now):
		default:
		}
	})
}

func NewTimer(d time.Duration) *Timer {
	s := cur()
	if s == nil {
		rt := time.NewTimer(d)
		return &Timer{C: rt.C, rt: rt}
	}
	s.checkAbort()
	t := &Timer{c: make(chan time.Time, 1)}
	t.C = t.c
	t.arm(s, d)
	return t
}

func AfterFunc(d time.Duration, f func()) *Timer {
	s := cur()
	if s == nil {
		fn := f
		if h := panicHook.Load(); h != nil {
			fn = func() {
				defer func() {
					if r := recover(); r != nil {
						(*h)(r, debug.Stack())
					}
				}()
				f()
			}
		}
		return &Timer{rt: time.AfterFunc(d, fn)}
	}
	s.checkAbort()
	t := &Timer{f: f}
	t.arm(s, d)
	return t
}

func (t *Timer) Stop() bool {
	if t.rt != nil {
		return t.rt.Stop()
	}
	if t.vt == nil {
		panic("time: Stop called on uninitialized Timer")
	}
	was := !t.vt.dead
	t.vt.dead = true
	return was
}

func (t *Timer) Reset(d time.Duration) bool {
	if t.rt != nil {
		return t.rt.Reset(d)
	}
	if t.vt == nil {
		panic("time: Reset called on uninitialized Timer")
	}
	was := !t.vt.dead
	t.vt.dead = true
	s := cur()
	if s == nil {
		return was
	}
	// Go 1.23 semantics: no stale value is delivered after Reset
	if t.c != nil {
		select {
		case <-t.c:
		default:
		}
	}
	t.arm(s, d)
	return was
}

// Ticker mirrors time.Ticker on the virtual clock.
type Ticker struct {
	C   <-chan time.Time
	c   chan time.Time
	gen int
	d   time.Duration
	rt  *time.Ticker
}

func (t *Ticker) arm(s *Sched) {
	gen := t.gen
	var again func()
	again = func() {
		s.addTimer(t.d, func() {
			if t.gen != gen {
				return
			}
			select {
			case t.c <- base.Add(s.now):
			default:
			}
			again()
		})
	}
	again()
}

func NewTicker(d time.Duration) *Ticker {
	if d <= 0 {
		panic("non-positive interval for NewTicker")
	}
	s := cur()
	if s == nil {
		rt := time.NewTicker(d)
		return &Ticker{C: rt.C, rt: rt}
	}
	s.checkAbort()
	t := &Ticker{c: make(chan time.Time, 1), d: d}
	t.C = t.c
	t.arm(s)
	return t
}

func (t *Ticker) Stop() {
	if t.rt != nil {
		t.rt.Stop()
		return
	}
	t.gen++
}

func (t *Ticker) Reset(d time.Duration) {
	if d <= 0 {
		panic("non-positive interval for Ticker.Reset")
	}
	if t.rt != nil {
		t.rt.Reset(d)
		return
	}
	t.gen++
	t.d = d
	if s := cur(); s != nil {
		t.arm(s)
	}
}

// ---------------------------------------------------------------------------
// Condition variables

type Cond struct {
	L sync.Locker

	once    sync.Once
	native  *sync.Cond
	waiters []*condWaiter
}

type condWaiter struct{ signaled bool }

func NewCond(l sync.Locker) *Cond { return &Cond{L: l} }

func (c *Cond) nat() *sync.Cond {
	c.once.Do(func() { c.native = sync.NewCond(c.L) })
	return c.native
}

func (c *Cond) Wait() {
	s := cur()
	if s == nil {
		c.nat().Wait()
		return
	}
	s.checkAbort()
	w := &condWaiter{}
	c.waiters = append(c.waiters, w)
	c.L.Unlock()
	s.block("cond-wait", func() bool { return w.signaled })
	c.L.Lock()
}

func (c *Cond) Signal() {
	s := cur()
	if s == nil {
		c.nat().Signal()
		return
	}
	if len(c.waiters) > 0 {
		c.waiters[0].signaled = true
		c.waiters = c.waiters[1:]
	}
}

func (c *Cond) Broadcast() {
	s := cur()
	if s == nil {
		c.nat().Broadcast()
		return
	}
	for _, w := range c.waiters {
		w.signaled = true
	}
	c.waiters = nil
}

// ---------------------------------------------------------------------------
// sync.Pool

// Pool mirrors sync.Pool with a deterministic policy: Get returns the most recently Put item.
// The native pool's per-P caches make reuse depend on goroutine placement; always reusing at once
// is a legal behaviour of sync.Pool, is replayable, and is the one that exposes an object handed
// back while somebody still uses it.
type Pool struct {
	New func() interface{}

	mu    sync.Mutex
	items []interface{}
}

func (p *Pool) Get() interface{} {
	p.mu.Lock()
	if n := len(p.items); n > 0 {
		x := p.items[n-1]
		p.items = p.items[:n-1]
		p.mu.Unlock()
		return x
	}
	p.mu.Unlock()
	if p.New != nil {
		return p.New()
	}
	return nil
}

func (p *Pool) Put(x interface{}) {
	if x == nil {
		return
	}
	p.mu.Lock()
	p.items = append(p.items, x)
	p.mu.Unlock()
}
