#!/bin/bash
# Offline setup: build the host tools and pre-warm the Go build cache with the instrumented worker.
set -e
cd /verif
export GOFLAGS=-mod=mod GOPROXY=off GOSUMDB=off GOTOOLCHAIN=local
mkdir -p bin evidence replays
go build -o bin/vrewrite ./engine/vrewrite
go build -o bin/vcheck ./cmd/vcheck
(cd /repo && go build ./... )
./bin/vcheck --build-only --with-race
echo "setup ok"
