//go:build go1.21

package vh

import (
	"context"
	"fmt"
	"math/big"
	"strings"
	"time"

	"github.com/vipnode/vipnode/v2/internal/verif/vsched"
	"github.com/vipnode/vipnode/v2/pool"
	"github.com/vipnode/vipnode/v2/pool/store"
)

// Cast is the standard set of participants of pool-session scenarios.
type Cast struct {
	ByName map[string]*Ident
	Nodes  []string // node ids
	Accts  []string // wallet addresses
}

// StdCast: H1,H2 (hosts), C1,C2 (clients), W1,W2 (wallets).
func StdCast() *Cast {
	ids := Identities()
	c := &Cast{ByName: map[string]*Ident{"C1": ids[0], "H1": ids[1], "H2": ids[2], "C2": ids[3], "W1": ids[4], "W2": ids[5], "H3": ids[6]}}
	for _, n := range []string{"C1", "C2", "H1", "H2", "H3"} {
		c.Nodes = append(c.Nodes, c.ByName[n].NodeID)
	}
	for _, n := range []string{"W1", "W2"} {
		c.Accts = append(c.Accts, c.ByName[n].Wallet)
	}
	return c
}

func (c *Cast) ids(set string) []string {
	if set == "-" || set == "" {
		return nil
	}
	var r []string
	for _, n := range strings.Split(set, ",") {
		if id, ok := c.ByName[n]; ok {
			r = append(r, id.NodeID)
		} else {
			r = append(r, n)
		}
	}
	return r
}

// PoolEvent applies one session event to the world through the real RPC methods with real
// signatures. Events:
//
//	conn X | close X | upd X set | tick d | link W X | peer X k | withdraw W ok|fail | dep W amount
//	forged-upd X | forged-link W X | forged-conn X | forged-withdraw W   (signature of another key)
func PoolEvent(w *PoolWorld, c *Cast, ev string) error {
	f := strings.Fields(ev)
	switch f[0] {
	case "tick":
		d, err := time.ParseDuration(f[1])
		if err != nil {
			panic(err)
		}
		vsched.Advance(d)
		return nil
	case "conn":
		_, err := w.Connect(c.ByName[f[1]], ConnectOpts{Host: strings.HasPrefix(f[1], "H")})
		return err
	case "close": // the connection node X registered on drops (the server's disconnect callback)
		return w.Pool.CloseRemote(w.Host(c.ByName[f[1]].Name).Service())
	case "upd":
		_, err := w.Update(c.ByName[f[1]], c.ids(f[2]), 0)
		return err
	case "link":
		return w.AddNode(c.ByName[f[1]], c.ByName[f[2]].NodeID)
	case "peer":
		var k int
		fmt.Sscanf(f[2], "%d", &k)
		_, err := w.Peer(context.Background(), c.ByName[f[1]], k, "")
		return err
	case "withdraw":
		ok := len(f) < 3 || f[2] != "fail"
		w.SettleOK = func(int) bool { return ok }
		if len(f) > 2 && f[2] == "gone" {
			return w.WithdrawGone(c.ByName[f[1]])
		}
		return w.Withdraw(c.ByName[f[1]])
	case "dep":
		acct := store.Account(c.ByName[f[1]].Wallet)
		d := w.BStore.Deposits[acct]
		if d == nil {
			d = new(big.Int)
		}
		w.BStore.Deposits[acct] = new(big.Int).Add(d, parseAmount(f[2]))
		return nil
	case "forged-upd":
		id := c.ByName[f[1]]
		other := c.ByName["H3"]
		req := pool.UpdateRequest{}
		n := w.nextNonce()
		sig, _ := other.SignAs("vipnode_update", id.NodeID, n, req)
		_, err := w.Pool.Update(context.Background(), sig, id.NodeID, n, req)
		return err
	case "forged-conn":
		id := c.ByName[f[1]]
		other := c.ByName["H3"]
		req := pool.ConnectRequest{}
		n := w.nextNonce()
		sig, _ := other.SignAs("vipnode_connect", id.NodeID, n, req)
		_, err := w.Pool.Connect(CtxWith(w.Host("forger").Service()), sig, id.NodeID, n, req)
		return err
	case "forged-link":
		wl := c.ByName[f[1]]
		other := c.ByName["W2"]
		if f[1] == "W2" {
			other = c.ByName["W1"]
		}
		node := c.ByName[f[2]].NodeID
		n := w.nextNonce()
		sig, _ := other.SignAs("pool_addNode", wl.Wallet, n, node)
		return w.Payment.AddNode(context.Background(), sig, wl.Wallet, n, node)
	case "forged-withdraw":
		wl := c.ByName[f[1]]
		other := c.ByName["W2"]
		if f[1] == "W2" {
			other = c.ByName["W1"]
		}
		n := w.nextNonce()
		sig, _ := other.SignAs("pool_withdraw", wl.Wallet, n)
		return w.Payment.Withdraw(context.Background(), sig, wl.Wallet, n)
	}
	panic("pool event " + ev)
}
