//go:build go1.21

package vh

import (
	"context"
	"encoding/json"
	"fmt"
	"reflect"
	"sort"
	"time"

	"github.com/vipnode/vipnode/v2/agent"
	"github.com/vipnode/vipnode/v2/internal/fakenode"
	"github.com/vipnode/vipnode/v2/internal/verif/vsched"
	"github.com/vipnode/vipnode/v2/jsonrpc2"
	"github.com/vipnode/vipnode/v2/pool/status"
)

// ProdMethods are the RPC names the pool binary documents (pool.go registrations).
var ProdMethods = []string{"vipnode_connect", "vipnode_update", "vipnode_peer", "vipnode_client", "vipnode_host", "vipnode_ping",
	"pool_account", "pool_addNode", "pool_withdraw", "pool_status"}

// RegisterProd registers the pool, payment and status services on srv exactly like runPool does.
func RegisterProd(srv *jsonrpc2.Server, w *PoolWorld) error {
	if err := srv.Register("vipnode_", w.Pool, "connect", "disconnect", "ping", "update", "peer", "client", "host"); err != nil {
		return err
	}
	if err := srv.Register("pool_", w.Payment); err != nil {
		return err
	}
	dashboard := &status.PoolStatus{Store: w.Store, TimeStarted: vsched.Now(), Version: "verif", CacheDuration: time.Minute}
	return srv.Register("pool_", dashboard)
}

// AgentServer registers the agent's reverse service like agentRunner.LoadPool does.
func AgentServer() (*jsonrpc2.Server, *fakenode.FakeNode) {
	node := fakenode.Node(Identities()[1].NodeID)
	a := &agent.Agent{EthNode: node}
	var svc agent.Service = a
	srv := &jsonrpc2.Server{}
	if err := srv.RegisterMethod("vipnode_whitelist", svc, "Whitelist"); err != nil {
		panic(err)
	}
	return srv, node
}

// ParseMessage decodes one JSON-RPC message the way the codecs do.
func ParseMessage(text string) (*jsonrpc2.Message, error) {
	var m jsonrpc2.Message
	if err := json.Unmarshal([]byte(text), &m); err != nil {
		return nil, err
	}
	return &m, nil
}

// ReplyProblem checks the shape of a reply to a request with the given id ("" = none).
func ReplyProblem(reqID string, resp *jsonrpc2.Message) string {
	if resp == nil {
		return "no reply"
	}
	if reqID != "" && string(resp.ID) != reqID {
		return fmt.Sprintf("reply carries id %s, request had %s", string(resp.ID), reqID)
	}
	if resp.Response == nil {
		return "reply has neither result nor error"
	}
	hasResult := len(resp.Result) > 0 && string(resp.Result) != "null"
	if resp.Error != nil && hasResult {
		return "reply has both a result and an error"
	}
	if resp.Error == nil && len(resp.Result) == 0 {
		return "reply has neither result nor error"
	}
	if b, err := json.Marshal(resp); err != nil || !json.Valid(b) {
		return fmt.Sprintf("reply does not encode as JSON: %v", err)
	}
	return ""
}

// Ping calls vipnode_ping on a server and reports whether it answers "pong".
func Ping(srv jsonrpc2.Handler) bool {
	m, _ := ParseMessage(`{"jsonrpc":"2.0","id":999,"method":"vipnode_ping","params":[]}`)
	var r *jsonrpc2.Message
	if p := Recover(func() { r = srv.Handle(context.Background(), m) }); p != "" || r == nil || r.Response == nil {
		return false
	}
	return string(r.Result) == `"pong"`
}

var methodMapType = reflect.TypeOf(map[string]jsonrpc2.Method{})

// RegisteredMethods lists the RPC names a server answers to (its registry, reached by type).
func RegisteredMethods(srv *jsonrpc2.Server) []string {
	f, ok := FieldByType(srv, methodMapType)
	if !ok {
		return nil
	}
	var out []string
	for _, k := range f.MapKeys() {
		out = append(out, k.String())
	}
	sort.Strings(out)
	return out
}
