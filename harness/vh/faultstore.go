//go:build go1.21

package vh

import (
	"errors"
	"fmt"
	"math/big"

	"github.com/vipnode/vipnode/v2/internal/verif/vsched"
	"github.com/vipnode/vipnode/v2/pool/store"
)

// ErrInjected is the error returned by an injected store fault.
var ErrInjected = errors.New("injected store fault")

// FaultStore decorates a store: it counts calls, can fail the FailAt-th call (0-based, -1 = never),
// logs call names, and (optionally) is a scheduling point before every call.
type FaultStore struct {
	Inner  store.Store
	N      int
	FailAt int
	Log    []string
	Points bool
	// Choice: if true, every call asks the explorer (vsched.Choose) whether to fail (deviation cost 1).
	Choice bool
	// OnCall, if set, is told the ordinal (counted from Base) of every call before it is made.
	OnCall func(n int)
	Base   int
}

func NewFaultStore(inner store.Store) *FaultStore { return &FaultStore{Inner: inner, FailAt: -1} }

func (f *FaultStore) hit(name string) bool {
	if f.Points {
		vsched.Yield("store:" + name)
	}
	i := f.N
	if f.OnCall != nil {
		f.OnCall(i - f.Base)
	}
	f.N++
	f.Log = append(f.Log, name)
	if i == f.FailAt {
		return true
	}
	if f.Choice && vsched.Choose(2, "fault:"+name) == 1 {
		return true
	}
	return false
}

func (f *FaultStore) CheckAndSaveNonce(ID string, nonce int64) error {
	if f.hit("CheckAndSaveNonce") {
		return ErrInjected
	}
	return f.Inner.CheckAndSaveNonce(ID, nonce)
}
func (f *FaultStore) GetNode(id store.NodeID) (*store.Node, error) {
	if f.hit("GetNode") {
		return nil, ErrInjected
	}
	return f.Inner.GetNode(id)
}
func (f *FaultStore) SetNode(n store.Node) error {
	if f.hit("SetNode") {
		return ErrInjected
	}
	return f.Inner.SetNode(n)
}
func (f *FaultStore) ActiveHosts(kind string, limit int) ([]store.Node, error) {
	if f.hit("ActiveHosts") {
		return nil, ErrInjected
	}
	return f.Inner.ActiveHosts(kind, limit)
}
func (f *FaultStore) NodePeers(id store.NodeID) ([]store.Node, error) {
	if f.hit("NodePeers") {
		return nil, ErrInjected
	}
	return f.Inner.NodePeers(id)
}
func (f *FaultStore) UpdateNodePeers(id store.NodeID, peers []string, b uint64) ([]store.NodeID, error) {
	if f.hit("UpdateNodePeers") {
		return nil, ErrInjected
	}
	return f.Inner.UpdateNodePeers(id, peers, b)
}
func (f *FaultStore) GetNodeBalance(id store.NodeID) (store.Balance, error) {
	if f.hit("GetNodeBalance") {
		return store.Balance{}, ErrInjected
	}
	return f.Inner.GetNodeBalance(id)
}
func (f *FaultStore) AddNodeBalance(id store.NodeID, c *big.Int) error {
	if f.hit(fmt.Sprintf("AddNodeBalance(%s,%s)", Short(string(id)), c)) {
		return ErrInjected
	}
	return f.Inner.AddNodeBalance(id, c)
}
func (f *FaultStore) GetAccountBalance(a store.Account) (store.Balance, error) {
	if f.hit("GetAccountBalance") {
		return store.Balance{}, ErrInjected
	}
	return f.Inner.GetAccountBalance(a)
}
func (f *FaultStore) AddAccountBalance(a store.Account, c *big.Int) error {
	if f.hit("AddAccountBalance") {
		return ErrInjected
	}
	return f.Inner.AddAccountBalance(a, c)
}
func (f *FaultStore) AddAccountNode(a store.Account, id store.NodeID) error {
	if f.hit("AddAccountNode") {
		return ErrInjected
	}
	return f.Inner.AddAccountNode(a, id)
}
func (f *FaultStore) IsAccountNode(a store.Account, id store.NodeID) error {
	if f.hit("IsAccountNode") {
		return ErrInjected
	}
	return f.Inner.IsAccountNode(a, id)
}
func (f *FaultStore) GetAccountNodes(a store.Account) ([]store.NodeID, error) {
	if f.hit("GetAccountNodes") {
		return nil, ErrInjected
	}
	return f.Inner.GetAccountNodes(a)
}
func (f *FaultStore) Stats() (*store.Stats, error) {
	if f.hit("Stats") {
		return nil, ErrInjected
	}
	return f.Inner.Stats()
}
func (f *FaultStore) Close() error { return f.Inner.Close() }
