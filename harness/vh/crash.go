//go:build go1.21

package vh

import (
	"bufio"
	"fmt"
	"io"
	"os"
	"os/exec"
	"path/filepath"
	"strconv"
	"strings"
	"sync/atomic"
	"syscall"
	"time"

	badgerdb "github.com/dgraph-io/badger/v2"
	"github.com/dgraph-io/badger/v2/options"
	"github.com/vipnode/vipnode/v2/internal/verif/vsched"
	"github.com/vipnode/vipnode/v2/pool/store"
	"github.com/vipnode/vipnode/v2/pool/store/badger"
)

// CrashChild is the body of the child process of a crash experiment: it opens the on-disk store
// exactly like pool.go does, applies the operations, reports the size of every file after each
// acknowledged operation and then waits to be killed (it never closes the database).
func CrashChild(dir string, ops []string) {
	vsched.SetVirtualClock(true)
	vsched.ResetClock(0)
	st, err := OpenBadgerDir(dir)
	if err != nil {
		fmt.Printf("ERROR open: %v\n", err)
		os.Exit(3)
	}
	out := bufio.NewWriter(os.Stdout)
	report := func(tag string) {
		fmt.Fprintf(out, "%s %s\n", tag, dirSizes(dir))
		out.Flush()
	}
	report("MARK open")
	for _, op := range ops {
		if op == "reopen" {
			st.Close()
			st, err = OpenBadgerDir(dir)
			if err != nil {
				fmt.Printf("ERROR reopen: %v\n", err)
				os.Exit(3)
			}
			report("MARK reopen")
			continue
		}
		if d := TickOf(op); d > 0 {
			vsched.Advance(d)
		}
		res := ApplyStoreOp(st, op)
		report("MARK " + strings.ReplaceAll(res, " ", "_"))
	}
	fmt.Fprintln(out, "READY")
	out.Flush()
	select {}
}

func dirSizes(dir string) string {
	var parts []string
	es, _ := os.ReadDir(dir)
	for _, e := range es {
		fi, err := e.Info()
		if err == nil {
			parts = append(parts, fmt.Sprintf("%s=%d", e.Name(), fi.Size()))
		}
	}
	return strings.Join(parts, ",")
}

// CrashRun is the result of one child run.
type CrashRun struct {
	Dir     string
	Results []string           // per op: the acknowledged result
	Marks   []map[string]int64 // file sizes after open (index 0) and after each op (index i+1)
}

// RunCrashChild starts the child (this same binary with -crashchild), collects the marks, kills it
// with SIGKILL once it reported READY.
func RunCrashChild(dir string, ops []string) (*CrashRun, error) {
	self, err := os.Executable()
	if err != nil {
		return nil, err
	}
	cmd := exec.Command(self, "-crashchild", dir, "-crashops", strings.Join(ops, ";"))
	cmd.Env = append(os.Environ(), "VERIF_NO_RLIMIT=")
	cmd.SysProcAttr = &syscall.SysProcAttr{Pdeathsig: syscall.SIGKILL}
	stdout, err := cmd.StdoutPipe()
	if err != nil {
		return nil, err
	}
	if err := cmd.Start(); err != nil {
		return nil, err
	}
	run := &CrashRun{Dir: dir}
	sc := bufio.NewScanner(stdout)
	ready := false
	done := make(chan struct{})
	go func() {
		defer close(done)
		for sc.Scan() {
			line := sc.Text()
			switch {
			case strings.HasPrefix(line, "MARK "):
				f := strings.SplitN(line, " ", 3)
				sizes := map[string]int64{}
				if len(f) > 2 {
					for _, kv := range strings.Split(f[2], ",") {
						if i := strings.LastIndex(kv, "="); i > 0 {
							n, _ := strconv.ParseInt(kv[i+1:], 10, 64)
							sizes[kv[:i]] = n
						}
					}
				}
				run.Marks = append(run.Marks, sizes)
				if len(run.Marks) > 1 {
					run.Results = append(run.Results, strings.ReplaceAll(f[1], "_", " "))
				}
			case line == "READY":
				ready = true
				return
			case strings.HasPrefix(line, "ERROR"):
				return
			}
		}
	}()
	select {
	case <-done:
	case <-time.After(15 * time.Minute): // generous: the machine may be heavily loaded
	}
	cmd.Process.Signal(syscall.SIGKILL)
	cmd.Wait()
	if !ready {
		return run, fmt.Errorf("crash child did not finish its history")
	}
	return run, nil
}

// MakeImage materialises a crash image: a copy of dir (without LOCK) in which every file is cut
// to the size given in sizes (files absent from sizes are left out; vlogOverride >= 0 replaces
// the size of the .vlog file).
func MakeImage(src, dst string, sizes map[string]int64, vlogOverride int64) error {
	if err := os.MkdirAll(dst, 0700); err != nil {
		return err
	}
	lastVlog := ""
	for name := range sizes {
		if filepath.Ext(name) == ".vlog" && name > lastVlog {
			lastVlog = name
		}
	}
	for name, size := range sizes {
		if name == "LOCK" {
			continue
		}
		if name == lastVlog && vlogOverride >= 0 {
			size = vlogOverride
		}
		in, err := os.Open(filepath.Join(src, name))
		if err != nil {
			return err
		}
		out, err := os.Create(filepath.Join(dst, name))
		if err != nil {
			in.Close()
			return err
		}
		_, err = io.CopyN(out, in, size)
		in.Close()
		out.Close()
		if err != nil && err != io.EOF {
			return err
		}
	}
	return nil
}

// VlogSize returns the size of the newest value log in a mark.
func VlogSize(m map[string]int64) int64 {
	last, size := "", int64(-1)
	for n, s := range m {
		if filepath.Ext(n) == ".vlog" && n > last {
			last, size = n, s
		}
	}
	return size
}

// OpenRecovered opens a crash image through the real driver. If production options refuse a torn
// tail (badger.ErrTruncateNeeded) the image is reopened with WithTruncate(true); refused reports it.
func OpenRecovered(dir string) (st store.Store, refused bool, err error) {
	// Recovery side: same format and replay logic as production, but without memory-mapping 2 GB of
	// value log per image and without the L0 compaction on Close (neither affects what is read).
	opts := badgerdb.DefaultOptions(dir).WithLogger(nil).WithCompactL0OnClose(false).
		WithValueLogLoadingMode(options.FileIO).WithTableLoadingMode(options.FileIO).
		WithMaxCacheSize(1 << 20).WithMaxTableSize(1 << 20).WithNumMemtables(1).WithNumCompactors(1)
	// badger 2.0.3 does not release what an Open that ends in ErrTruncateNeeded has started (a dozen
	// goroutines, memtable, caches: ~5 MB each, thousands of torn images per unit). So the refusal
	// is not provoked every time: the image is opened WithTruncate(true) at once, and "production
	// Open would have refused" is read off the value log having been cut during the replay. The
	// first few torn images of every process are still opened the production way first, and the two
	// answers must agree.
	probe := prodOpenProbes.Add(1) <= 8
	probedRefused := false
	if probe {
		st, err = badger.Open(opts)
		if err == nil {
			return st, false, nil
		}
		if !strings.Contains(strings.ToLower(err.Error()), "truncate") {
			return nil, false, err
		}
		probedRefused = true
	}
	before := vlogSizes(dir)
	st, err = badger.Open(opts.WithTruncate(true))
	if err != nil {
		return nil, probedRefused, err
	}
	for name, size := range vlogSizes(dir) {
		if b, ok := before[name]; ok && size < b {
			refused = true
		}
	}
	if probe && probedRefused != refused {
		st.Close()
		panic(fmt.Sprintf("vh: production Open refused=%v but value log cut during recovery=%v for %s", probedRefused, refused, dir))
	}
	return st, refused, nil
}

var prodOpenProbes atomic.Int32

func vlogSizes(dir string) map[string]int64 {
	out := map[string]int64{}
	ents, _ := os.ReadDir(dir)
	for _, e := range ents {
		if strings.HasSuffix(e.Name(), ".vlog") {
			if fi, err := e.Info(); err == nil {
				out[e.Name()] = fi.Size()
			}
		}
	}
	return out
}
