//go:build go1.21

package vh

import (
	"fmt"
	"math/big"
	"sort"
	"strings"
	"time"

	"github.com/vipnode/vipnode/v2/internal/verif/vsched"
	"github.com/vipnode/vipnode/v2/pool/store"
)

// Store operations as strings (so that histories are replayable artefacts):
//
//	set <id> <hg|hp|cl|hs|cs>      SetNode: host-geth / host-parity / client(geth) fresh, host-geth stale, client stale
//	addnb <id> <amount>            AddNodeBalance
//	addab <acc> <amount>           AddAccountBalance
//	link <acc> <id>                AddAccountNode
//	upd <id> <p1,p2,...|->  [blk]  UpdateNodePeers
//	nonce <id> <kind>              CheckAndSaveNonce (kinds as in C05)
//	tick <duration>                advance the virtual clock
//
// The id "_" stands for the empty id.

func opID(s string) string {
	if s == "_" {
		return ""
	}
	return s
}

// NodeOfKind builds the node record for a set op.
func NodeOfKind(id, kind string) store.Node {
	n := store.Node{ID: store.NodeID(opID(id)), LastSeen: vsched.Now(), Kind: "geth", URI: "enode://" + id + "@10.0.0.1:30303", NodeVersion: "v1"}
	switch kind {
	case "hg":
		n.IsHost = true
	case "hp":
		n.IsHost, n.Kind = true, "parity"
	case "cl":
	case "hs":
		n.IsHost = true
		n.LastSeen = vsched.Now().Add(-store.ExpireInterval - time.Second)
	case "cs":
		n.LastSeen = vsched.Now().Add(-store.ExpireInterval - time.Second)
	default:
		panic("node kind " + kind)
	}
	return n
}

func parseAmount(s string) *big.Int {
	if strings.HasPrefix(s, "2^") {
		var e uint
		fmt.Sscanf(s[2:], "%d", &e)
		return new(big.Int).Lsh(big.NewInt(1), e)
	}
	if strings.HasPrefix(s, "-2^") {
		var e uint
		fmt.Sscanf(s[3:], "%d", &e)
		return new(big.Int).Neg(new(big.Int).Lsh(big.NewInt(1), e))
	}
	v, ok := new(big.Int).SetString(s, 10)
	if !ok {
		panic("amount " + s)
	}
	return v
}

// NonceOfKind mirrors C05's nonce kinds.
func NonceOfKind(kind string) int64 {
	now := vsched.Now().UnixNano()
	n0 := vsched.Base().UnixNano() + int64(time.Second)
	switch kind {
	case "n":
		return n0
	case "n+1":
		return n0 + 1
	case "n-1":
		return n0 - 1
	case "n.5": // not on a whole second (the persistent driver's records expire on whole seconds)
		return n0 + int64(500*time.Millisecond)
	case "stale":
		return now - int64(store.ExpireNonce) - 1
	case "fresh":
		return now - int64(store.ExpireNonce) + 1
	case "far":
		return now + int64(time.Hour)
	}
	panic("nonce kind " + kind)
}

func errStr(err error) string {
	if err == nil {
		return "ok"
	}
	return "err:" + err.Error()
}

// ApplyStoreOpModel applies op to the model and returns its observable result.
func ApplyStoreOpModel(m *StoreModel, op string) string {
	f := strings.Fields(op)
	switch f[0] {
	case "tick":
		return "ok"
	case "set":
		return errStr(m.SetNode(NodeOfKind(f[1], f[2])))
	case "addnb":
		return errStr(m.AddNodeBalance(store.NodeID(opID(f[1])), parseAmount(f[2])))
	case "addab":
		return errStr(m.AddAccountBalance(store.Account(f[1]), parseAmount(f[2])))
	case "link":
		return errStr(m.AddAccountNode(store.Account(f[1]), store.NodeID(opID(f[2]))))
	case "upd":
		var blk uint64
		if len(f) > 3 {
			fmt.Sscanf(f[3], "%d", &blk)
		}
		in, err := m.UpdateNodePeers(store.NodeID(opID(f[1])), peerList(f[2]), blk)
		if err != nil {
			return errStr(err)
		}
		return "inactive=" + strings.Join(in, ",")
	case "nonce":
		return errStr(m.CheckAndSaveNonce(f[1], NonceOfKind(f[2])))
	}
	panic("op " + op)
}

func peerList(s string) []string {
	if s == "-" {
		return nil
	}
	return strings.Split(s, ",")
}

// ApplyStoreOp applies op to a real store and returns its observable result in the same format.
// (tick is applied by the caller once, not per store.)
func ApplyStoreOp(s store.Store, op string) (res string) {
	defer func() {
		if r := recover(); r != nil {
			res = fmt.Sprintf("panic:%v", r)
		}
	}()
	f := strings.Fields(op)
	switch f[0] {
	case "tick":
		return "ok"
	case "set":
		return errStr(s.SetNode(NodeOfKind(f[1], f[2])))
	case "addnb":
		return errStr(s.AddNodeBalance(store.NodeID(opID(f[1])), parseAmount(f[2])))
	case "addab":
		return errStr(s.AddAccountBalance(store.Account(f[1]), parseAmount(f[2])))
	case "link":
		return errStr(s.AddAccountNode(store.Account(f[1]), store.NodeID(opID(f[2]))))
	case "upd":
		var blk uint64
		if len(f) > 3 {
			fmt.Sscanf(f[3], "%d", &blk)
		}
		in, err := s.UpdateNodePeers(store.NodeID(opID(f[1])), peerList(f[2]), blk)
		if err != nil {
			return errStr(err)
		}
		ss := make([]string, len(in))
		for i, x := range in {
			ss[i] = string(x)
		}
		sort.Strings(ss)
		return "inactive=" + strings.Join(ss, ",")
	case "nonce":
		return errStr(s.CheckAndSaveNonce(f[1], NonceOfKind(f[2])))
	}
	panic("op " + op)
}

// TickOf returns the duration of a tick op (0 if op is not a tick).
func TickOf(op string) time.Duration {
	f := strings.Fields(op)
	if f[0] != "tick" {
		return 0
	}
	d, err := time.ParseDuration(f[1])
	if err != nil {
		panic(err)
	}
	return d
}
