//go:build go1.21

package vh

import (
	"errors"
	"io"
	"net"
	"os"
	"sync"
	"time"

	"github.com/vipnode/vipnode/v2/internal/verif/vsched"
)

// pipeHalf is one direction of an in-memory connection: a byte queue whose reader can be forced
// to see the stream cut at chosen offsets (Cuts), with everything between two cuts delivered in
// a single Read (so "no cut" means fully coalesced delivery).
type pipeHalf struct {
	mu     sync.Mutex
	cond   *sync.Cond
	buf    []byte
	closed bool
	// chunk control (armed by Arm): offsets are relative to the stream position at arming time
	armed     bool
	delivered int   // bytes handed to the reader since arming
	cuts      []int // ascending offsets at which a Read must end
	total     int   // total bytes expected after arming (0 = unknown: deliver what is there)
	written   int   // bytes written since arming
	// Capture: writes are appended to Captured instead of the queue (and are scheduling points)
	capture  bool
	Captured []byte
	Writes   []int // size of each Write call in capture mode
	// read deadline (net/http's hijack aborts its background read with a deadline in the past)
	rdeadline time.Time
}

func (h *pipeHalf) setReadDeadline(t time.Time) {
	h.mu.Lock()
	h.rdeadline = t
	h.cond.Broadcast()
	h.mu.Unlock()
	if !t.IsZero() {
		if d := time.Until(t); d > 0 {
			time.AfterFunc(d+time.Millisecond, func() {
				h.mu.Lock()
				h.cond.Broadcast()
				h.mu.Unlock()
			})
		}
	}
}

func (h *pipeHalf) expired() bool {
	return !h.rdeadline.IsZero() && !time.Now().Before(h.rdeadline)
}

func newHalf() *pipeHalf {
	h := &pipeHalf{}
	h.cond = sync.NewCond(&h.mu)
	return h
}

func (h *pipeHalf) write(p []byte) (int, error) {
	h.mu.Lock()
	if h.capture {
		h.mu.Unlock()
		vsched.Yield("conn-write")
		h.mu.Lock()
		h.Captured = append(h.Captured, p...)
		h.Writes = append(h.Writes, len(p))
		h.mu.Unlock()
		return len(p), nil
	}
	defer h.mu.Unlock()
	if h.closed {
		return 0, io.ErrClosedPipe
	}
	h.buf = append(h.buf, p...)
	if h.armed {
		h.written += len(p)
	}
	h.cond.Broadcast()
	return len(p), nil
}

func (h *pipeHalf) read(p []byte) (int, error) {
	h.mu.Lock()
	defer h.mu.Unlock()
	for {
		if h.expired() {
			return 0, os.ErrDeadlineExceeded
		}
		if !h.armed {
			if len(h.buf) > 0 {
				n := copy(p, h.buf)
				h.buf = h.buf[n:]
				return n, nil
			}
			if h.closed {
				return 0, io.EOF
			}
			h.cond.Wait()
			continue
		}
		// armed: the current segment ends at the next cut (or at total)
		end := h.total
		for _, c := range h.cuts {
			if c > h.delivered {
				end = c
				break
			}
		}
		want := end - h.delivered
		if h.total == 0 || want <= 0 {
			want = len(h.buf)
			if want == 0 && !h.closed {
				h.cond.Wait()
				continue
			}
		}
		if len(h.buf) >= want && want > 0 {
			n := copy(p, h.buf[:want])
			h.buf = h.buf[n:]
			h.delivered += n
			return n, nil
		}
		if h.closed {
			if len(h.buf) > 0 {
				n := copy(p, h.buf)
				h.buf = h.buf[n:]
				h.delivered += n
				return n, nil
			}
			return 0, io.EOF
		}
		h.cond.Wait()
	}
}

func (h *pipeHalf) close() {
	h.mu.Lock()
	h.closed = true
	h.cond.Broadcast()
	h.mu.Unlock()
}

// MemConn is one end of an in-memory duplex connection.
type MemConn struct {
	rd, wr *pipeHalf
	name   string
}

// NewMemConnPair returns both ends.
func NewMemConnPair() (*MemConn, *MemConn) {
	ab, ba := newHalf(), newHalf()
	return &MemConn{rd: ba, wr: ab, name: "a"}, &MemConn{rd: ab, wr: ba, name: "b"}
}

func (c *MemConn) Read(p []byte) (int, error)  { return c.rd.read(p) }
func (c *MemConn) Write(p []byte) (int, error) { return c.wr.write(p) }
func (c *MemConn) Close() error {
	c.wr.close()
	c.rd.close()
	return nil
}
func (c *MemConn) CloseWrite()                        { c.wr.close() }
func (c *MemConn) LocalAddr() net.Addr                { return memAddr("mem-" + c.name) }
func (c *MemConn) RemoteAddr() net.Addr               { return memAddr("203.0.113.9:5555") }
func (c *MemConn) SetDeadline(t time.Time) error      { c.rd.setReadDeadline(t); return nil }
func (c *MemConn) SetReadDeadline(t time.Time) error  { c.rd.setReadDeadline(t); return nil }
func (c *MemConn) SetWriteDeadline(t time.Time) error { return nil }

// ArmIncoming makes this end's reader see the next total bytes cut exactly at the given offsets.
func (c *MemConn) ArmIncoming(total int, cuts []int) {
	h := c.rd
	h.mu.Lock()
	h.armed, h.delivered, h.cuts, h.total, h.written = true, 0, cuts, total, 0
	h.cond.Broadcast()
	h.mu.Unlock()
}

// CaptureOutgoing diverts this end's writes into a buffer; every Write is a scheduling point.
func (c *MemConn) CaptureOutgoing() {
	c.wr.mu.Lock()
	c.wr.capture = true
	c.wr.mu.Unlock()
}

// Captured returns the diverted bytes and the size of each Write call.
func (c *MemConn) Captured() ([]byte, []int) {
	c.wr.mu.Lock()
	defer c.wr.mu.Unlock()
	return append([]byte{}, c.wr.Captured...), append([]int{}, c.wr.Writes...)
}

// ReleaseCaptured stops capturing and delivers the captured bytes to the peer.
func (c *MemConn) ReleaseCaptured() {
	c.wr.mu.Lock()
	b := c.wr.Captured
	c.wr.capture = false
	c.wr.Captured = nil
	c.wr.mu.Unlock()
	c.wr.write(b)
}

type memAddr string

func (a memAddr) Network() string { return "mem" }
func (a memAddr) String() string  { return string(a) }

// MemListener hands out pre-made connections to an http.Server.
type MemListener struct {
	ch     chan net.Conn
	closed chan struct{}
	once   sync.Once
}

func NewMemListener() *MemListener {
	return &MemListener{ch: make(chan net.Conn, 4), closed: make(chan struct{})}
}
func (l *MemListener) Accept() (net.Conn, error) {
	select {
	case c := <-l.ch:
		return c, nil
	case <-l.closed:
		return nil, errors.New("listener closed")
	}
}
func (l *MemListener) Close() error   { l.once.Do(func() { close(l.closed) }); return nil }
func (l *MemListener) Addr() net.Addr { return memAddr("mem-listener") }

// Dial creates a connection pair, gives one end to the listener and returns the other.
func (l *MemListener) Dial() (*MemConn, *MemConn) {
	a, b := NewMemConnPair()
	l.ch <- b
	return a, b
}
