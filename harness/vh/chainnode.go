//go:build go1.21

package vh

import (
	"context"
	"errors"
	"fmt"
	"math/big"
	"net"
	"net/http"
	"os"
	"path/filepath"
	"sync"
	"sync/atomic"

	ethereum "github.com/ethereum/go-ethereum"
	"github.com/ethereum/go-ethereum/accounts/abi/bind"
	"github.com/ethereum/go-ethereum/accounts/abi/bind/backends"
	"github.com/ethereum/go-ethereum/accounts/keystore"
	"github.com/ethereum/go-ethereum/common"
	"github.com/ethereum/go-ethereum/common/hexutil"
	"github.com/ethereum/go-ethereum/core"
	"github.com/ethereum/go-ethereum/core/types"
	"github.com/ethereum/go-ethereum/crypto"
	"github.com/ethereum/go-ethereum/eth/filters"
	"github.com/ethereum/go-ethereum/rlp"
	"github.com/ethereum/go-ethereum/rpc"
	"github.com/vipnode/vipnode-contract/go/vipnodepool"
)

// ChainNode is an Ethereum node for the real pool binary to talk to (--contract.rpc): the part of
// the eth_/net_ JSON-RPC API that ethclient and the contract bindings use, served over WebSocket
// from go-ethereum's simulated chain with the real VipnodePool contract deployed on it. Every
// transaction the node accepts is mined at once.
type ChainNode struct {
	Backend  *backends.SimulatedBackend
	Address  common.Address
	Contract *vipnodepool.VipnodePool
	Operator *Ident
	URL      string // ws://127.0.0.1:port
	// LoseSendReplies: while non-zero the node accepts (and mines) raw transactions but answers
	// the sender with an error, as if the reply had been lost on the way back.
	LoseSendReplies atomic.Int32
	Sent            atomic.Int32 // raw transactions accepted

	mu  sync.Mutex // the simulated backend is not safe for concurrent Commit / calls from several connections
	ln  net.Listener
	srv *http.Server
	rpc *rpc.Server
}

type chainNetAPI struct{}

func (chainNetAPI) Version() string { return "4" } // rinkeby

type chainCallArgs struct {
	From     *common.Address `json:"from"`
	To       *common.Address `json:"to"`
	Gas      *hexutil.Uint64 `json:"gas"`
	GasPrice *hexutil.Big    `json:"gasPrice"`
	Value    *hexutil.Big    `json:"value"`
	Data     *hexutil.Bytes  `json:"data"`
}

func (a chainCallArgs) msg() ethereum.CallMsg {
	m := ethereum.CallMsg{To: a.To}
	if a.From != nil {
		m.From = *a.From
	}
	if a.Gas != nil {
		m.Gas = uint64(*a.Gas)
	}
	if a.GasPrice != nil {
		m.GasPrice = (*big.Int)(a.GasPrice)
	}
	if a.Value != nil {
		m.Value = (*big.Int)(a.Value)
	}
	if a.Data != nil {
		m.Data = *a.Data
	}
	return m
}

type chainEthAPI struct{ n *ChainNode }

func (a *chainEthAPI) Call(ctx context.Context, args chainCallArgs, block string) (hexutil.Bytes, error) {
	a.n.mu.Lock()
	defer a.n.mu.Unlock()
	if block == "pending" {
		return a.n.Backend.PendingCallContract(ctx, args.msg())
	}
	return a.n.Backend.CallContract(ctx, args.msg(), nil)
}

func (a *chainEthAPI) EstimateGas(ctx context.Context, args chainCallArgs) (hexutil.Uint64, error) {
	a.n.mu.Lock()
	defer a.n.mu.Unlock()
	gas, err := a.n.Backend.EstimateGas(ctx, args.msg())
	return hexutil.Uint64(gas), err
}

func (a *chainEthAPI) GetCode(ctx context.Context, addr common.Address, block string) (hexutil.Bytes, error) {
	a.n.mu.Lock()
	defer a.n.mu.Unlock()
	return a.n.Backend.CodeAt(ctx, addr, nil)
}

func (a *chainEthAPI) GetBalance(ctx context.Context, addr common.Address, block string) (*hexutil.Big, error) {
	a.n.mu.Lock()
	defer a.n.mu.Unlock()
	b, err := a.n.Backend.BalanceAt(ctx, addr, nil)
	return (*hexutil.Big)(b), err
}

func (a *chainEthAPI) GetTransactionCount(ctx context.Context, addr common.Address, block string) (hexutil.Uint64, error) {
	a.n.mu.Lock()
	defer a.n.mu.Unlock()
	nonce, err := a.n.Backend.PendingNonceAt(ctx, addr)
	return hexutil.Uint64(nonce), err
}

func (a *chainEthAPI) GasPrice(ctx context.Context) (*hexutil.Big, error) {
	p, err := a.n.Backend.SuggestGasPrice(ctx)
	return (*hexutil.Big)(p), err
}

func (a *chainEthAPI) SendRawTransaction(ctx context.Context, raw hexutil.Bytes) (common.Hash, error) {
	tx := new(types.Transaction)
	if err := rlp.DecodeBytes(raw, tx); err != nil {
		return common.Hash{}, err
	}
	a.n.mu.Lock()
	err := a.n.Backend.SendTransaction(ctx, tx)
	if err == nil {
		a.n.Backend.Commit()
		a.n.Sent.Add(1)
	}
	a.n.mu.Unlock()
	if err != nil {
		return common.Hash{}, err
	}
	if a.n.LoseSendReplies.Load() != 0 {
		return common.Hash{}, errors.New("chain node: connection reset before the reply was written")
	}
	return tx.Hash(), nil
}

// Logs serves eth_subscribe("logs", criteria).
func (a *chainEthAPI) Logs(ctx context.Context, crit filters.FilterCriteria) (*rpc.Subscription, error) {
	notifier, ok := rpc.NotifierFromContext(ctx)
	if !ok {
		return nil, rpc.ErrNotificationsUnsupported
	}
	sub := notifier.CreateSubscription()
	ch := make(chan types.Log, 256)
	logs, err := a.n.Backend.SubscribeFilterLogs(context.Background(), ethereum.FilterQuery(crit), ch)
	if err != nil {
		return nil, err
	}
	go func() {
		defer logs.Unsubscribe()
		for {
			select {
			case l := <-ch:
				notifier.Notify(sub.ID, &l)
			case <-sub.Err():
				return
			case <-notifier.Closed():
				return
			case <-logs.Err():
				return
			}
		}
	}()
	return sub, nil
}

// NewChainNode deploys the contract (operator = identity 6) on a fresh simulated chain on which
// the given identities hold 4 ether each, and serves it on a loopback WebSocket.
func NewChainNode(funded ...*Ident) (*ChainNode, error) {
	op := Identities()[6]
	rich := big.NewInt(4e18) // (below 2^63: the simulated backend's gas estimation works in 64 bits)
	alloc := core.GenesisAlloc{crypto.PubkeyToAddress(op.Key.PublicKey): {Balance: rich}}
	for _, id := range funded {
		alloc[crypto.PubkeyToAddress(id.Key.PublicKey)] = core.GenesisAccount{Balance: rich}
	}
	backend := backends.NewSimulatedBackend(alloc, 8000000)
	addr, _, contract, err := vipnodepool.DeployVipnodePool(bind.NewKeyedTransactor(op.Key), backend, crypto.PubkeyToAddress(op.Key.PublicKey))
	if err != nil {
		return nil, err
	}
	backend.Commit()
	n := &ChainNode{Backend: backend, Address: addr, Contract: contract, Operator: op}
	n.rpc = rpc.NewServer()
	if err := n.rpc.RegisterName("eth", &chainEthAPI{n}); err != nil {
		return nil, err
	}
	if err := n.rpc.RegisterName("net", chainNetAPI{}); err != nil {
		return nil, err
	}
	n.ln, err = net.Listen("tcp", "127.0.0.1:0")
	if err != nil {
		return nil, err
	}
	n.srv = &http.Server{Handler: n.rpc.WebsocketHandler([]string{"*"})}
	go n.srv.Serve(n.ln)
	n.URL = "ws://" + n.ln.Addr().String()
	return n, nil
}

// Close stops serving and releases the chain.
func (n *ChainNode) Close() {
	n.srv.Close()
	n.rpc.Stop()
	n.mu.Lock()
	n.Backend.Close()
	releaseChainCaches(n.Backend)
	n.mu.Unlock()
}

// Deposit sends addBalance from the wallet (mined at once).
func (n *ChainNode) Deposit(id *Ident, amount *big.Int) error {
	n.mu.Lock()
	defer n.mu.Unlock()
	auth := bind.NewKeyedTransactor(id.Key)
	auth.Value = amount
	_, err := n.Contract.AddBalance(auth)
	n.Backend.Commit()
	return err
}

// OnChain returns the wallet's deposit in the contract and the wallet's own funds.
func (n *ChainNode) OnChain(id *Ident) (deposit, funds *big.Int) {
	n.mu.Lock()
	defer n.mu.Unlock()
	addr := crypto.PubkeyToAddress(id.Key.PublicKey)
	r, err := n.Contract.Accounts(nil, addr)
	if err != nil {
		panic(err)
	}
	f, err := n.Backend.BalanceAt(context.Background(), addr, nil)
	if err != nil {
		panic(err)
	}
	return r.Balance, f
}

// ContractFunds returns the ether the contract holds.
func (n *ChainNode) ContractFunds() *big.Int {
	n.mu.Lock()
	defer n.mu.Unlock()
	f, err := n.Backend.BalanceAt(context.Background(), n.Address, nil)
	if err != nil {
		panic(err)
	}
	return f
}

// OperatorKeystore writes the operator's key as an encrypted keystore file (what
// --contract.keystore expects) and returns its path.
func (n *ChainNode) OperatorKeystore(dir, passphrase string) (string, error) {
	ksDir := filepath.Join(dir, "keystore")
	ks := keystore.NewKeyStore(ksDir, keystore.LightScryptN, keystore.LightScryptP)
	acct, err := ks.ImportECDSA(n.Operator.Key, passphrase)
	if err != nil {
		return "", err
	}
	if _, err := os.Stat(acct.URL.Path); err != nil {
		return "", fmt.Errorf("keystore file: %v", err)
	}
	return acct.URL.Path, nil
}
