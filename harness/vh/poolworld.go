//go:build go1.21

package vh

import (
	"context"
	"errors"
	"fmt"
	"math/big"
	"reflect"
	"sort"
	"strings"
	"sync"
	"sync/atomic"
	"time"

	"github.com/vipnode/vipnode/v2/ethnode"
	"github.com/vipnode/vipnode/v2/internal/verif/vsched"
	"github.com/vipnode/vipnode/v2/jsonrpc2"
	"github.com/vipnode/vipnode/v2/pool"
	"github.com/vipnode/vipnode/v2/pool/balance"
	"github.com/vipnode/vipnode/v2/pool/payment"
	"github.com/vipnode/vipnode/v2/pool/store"
)

// PoolConfig configures a pool world.
type PoolConfig struct {
	Driver          string
	Price           *big.Int      // credit per interval (nil: 1000)
	Interval        time.Duration // 0: 1 minute
	MinBalance      *big.Int      // nil: off
	NoManager       bool          // use balance.NoBalance
	MaxRequestHosts int
	WithdrawMin     *big.Int
	WithdrawFee     *big.Int // flat fee (nil: none)
	WrapStore       func(store.Store) store.Store
	Slot            int // badger instance slot (worlds that coexist need different slots)
	// NoBlockProvider leaves VipnodePool.BlockNumberProvider unset (as pool.New does). By default
	// the world wires it the way the binary's runPool does: from the store's Stats.
	NoBlockProvider bool
}

// Settlement is one recorded settle call.
type Settlement struct {
	Account    store.Account
	Amount     string
	NewBalance string
	Failed     bool
}

// PoolWorld is a real pool + balance manager + payment service over a real store.
type PoolWorld struct {
	Cfg                           PoolConfig
	Store                         store.Store // what the pool uses (possibly wrapped)
	Raw                           store.Store // the driver itself
	BStore                        *DepositStore
	Pool                          *pool.VipnodePool
	Payment                       *payment.PaymentService
	Settles                       []Settlement
	SettleOK                      func(n int) bool // nil: always ok; n = ordinal of the settle attempt (0-based)
	OnSettle                      func()           // called when a settlement begins (e.g. the requester hangs up just then)
	settleStarted, settleFinished atomic.Int64
	Hosts                         map[string]*FakeHost
	Step                          int // logical step counter for ordering observations
	nonceSeq                      int64
	// YieldPoints makes every BalanceStore call and the settlement a scheduling point.
	YieldPoints bool
}

// DepositStore is the pool's BalanceStore as wired in production: the real payment.contractPayment
// proxy (its GetNodeBalance / GetAccountBalance / balance cache) over the account store, with the
// chain replaced by the Deposits map. A changed entry of Deposits reaches the proxy's cache the way
// the contract's Balance event does, before the next read. Values are produced like go-ethereum's
// ABI decoder produces them (SetBytes of a 32-byte word, i.e. with spare capacity), and - as in the
// real proxy - a Balance handed out shares its deposit digits with the cached value.
type DepositStore struct {
	store.AccountStore
	Deposits map[store.Account]*big.Int
	W        *PoolWorld
	// FailBalanceOps: that many of the next balance updates fail (the ledger store is unreachable)
	FailBalanceOps int

	cp   store.BalanceStore
	emit func(store.Account, *big.Int)
	seen map[store.Account]string
}

func (d *DepositStore) point(what string) {
	if d.W != nil && d.W.YieldPoints {
		vsched.Yield("balancestore:" + what)
	}
}

var depositMu sync.Mutex // the free-running -race pass calls the world from several goroutines

// chainWord returns v the way the ABI decoder would.
func chainWord(v *big.Int) *big.Int {
	if v == nil || v.Sign() < 0 {
		return new(big.Int).Set(v)
	}
	var word [32]byte
	v.FillBytes(word[:])
	return new(big.Int).SetBytes(word[:])
}

func (d *DepositStore) init() {
	if d.cp != nil {
		return
	}
	d.seen = map[store.Account]string{}
	d.cp, d.emit = payment.VerifContractPayment(d.AccountStore, func(a store.Account) (*big.Int, error) {
		if !vsched.Active() {
			depositMu.Lock()
			defer depositMu.Unlock()
		}
		if v, ok := d.Deposits[a]; ok {
			return chainWord(v), nil
		}
		return chainWord(new(big.Int)), nil
	})
}

// sync delivers a Balance event for every account whose on-chain deposit changed.
func (d *DepositStore) sync() {
	// (under the controlled scheduler one thread runs at a time, and the cache's own mutex below is
	// a scheduling point: no native lock may be held across it)
	if !vsched.Active() {
		depositMu.Lock()
		defer depositMu.Unlock()
	}
	d.init()
	for a, v := range d.Deposits {
		if s := v.String(); d.seen[a] != s {
			d.seen[a] = s
			d.emit(a, chainWord(v))
		}
	}
}

func (d *DepositStore) AddAccountBalance(a store.Account, c *big.Int) error {
	d.point("AddAccountBalance")
	if d.FailBalanceOps > 0 {
		d.FailBalanceOps--
		return errors.New("balance store failure (injected)")
	}
	d.sync()
	return d.cp.AddAccountBalance(a, c)
}

func (d *DepositStore) AddNodeBalance(id store.NodeID, c *big.Int) error {
	d.point("AddNodeBalance")
	if d.FailBalanceOps > 0 {
		d.FailBalanceOps--
		return errors.New("balance store failure (injected)")
	}
	d.sync()
	return d.cp.AddNodeBalance(id, c)
}

func (d *DepositStore) GetNodeBalance(nodeID store.NodeID) (store.Balance, error) {
	d.point("GetNodeBalance")
	if d.FailBalanceOps > 0 {
		d.FailBalanceOps--
		return store.Balance{}, errors.New("balance store failure (injected)")
	}
	d.sync()
	return d.cp.GetNodeBalance(nodeID)
}

func (d *DepositStore) GetAccountBalance(a store.Account) (store.Balance, error) {
	d.point("GetAccountBalance")
	if d.FailBalanceOps > 0 {
		d.FailBalanceOps--
		return store.Balance{}, errors.New("balance store failure (injected)")
	}
	d.sync()
	return d.cp.GetAccountBalance(a)
}

// NewPoolWorld builds the world.
func NewPoolWorld(cfg PoolConfig) *PoolWorld {
	if cfg.Driver == "" {
		cfg.Driver = Memory
	}
	w := &PoolWorld{Cfg: cfg, Hosts: map[string]*FakeHost{}}
	w.Raw = NewStoreSlot(cfg.Driver, cfg.Slot)
	w.Store = w.Raw
	if cfg.WrapStore != nil {
		w.Store = cfg.WrapStore(w.Raw)
	}
	w.BStore = &DepositStore{AccountStore: w.Store, Deposits: map[store.Account]*big.Int{}, W: w}
	var mgr balance.Manager
	if !cfg.NoManager {
		price := cfg.Price
		if price == nil {
			price = big.NewInt(1000)
		}
		iv := cfg.Interval
		if iv == 0 {
			iv = time.Minute
		}
		m := balance.PayPerInterval(w.BStore, iv, price)
		if cfg.MinBalance != nil {
			m.MinBalance = new(big.Int).Set(cfg.MinBalance)
		}
		mgr = m
	}
	w.Pool = pool.New(w.Store, mgr)
	w.Pool.MaxRequestHosts = cfg.MaxRequestHosts
	if !cfg.NoBlockProvider {
		p := w.Pool
		p.BlockNumberProvider = func(network ethnode.NetworkID) (uint64, error) {
			if network != p.RestrictNetwork {
				return 0, fmt.Errorf("block number provider does not support network: %s", network)
			}
			stats, err := p.Store.Stats()
			if err != nil {
				return 0, err
			}
			return stats.LatestBlockNumber, nil
		}
	}
	w.Payment = &payment.PaymentService{
		NonceStore:   w.Store,
		AccountStore: w.Store,
		BalanceStore: w.BStore,
		WithdrawMin:  cfg.WithdrawMin,
		Settle: func(account store.Account, amount *big.Int, newBalance *big.Int) (string, error) {
			w.settleStarted.Add(1)
			defer w.settleFinished.Add(1)
			if h := w.OnSettle; h != nil {
				h()
			}
			if w.YieldPoints {
				vsched.Yield("settle")
			}
			depositMu.Lock()
			defer depositMu.Unlock()
			n := len(w.Settles)
			ok := w.SettleOK == nil || w.SettleOK(n)
			w.Settles = append(w.Settles, Settlement{Account: account, Amount: amount.String(), NewBalance: newBalance.String(), Failed: !ok})
			if !ok {
				return "", errors.New("settlement failed (injected)")
			}
			// the contract replaces the on-chain balance with newBalance
			w.BStore.Deposits[account] = new(big.Int).Set(newBalance)
			return fmt.Sprintf("tx%d", n), nil
		},
	}
	if cfg.WithdrawFee != nil {
		fee := new(big.Int).Set(cfg.WithdrawFee)
		w.Payment.WithdrawFee = func(a *big.Int) *big.Int { return new(big.Int).Sub(a, fee) }
	}
	return w
}

// ---------------------------------------------------------------------------
// Fake hosts: the reverse-RPC side of a connected full node.

// HostCall is one call the pool made to a host.
type HostCall struct {
	Method string
	Arg    string
	Step   int  // world step at which the call completed
	Done   bool // completed (acknowledged or failed) vs. still pending / timed out
	Err    bool
}

// FakeHost implements jsonrpc2.Service (and optionally RemoteAddr).
type FakeHost struct {
	W     *PoolWorld
	Name  string
	Addr  string // RemoteAddr()
	Mode  int    // 0 ack, 1 error, 2 silent (until the context ends)
	Calls []HostCall
	Conn  string // connection label (for registry checks)
	// OnCall, when set, runs as a call arrives (e.g. the requester on whose behalf the pool calls
	// hangs up just then)
	OnCall func()
}

const (
	HostAck = iota
	HostErr
	HostSilent
)

func (h *FakeHost) Call(ctx context.Context, result interface{}, method string, params ...interface{}) error {
	arg := ""
	if len(params) > 0 {
		arg = fmt.Sprint(params[0])
	}
	vsched.Yield("host-call:" + h.Name)
	// pass-through mode: the pool calls hosts from concurrent goroutines
	hostLogMu.Lock()
	idx := len(h.Calls)
	h.Calls = append(h.Calls, HostCall{Method: method, Arg: arg})
	hostLogMu.Unlock()
	finish := func(isErr bool) {
		hostLogMu.Lock()
		h.W.Step++
		h.Calls[idx].Done, h.Calls[idx].Err, h.Calls[idx].Step = true, isErr, h.W.Step
		hostLogMu.Unlock()
	}
	if f := h.OnCall; f != nil {
		f()
	}
	switch h.Mode {
	case HostErr:
		finish(true)
		return errors.New("host error (injected)")
	case HostSilent:
		if vsched.Active() {
			vsched.Recv(ctx.Done())
		} else {
			<-ctx.Done()
		}
		return ctx.Err()
	}
	finish(false)
	return nil
}

var hostLogMu sync.Mutex

// HostWithAddr is a FakeHost that exposes RemoteAddr (like jsonrpc2.Remote does through its codec).
type HostWithAddr struct{ *FakeHost }

func (h HostWithAddr) RemoteAddr() string { return h.Addr }

// Service returns the jsonrpc2.Service to register for the host.
func (h *FakeHost) Service() jsonrpc2.Service {
	if h.Addr == "" {
		return h
	}
	return HostWithAddr{h}
}

// CtxWith returns a context carrying svc the way Remote / Local do (jsonrpc2.CtxService(ctx) == svc).
func CtxWith(svc jsonrpc2.Service) context.Context {
	return CtxWithParent(context.Background(), svc)
}

// jsonrpc2 keeps its context key private. The harness learns it black-box: a real jsonrpc2.Local
// call hands its handler a context in which exactly one key maps to the *Local; svcCtx answers
// that key (whatever it is called) with the harness' service instead.
type CtxGrabber struct{ Ctx context.Context }

func (g *CtxGrabber) Grab(ctx context.Context) error { g.Ctx = ctx; return nil }

var grabbedCtx context.Context
var grabbedLoc *jsonrpc2.Local

func init() {
	loc := &jsonrpc2.Local{}
	g := &CtxGrabber{}
	if err := loc.Server.RegisterMethod("grab", g, "Grab"); err != nil {
		panic(err)
	}
	if err := loc.Call(context.Background(), nil, "grab"); err != nil || g.Ctx == nil {
		panic(fmt.Sprint("vh: cannot grab service context: ", err))
	}
	grabbedCtx, grabbedLoc = g.Ctx, loc
}

type svcCtx struct {
	context.Context
	svc jsonrpc2.Service
}

func (c svcCtx) Value(k interface{}) interface{} {
	if v := grabbedCtx.Value(k); v != nil && v == interface{}(grabbedLoc) {
		return c.svc
	}
	return c.Context.Value(k)
}

// CtxWithParent: see CtxWith.
func CtxWithParent(parent context.Context, svc jsonrpc2.Service) context.Context {
	return svcCtx{Context: parent, svc: svc}
}

func (w *PoolWorld) Host(name string) *FakeHost {
	h := w.Hosts[name]
	if h == nil {
		h = &FakeHost{W: w, Name: name, Addr: "203.0.113.9:5555"}
		w.Hosts[name] = h
	}
	return h
}

// CallLog renders all host calls canonically.
func (w *PoolWorld) CallLog() string {
	var names []string
	for n := range w.Hosts {
		names = append(names, n)
	}
	sort.Strings(names)
	var b strings.Builder
	for _, n := range names {
		fmt.Fprintf(&b, "%s:", n)
		for _, c := range w.Hosts[n].Calls {
			fmt.Fprintf(&b, "%s(%s)%v;", c.Method, Short(c.Arg), c.Done)
		}
		b.WriteString("|")
	}
	return b.String()
}

// ---------------------------------------------------------------------------
// Signed calls (real signatures, nonces derived from the virtual clock + a per-world sequence).

func (w *PoolWorld) nextNonce() int64 {
	w.nonceSeq++
	return vsched.Now().UnixNano() + w.nonceSeq
}

// ConnectOpts are the knobs of a connect call.
type ConnectOpts struct {
	Host    bool
	Kind    string // "geth" (default) or "parity"
	NodeURI string
	Payout  string
	Service jsonrpc2.Service // for hosts: the connection object; default the FakeHost named after the identity
}

func kindOf(s string) ethnode.NodeKind {
	if s == "" {
		s = "geth"
	}
	return ethnode.ParseNodeKind(s)
}

// Connect performs a real signed vipnode_connect.
func (w *PoolWorld) Connect(id *Ident, o ConnectOpts) (*pool.ConnectResponse, error) {
	req := pool.ConnectRequest{
		VipnodeVersion: "verif",
		NodeInfo:       ethnode.UserAgent{Kind: kindOf(o.Kind), IsFullNode: o.Host, Version: "v1"},
		NodeURI:        o.NodeURI,
		Payout:         o.Payout,
	}
	ctx := context.Background()
	if o.Host {
		svc := o.Service
		if svc == nil {
			svc = w.Host(id.Name).Service()
		}
		ctx = CtxWith(svc)
	}
	n := w.nextNonce()
	sig := id.SignNode("vipnode_connect", n, req)
	return Watched("vipnode_connect by "+id.Name, func() (*pool.ConnectResponse, error) { return w.Pool.Connect(ctx, sig, id.NodeID, n, req) })
}

// Update performs a real signed vipnode_update reporting the given peer ids.
func (w *PoolWorld) Update(id *Ident, peers []string, block uint64) (*pool.UpdateResponse, error) {
	return w.UpdateCtx(context.Background(), id, peers, block)
}

func (w *PoolWorld) UpdateCtx(ctx context.Context, id *Ident, peers []string, block uint64) (*pool.UpdateResponse, error) {
	req := pool.UpdateRequest{BlockNumber: block, PeerInfo: []ethnode.PeerInfo{}}
	for _, p := range peers {
		req.PeerInfo = append(req.PeerInfo, ethnode.PeerInfo{ID: p})
	}
	n := w.nextNonce()
	sig := id.SignNode("vipnode_update", n, req)
	return Watched("vipnode_update by "+id.Name, func() (*pool.UpdateResponse, error) { return w.Pool.Update(ctx, sig, id.NodeID, n, req) })
}

// Peer performs a real signed vipnode_peer.
func (w *PoolWorld) Peer(ctx context.Context, id *Ident, num int, kind string) (*pool.PeerResponse, error) {
	req := pool.PeerRequest{Num: num, Kind: kind}
	n := w.nextNonce()
	sig := id.SignNode("vipnode_peer", n, req)
	return Watched("vipnode_peer by "+id.Name, func() (*pool.PeerResponse, error) { return w.Pool.Peer(ctx, sig, id.NodeID, n, req) })
}

// NextNonce hands out the world's next fresh nonce (for requests the harness signs itself).
func (w *PoolWorld) NextNonce() int64 { return w.nextNonce() }

// AddNode performs a real signed pool_addNode.
func (w *PoolWorld) AddNode(wallet *Ident, nodeID string) error {
	n := w.nextNonce()
	sig := wallet.SignWallet("pool_addNode", n, nodeID)
	_, err := Watched("pool_addNode by "+wallet.Name, func() (struct{}, error) {
		return struct{}{}, w.Payment.AddNode(context.Background(), sig, wallet.Wallet, n, nodeID)
	})
	return err
}

// Withdraw performs a real signed pool_withdraw.
func (w *PoolWorld) Withdraw(wallet *Ident) error {
	n := w.nextNonce()
	sig := wallet.SignWallet("pool_withdraw", n)
	_, err := Watched("pool_withdraw by "+wallet.Name, func() (struct{}, error) {
		return struct{}{}, w.Payment.Withdraw(context.Background(), sig, wallet.Wallet, n)
	})
	return err
}

// WithdrawGone performs a real signed pool_withdraw whose requester goes away (its context is
// cancelled) at the moment the settlement begins, and returns once every settlement that was started
// has finished, whether or not the request waited for it.
func (w *PoolWorld) WithdrawGone(wallet *Ident) error {
	n := w.nextNonce()
	sig := wallet.SignWallet("pool_withdraw", n)
	ctx, cancel := context.WithCancel(context.Background())
	defer cancel()
	w.OnSettle = cancel
	_, err := Watched("pool_withdraw by "+wallet.Name, func() (struct{}, error) {
		return struct{}{}, w.Payment.Withdraw(ctx, sig, wallet.Wallet, n)
	})
	if !vsched.Active() {
		deadline := time.Now().Add(InvokeWatchdog)
		for w.settleFinished.Load() != w.settleStarted.Load() {
			if time.Now().After(deadline) {
				panic("a settlement that was started never finished")
			}
			time.Sleep(50 * time.Microsecond)
		}
	}
	w.OnSettle = nil
	return err
}

// Watched runs one request to the code under test. Under the controlled scheduler it is a plain
// call (blocking is modelled there). Otherwise the request runs in its own goroutine and a request
// that has not returned after InvokeWatchdog panics with a description - a wedged request is
// reported by the unit that sent it instead of hanging the whole worker.
func Watched[T any](what string, f func() (T, error)) (T, error) {
	if vsched.Active() {
		return f()
	}
	type out struct {
		v   T
		err error
		pan interface{}
	}
	ch := make(chan out, 1)
	go func() {
		var o out
		defer func() {
			if r := recover(); r != nil {
				o.pan = r
			}
			ch <- o
		}()
		o.v, o.err = f()
	}()
	select {
	case o := <-ch:
		if o.pan != nil {
			panic(o.pan)
		}
		return o.v, o.err
	case <-time.After(InvokeWatchdog):
		panic(fmt.Sprintf("request %s never returned (still blocked after %s)", what, InvokeWatchdog))
	}
}

// RegistryKey renders the pool's connection registries - every map field of VipnodePool that maps
// node ids to connections or connections to node ids, found by type, not by name - canonically, with
// connections named by the fake host behind them. It is the implementation's own notion of "which
// host is registered where" and belongs into BFS state keys of checks about registrations.
func plainType(t reflect.Type) bool {
	switch t.Kind() {
	case reflect.Bool, reflect.Int, reflect.Int8, reflect.Int16, reflect.Int32, reflect.Int64, reflect.Uint, reflect.Uint8, reflect.Uint16,
		reflect.Uint32, reflect.Uint64, reflect.Float32, reflect.Float64, reflect.String:
		return true
	case reflect.Slice, reflect.Array:
		return plainType(t.Elem())
	case reflect.Map:
		return plainType(t.Key()) && plainType(t.Elem())
	case reflect.Struct:
		for i := 0; i < t.NumField(); i++ {
			if !plainType(t.Field(i).Type) {
				return false
			}
		}
		return true
	}
	return false
}

func (w *PoolWorld) RegistryKey() string {
	v := reflect.ValueOf(w.Pool).Elem()
	svcT := reflect.TypeOf((*jsonrpc2.Service)(nil)).Elem()
	idT := reflect.TypeOf(store.NodeID(""))
	name := func(x reflect.Value) string {
		if !x.IsValid() || (x.Kind() == reflect.Interface && x.IsNil()) {
			return "<nil>"
		}
		switch s := x.Interface().(type) {
		case *FakeHost:
			return s.Name
		case HostWithAddr:
			return s.Name
		case store.NodeID:
			return Short(string(s))
		}
		return fmt.Sprintf("%T", x.Interface())
	}
	var out []string
	for i := 0; i < v.NumField(); i++ {
		f := v.Field(i)
		if f.Kind() != reflect.Map {
			continue
		}
		kt, vt := f.Type().Key(), f.Type().Elem()
		if !((kt == idT && vt == svcT) || (kt == svcT && vt == idT)) {
			// any other private map made of plain data (strings, numbers, slices and structs of
			// them) is state too: two histories are the same state only if these agree as well
			if plainType(kt) && plainType(vt) {
				f = accessibleCopy(f)
				var entries []string
				it := f.MapRange()
				for it.Next() {
					entries = append(entries, fmt.Sprintf("%v->%v", it.Key().Interface(), it.Value().Interface()))
				}
				sort.Strings(entries)
				out = append(out, fmt.Sprintf("%d{%s}", i, strings.Join(entries, ",")))
			}
			continue
		}
		f = accessibleCopy(f)
		var entries []string
		it := f.MapRange()
		for it.Next() {
			entries = append(entries, name(it.Key())+"->"+name(it.Value()))
		}
		sort.Strings(entries)
		out = append(out, fmt.Sprintf("%d{%s}", i, strings.Join(entries, ",")))
	}
	return strings.Join(out, ";")
}
