//go:build go1.21

package vh

import (
	"fmt"
	"math/big"
	"reflect"
	"sort"
	"strings"
	"time"
	"unsafe"

	"github.com/vipnode/vipnode/v2/internal/verif/vsched"
)

var bigIntType = reflect.TypeOf(big.Int{})
var timeType = reflect.TypeOf(time.Time{})

// DeepDump renders any value (including unexported fields) canonically: maps sorted by key,
// times as offsets from the virtual epoch, big.Int as decimal, mutexes/functions/channels skipped.
// It is used for state de-duplication keys and "nothing changed" digests, so that the harness does
// not depend on the names of private fields.
func DeepDump(v interface{}) string {
	var b strings.Builder
	seen := map[uintptr]bool{}
	dump(&b, reflect.ValueOf(v), seen, 0)
	return b.String()
}

func accessible(v reflect.Value) reflect.Value {
	if v.CanInterface() {
		return v
	}
	if v.CanAddr() {
		return reflect.NewAt(v.Type(), unsafe.Pointer(v.UnsafeAddr())).Elem()
	}
	// copy into addressable storage
	c := reflect.New(v.Type()).Elem()
	func() {
		defer func() { recover() }()
		c.Set(v)
	}()
	return c
}

func dump(b *strings.Builder, v reflect.Value, seen map[uintptr]bool, depth int) {
	if depth > 40 {
		b.WriteString("<deep>")
		return
	}
	if !v.IsValid() {
		b.WriteString("nil")
		return
	}
	t := v.Type()
	switch t {
	case bigIntType:
		if v.CanAddr() {
			p := (*big.Int)(unsafe.Pointer(v.UnsafeAddr()))
			b.WriteString(p.String())
		} else {
			c := reflect.New(t).Elem()
			c.Set(accessibleCopy(v))
			b.WriteString(c.Addr().Interface().(*big.Int).String())
		}
		return
	case timeType:
		var tm time.Time
		if v.CanAddr() {
			tm = *(*time.Time)(unsafe.Pointer(v.UnsafeAddr()))
		} else if v.CanInterface() {
			tm = v.Interface().(time.Time)
		} else {
			c := reflect.New(t).Elem()
			c.Set(accessibleCopy(v))
			tm = c.Interface().(time.Time)
		}
		if tm.IsZero() {
			b.WriteString("t0")
		} else {
			fmt.Fprintf(b, "t%+d", int64(tm.Sub(vsched.Base())))
		}
		return
	}
	switch v.Kind() {
	case reflect.Struct:
		name := t.Name()
		if strings.Contains(name, "Mutex") || name == "Once" || name == "WaitGroup" || name == "noCopy" {
			return
		}
		b.WriteString("{")
		for i := 0; i < v.NumField(); i++ {
			f := t.Field(i)
			fn := f.Type.Name()
			if strings.Contains(fn, "Mutex") || fn == "Once" || fn == "WaitGroup" {
				continue
			}
			b.WriteString(f.Name)
			b.WriteString(":")
			dump(b, v.Field(i), seen, depth+1)
			b.WriteString(";")
		}
		b.WriteString("}")
	case reflect.Map:
		if v.IsNil() {
			b.WriteString("map{}")
			return
		}
		type kv struct{ k, v string }
		var items []kv
		it := v.MapRange()
		for it.Next() {
			var kb, vb strings.Builder
			dump(&kb, it.Key(), seen, depth+1)
			dump(&vb, it.Value(), seen, depth+1)
			items = append(items, kv{kb.String(), vb.String()})
		}
		sort.Slice(items, func(i, j int) bool { return items[i].k < items[j].k })
		b.WriteString("map{")
		for _, it := range items {
			b.WriteString(it.k)
			b.WriteString("=>")
			b.WriteString(it.v)
			b.WriteString(",")
		}
		b.WriteString("}")
	case reflect.Slice, reflect.Array:
		if v.Kind() == reflect.Slice && t.Elem().Kind() == reflect.Uint8 {
			fmt.Fprintf(b, "%x", accessibleCopy(v).Bytes())
			return
		}
		b.WriteString("[")
		for i := 0; i < v.Len(); i++ {
			dump(b, v.Index(i), seen, depth+1)
			b.WriteString(",")
		}
		b.WriteString("]")
	case reflect.Ptr:
		if v.IsNil() {
			b.WriteString("nil")
			return
		}
		p := v.Pointer()
		if seen[p] {
			b.WriteString("<cycle>")
			return
		}
		seen[p] = true
		b.WriteString("&")
		dump(b, v.Elem(), seen, depth+1)
		delete(seen, p)
	case reflect.Interface:
		if v.IsNil() {
			b.WriteString("nil")
			return
		}
		dump(b, v.Elem(), seen, depth+1)
	case reflect.Func:
		if v.IsNil() {
			b.WriteString("fn:nil")
		} else {
			b.WriteString("fn")
		}
	case reflect.Chan, reflect.UnsafePointer:
		b.WriteString("ch")
	case reflect.String:
		fmt.Fprintf(b, "%q", v.String())
	case reflect.Bool:
		fmt.Fprintf(b, "%v", v.Bool())
	case reflect.Int, reflect.Int8, reflect.Int16, reflect.Int32, reflect.Int64:
		fmt.Fprintf(b, "%d", v.Int())
	case reflect.Uint, reflect.Uint8, reflect.Uint16, reflect.Uint32, reflect.Uint64, reflect.Uintptr:
		fmt.Fprintf(b, "%d", v.Uint())
	case reflect.Float32, reflect.Float64:
		fmt.Fprintf(b, "%g", v.Float())
	default:
		fmt.Fprintf(b, "<%s>", v.Kind())
	}
}

// accessibleCopy returns a readable copy of a possibly unexported, possibly unaddressable value.
func accessibleCopy(v reflect.Value) reflect.Value {
	if v.CanInterface() {
		return v
	}
	if v.CanAddr() {
		return reflect.NewAt(v.Type(), unsafe.Pointer(v.UnsafeAddr())).Elem()
	}
	// unaddressable unexported value (e.g. map element reached through an unexported field):
	// rebuild through a fresh addressable container using reflection's flag-free copy.
	c := reflect.New(v.Type()).Elem()
	// reflect refuses Set from an unexported source; go through unsafe on a temporary interface.
	type iface struct {
		typ, ptr unsafe.Pointer
		flag     uintptr
	}
	rv := *(*iface)(unsafe.Pointer(&v))
	const flagRO = 1<<5 | 1<<6
	rv.flag &^= flagRO
	vv := *(*reflect.Value)(unsafe.Pointer(&rv))
	c.Set(vv)
	return c
}

// FieldByType finds, by reflection, the first field of struct (pointer) obj whose type is typ, and
// returns it as an addressable readable value. Used to reach e.g. the *badger.DB inside the store.
func FieldByType(obj interface{}, typ reflect.Type) (reflect.Value, bool) {
	v := reflect.ValueOf(obj)
	for v.Kind() == reflect.Ptr || v.Kind() == reflect.Interface {
		if v.IsNil() {
			return reflect.Value{}, false
		}
		v = v.Elem()
	}
	if v.Kind() != reflect.Struct {
		return reflect.Value{}, false
	}
	for i := 0; i < v.NumField(); i++ {
		f := v.Field(i)
		if f.Type() == typ {
			return accessibleCopy(f), true
		}
	}
	return reflect.Value{}, false
}

// SetFieldByName sets an unexported field (best effort; returns false if absent or wrong type).
func SetFieldByName(obj interface{}, name string, val interface{}) bool {
	v := reflect.ValueOf(obj)
	for v.Kind() == reflect.Ptr || v.Kind() == reflect.Interface {
		if v.IsNil() {
			return false
		}
		v = v.Elem()
	}
	if v.Kind() != reflect.Struct {
		return false
	}
	f := v.FieldByName(name)
	if !f.IsValid() || !f.CanAddr() {
		return false
	}
	nv := reflect.ValueOf(val)
	if !nv.Type().AssignableTo(f.Type()) {
		return false
	}
	reflect.NewAt(f.Type(), unsafe.Pointer(f.UnsafeAddr())).Elem().Set(nv)
	return true
}
