//go:build go1.21

package vh

import (
	"encoding/json"
	"fmt"
	"strings"
	"sync"
	"time"

	"github.com/vipnode/vipnode/v2/internal/verif/vsched"
)

// DFSSpec describes one concurrent scenario explored under the controlled scheduler.
type DFSSpec struct {
	Name  string
	Bound int // deviation bound (preemptions + early timers + non-default environment answers); explored iteratively 0..Bound
	Run   vsched.Options
	// Before runs before every execution in pass-through mode (native set-up such as handshakes).
	Before func()
	// Body builds a fresh world and runs the scenario as main thread 0 (spawning others with vsched.GoMain).
	Body func()
	// Check judges one finished execution; it returns a violation signature ("" = fine) and a detail.
	Check func(s *vsched.Sched) (sig, detail string)
	// Obs returns the observation string of the last execution (distinct outcomes are counted).
	Obs            func(s *vsched.Sched) string
	Shard, NShards int
	MaxExecs       int
	// AllowDeadlock / AllowPanic: by default both are violations reported with generic signatures.
	AllowDeadlock bool
	AllowPanic    bool
	AllowHorizon  bool
}

type dfsReplay struct {
	Scenario string   `json:"scenario"`
	Bound    int      `json:"bound"`
	Schedule []int    `json:"schedule"`
	Trace    []string `json:"trace,omitempty"`
}

func traceStrings(tr []vsched.Step) []string {
	var out []string
	for _, s := range tr {
		out = append(out, fmt.Sprintf("%s@%s:%d/%d", s.Kind, s.Site, s.Chosen, s.N))
	}
	return out
}

func (spec *DFSSpec) judge(s *vsched.Sched) (string, string) {
	if s.Panic != nil && strings.HasPrefix(fmt.Sprint(s.Panic), "vsched: unsynchronised") {
		// exclusive-use tracking (vsched.TouchY): two statements touching one unprotected object
		// were ready to run at the same moment
		return spec.Name + "/data-race", fmt.Sprintf("%v\n%s", s.Panic, trimStack(s.PanicStack))
	}
	if s.Panic != nil && !spec.AllowPanic {
		return spec.Name + "/panic", fmt.Sprintf("panic: %v\n%s", s.Panic, trimStack(s.PanicStack))
	}
	if s.Deadlock && !spec.AllowDeadlock {
		return spec.Name + "/deadlock", fmt.Sprintf("deadlock; blocked threads: %v", s.Blocked)
	}
	if s.Horizon && !spec.AllowHorizon {
		return spec.Name + "/livelock", fmt.Sprintf("step horizon exceeded; live threads: %v", s.Blocked)
	}
	if spec.Check != nil {
		return spec.Check(s)
	}
	return "", ""
}

func trimStack(st string) string {
	if len(st) > 1500 {
		return st[:1500] + "..."
	}
	return st
}

// RunDFS explores the scenario; returns false if a violation or infra problem stopped it.
func RunDFS(u *U, spec DFSSpec) bool {
	if spec.NShards <= 0 {
		spec.NShards = 1
	}
	if u.ReplayRaw != nil {
		var r dfsReplay
		json.Unmarshal(u.ReplayRaw, &r)
		if r.Scenario != spec.Name {
			return true
		}
		ro := spec.Run
		ro.Prefix = r.Schedule
		if spec.Before != nil {
			spec.Before()
		}
		s := vsched.Run(ro, spec.Body)
		sig, detail := spec.judge(s)
		fmt.Printf("REPLAY scenario=%s schedule=%v\n  signature=%q\n  detail=%s\n  observation=%s\n", spec.Name, r.Schedule, sig, detail, spec.obs(s))
		if sig != "" {
			u.Violate(sig, detail, r)
		}
		return sig == ""
	}
	ok := true
	completed := -1
	for bound := 0; bound <= spec.Bound && ok; bound++ {
		var vsig, vdetail string
		var vtrace []vsched.Step
		infra := ""
		st := vsched.Explore(vsched.ExploreOpt{
			Bound: bound, Run: spec.Run, Shard: spec.Shard, NShards: spec.NShards,
			MaxExecs: spec.MaxExecs, Deadline: u.Deadline, Before: spec.Before,
		}, spec.Body, func(s *vsched.Sched) bool {
			if s.Diverged != "" {
				infra = s.Diverged
				return false
			}
			u.Observe(spec.Name + "|" + spec.obs(s))
			sig, detail := spec.judge(s)
			if sig != "" {
				vsig, vdetail, vtrace = sig, detail, append([]vsched.Step{}, s.Trace...)
				return false
			}
			return true
		})
		u.R.States += int64(st.Execs)
		u.R.Traces += int64(st.Execs)
		u.R.Evaluations += int64(st.Execs)
		u.R.Transitions += st.Points
		if len(u.R.Samples) < 2 && st.Execs > 0 {
			u.Sample(map[string]interface{}{"scenario": spec.Name, "bound": bound, "schedules": st.Execs, "max_points": st.MaxPoints})
		}
		switch {
		case infra != "":
			u.R.Infra = "nondeterminism in " + spec.Name + ": " + infra
			u.R.Exhaustive = false
			return false
		case vsig != "":
			// confirm: the same schedule must reproduce the same signature 5 times
			choices := vsched.Choices(vtrace)
			for i := 0; i < 5; i++ {
				ro := spec.Run
				ro.Prefix = choices
				if spec.Before != nil {
					spec.Before()
				}
				s := vsched.Run(ro, spec.Body)
				sig, _ := spec.judge(s)
				if sig != vsig || s.Diverged != "" {
					u.R.Infra = fmt.Sprintf("violation %q in %s did not reproduce on replay %d (got %q, diverged=%q)", vsig, spec.Name, i, sig, s.Diverged)
					u.R.Exhaustive = false
					return false
				}
			}
			u.Violate(vsig, vdetail, dfsReplay{Scenario: spec.Name, Bound: bound, Schedule: choices, Trace: traceStrings(vtrace)})
			u.R.Exhaustive = false
			ok = false
		case !st.Complete:
			u.R.Exhaustive = false
			u.Note(fmt.Sprintf("%s: bound %d stopped (%s) after %d schedules", spec.Name, bound, st.Stopped, st.Execs))
			ok = false
			u.R.Bounds[spec.Name+"/bound_completed"] = completed
			return true
		default:
			completed = bound
		}
	}
	u.R.Bounds[spec.Name+"/bound_completed"] = completed
	return ok
}

func (spec *DFSSpec) obs(s *vsched.Sched) string {
	if spec.Obs != nil {
		return spec.Obs(s)
	}
	return fmt.Sprintf("dl=%v p=%v", s.Deadlock, s.Panic != nil)
}

var _ = time.Now

// Par runs fns concurrently and waits for all of them: as main threads under the controlled
// scheduler, as plain goroutines in pass-through mode (free-running -race pass).
func Par(names []string, fns ...func()) {
	if !vsched.Active() {
		var wg sync.WaitGroup
		wg.Add(len(fns))
		for _, f := range fns {
			f := f
			go func() {
				defer wg.Done()
				f()
			}()
		}
		wg.Wait()
		return
	}
	var wg vsched.WaitGroup
	wg.Add(len(fns))
	for i, f := range fns {
		f := f
		n := "par"
		if i < len(names) {
			n = names[i]
		}
		vsched.GoMain(n, func() {
			defer wg.Done()
			f()
		})
	}
	wg.Wait()
}
