//go:build go1.21

package vh

import (
	"fmt"
	"math/big"
	"sort"
	"strings"

	"github.com/vipnode/vipnode/v2/pool/store"
)

// Ledger is the credit of every wallet account and every trial (not-yet-linked) node balance,
// read through the public getters and de-duplicated by account.
type Ledger struct {
	Entries map[string]*big.Int // "acct:<account>" or "trial:<node>"
	Sum     *big.Int
	Stats   *big.Int // Stats().TotalCredit (second, independent way of summing); nil on error
}

// ReadLedger reads all balances reachable from the given node ids and accounts.
func ReadLedger(s store.Store, nodes []string, accounts []string) Ledger {
	l := Ledger{Entries: map[string]*big.Int{}, Sum: new(big.Int)}
	for _, a := range accounts {
		b, err := s.GetAccountBalance(store.Account(a))
		if err == nil {
			l.Entries["acct:"+a] = new(big.Int).Set(&b.Credit)
		}
	}
	for _, id := range nodes {
		b, err := s.GetNodeBalance(store.NodeID(id))
		if err != nil {
			continue
		}
		if b.Account == "" {
			l.Entries["trial:"+id] = new(big.Int).Set(&b.Credit)
		} else {
			l.Entries["acct:"+string(b.Account)] = new(big.Int).Set(&b.Credit)
		}
	}
	for _, v := range l.Entries {
		l.Sum.Add(l.Sum, v)
	}
	if st, err := s.Stats(); err == nil && st != nil {
		l.Stats = new(big.Int).Set(&st.TotalCredit)
	}
	return l
}

func (l Ledger) String() string {
	var ks []string
	for k, v := range l.Entries {
		if v.Sign() != 0 {
			ks = append(ks, fmt.Sprintf("%s=%s", shortKey(k), v))
		}
	}
	sort.Strings(ks)
	return "{" + strings.Join(ks, " ") + " Σ=" + l.Sum.String() + "}"
}

func shortKey(k string) string {
	i := strings.Index(k, ":")
	return k[:i+1] + Short(k[i+1:])
}

// Diff lists entries that differ between two ledgers.
func (l Ledger) Diff(o Ledger) map[string]*big.Int {
	d := map[string]*big.Int{}
	for k, v := range o.Entries {
		old := l.Entries[k]
		if old == nil {
			old = new(big.Int)
		}
		if x := new(big.Int).Sub(v, old); x.Sign() != 0 {
			d[k] = x
		}
	}
	for k, v := range l.Entries {
		if _, ok := o.Entries[k]; !ok && v.Sign() != 0 {
			d[k] = new(big.Int).Neg(v)
		}
	}
	return d
}

// Equal reports whether both ledgers hold the same non-zero entries.
func (l Ledger) Equal(o Ledger) bool { return len(l.Diff(o)) == 0 }

// StoreView renders everything observable through the store's getters for the given ids/accounts
// (nonces excluded): used as BFS state key and as "nothing changed" digest.
func StoreView(s store.Store, nodes []string, accounts []string) string {
	var b strings.Builder
	for _, id := range nodes {
		n, err := s.GetNode(store.NodeID(id))
		if err != nil {
			continue
		}
		fmt.Fprintf(&b, "N%s:%s|", Short(id), nodeStr(n))
		ps, _ := s.NodePeers(store.NodeID(id))
		var pp []string
		for _, p := range ps {
			pp = append(pp, Short(string(p.ID)))
		}
		sort.Strings(pp)
		fmt.Fprintf(&b, "P[%s]|", strings.Join(pp, ","))
		bal, err := s.GetNodeBalance(store.NodeID(id))
		if err == nil {
			fmt.Fprintf(&b, "B%s/%s/%s|", Short(string(bal.Account)), bal.Credit.String(), bal.Deposit.String())
		}
	}
	for _, a := range accounts {
		bal, err := s.GetAccountBalance(store.Account(a))
		if err == nil {
			fmt.Fprintf(&b, "A%s:%s/%s/%s|", Short(a), Short(string(bal.Account)), bal.Credit.String(), bal.Deposit.String())
		}
		ns, _ := s.GetAccountNodes(store.Account(a))
		var pp []string
		for _, p := range ns {
			pp = append(pp, Short(string(p)))
		}
		sort.Strings(pp)
		fmt.Fprintf(&b, "L[%s]|", strings.Join(pp, ","))
	}
	if st, err := s.Stats(); err == nil && st != nil {
		fmt.Fprintf(&b, "S%d/%d/%d/%d/%d/%s/%d", st.NumActiveHosts, st.NumTotalHosts, st.NumActiveClients, st.NumTotalClients, st.LatestBlockNumber, st.TotalCredit.String(), st.NumTrialBalances)
	}
	return b.String()
}
