//go:build go1.21

package vh

import (
	"context"
	"encoding/json"
	"errors"
	"fmt"
	"reflect"
	"time"

	"github.com/vipnode/vipnode/v2/ethnode"
	"github.com/vipnode/vipnode/v2/pool"
	"github.com/vipnode/vipnode/v2/pool/balance"
)

// SignedEndpoints are the seven state-changing RPCs that take (signature, identity, nonce, ...).
var SignedEndpoints = []string{"vipnode_connect", "vipnode_update", "vipnode_peer", "vipnode_host", "vipnode_client", "pool_addNode", "pool_withdraw"}

// IsWalletEndpoint reports whether the endpoint names a wallet.
func IsWalletEndpoint(e string) bool { return e == "pool_addNode" || e == "pool_withdraw" }

// Call is one signed RPC invocation in Go form.
type Call struct {
	Endpoint string
	Method   string // the method name that was signed (== Endpoint unless altered)
	Sig      string
	ID       string
	Nonce    int64
	Param    interface{} // request struct, node id (pool_addNode) or nil (pool_withdraw)
}

// DefaultParam returns a representative, fully populated parameter for the endpoint.
func DefaultParam(endpoint string, target string) interface{} {
	switch endpoint {
	case "vipnode_connect":
		return pool.ConnectRequest{VipnodeVersion: "v2", NodeInfo: ethnode.UserAgent{Version: "Geth/v1", EthProtocol: "63", Kind: ethnode.Geth, Network: 0, IsFullNode: false}, Payout: ""}
	case "vipnode_update":
		pi := ethnode.PeerInfo{ID: target, Name: "peer", Caps: []string{"eth/63"}, Protocols: map[string]json.RawMessage{"eth": json.RawMessage(`{"v":63}`)}, Enode: ""}
		pi.Network.LocalAddress = "10.0.0.1:1"
		pi.Network.RemoteAddress = "10.0.0.2:30303"
		return pool.UpdateRequest{PeerInfo: []ethnode.PeerInfo{pi}, BlockNumber: 7}
	case "vipnode_peer":
		return pool.PeerRequest{Num: 1, Kind: "geth"}
	case "vipnode_host":
		return pool.HostRequest{Kind: "geth", Payout: "", NodeURI: "enode://" + target + "@192.0.2.1:30303"}
	case "vipnode_client":
		return pool.ClientRequest{Kind: "geth", NumHosts: 1}
	case "pool_addNode":
		return target
	case "pool_withdraw":
		return nil
	}
	panic("endpoint " + endpoint)
}

func (c Call) args() []interface{} {
	if c.Endpoint == "pool_withdraw" {
		return nil
	}
	return []interface{}{c.Param}
}

// NewCall builds a correctly signed call by id (node key for vipnode_*, wallet key for pool_*).
func NewCall(endpoint string, id *Ident, nonce int64, param interface{}) Call {
	c := Call{Endpoint: endpoint, Method: endpoint, Nonce: nonce, Param: param}
	if IsWalletEndpoint(endpoint) {
		c.ID = id.Wallet
	} else {
		c.ID = id.NodeID
	}
	return c.Resign(id)
}

// LegacyUpdate is the deprecated payload of vipnode_update (what old agents sign): the pool still
// accepts a signature over it for the full request.
type LegacyUpdate struct {
	Peers       []string `json:"peers"`
	BlockNumber uint64   `json:"block_number"`
}

// NewLegacyUpdateCall builds a vipnode_update whose signature is in the deprecated format.
func NewLegacyUpdateCall(id *Ident, nonce int64, req pool.UpdateRequest) Call {
	c := Call{Endpoint: "vipnode_update", Method: "vipnode_update", ID: id.NodeID, Nonce: nonce, Param: req}
	sig, err := cachedSign(id.Key, c.Method, c.ID, c.Nonce, LegacyUpdate{req.Peers, req.BlockNumber})
	if err != nil {
		panic(err)
	}
	c.Sig = sig
	return c
}

// Resign recomputes the signature with signer's key over the call's current components.
func (c Call) Resign(signer *Ident) Call {
	sig, err := cachedSign(signer.Key, c.Method, c.ID, c.Nonce, c.args()...)
	if err != nil {
		panic(err)
	}
	c.Sig = sig
	return c
}

// InvokeWatchdog is how long a request may take outside the controlled scheduler before it counts as
// never returning. In-memory requests take microseconds; the bound only has to beat a loaded
// machine. (Under the controlled scheduler blocking is modelled and a wedge shows as a deadlock.)
const InvokeWatchdog = 3 * time.Minute

// Invoke calls the real endpoint. ctx must carry a service for host registrations. Outside the
// controlled scheduler a request that does not return within InvokeWatchdog panics (reported by the
// callers like any panic of the code under test) instead of hanging the whole check.
func (c Call) Invoke(w *PoolWorld, ctx context.Context) (res interface{}, err error) {
	return Watched(c.Endpoint+" by "+Short(c.ID), func() (interface{}, error) { return c.invoke(w, ctx) })
}

func (c Call) invoke(w *PoolWorld, ctx context.Context) (res interface{}, err error) {
	switch c.Endpoint {
	case "vipnode_connect":
		return w.Pool.Connect(ctx, c.Sig, c.ID, c.Nonce, c.Param.(pool.ConnectRequest))
	case "vipnode_update":
		return w.Pool.Update(ctx, c.Sig, c.ID, c.Nonce, c.Param.(pool.UpdateRequest))
	case "vipnode_peer":
		return w.Pool.Peer(ctx, c.Sig, c.ID, c.Nonce, c.Param.(pool.PeerRequest))
	case "vipnode_host":
		return w.Pool.Host(ctx, c.Sig, c.ID, c.Nonce, c.Param.(pool.HostRequest))
	case "vipnode_client":
		return w.Pool.Client(ctx, c.Sig, c.ID, c.Nonce, c.Param.(pool.ClientRequest))
	case "pool_addNode":
		return nil, w.Payment.AddNode(ctx, c.Sig, c.ID, c.Nonce, c.Param.(string))
	case "pool_withdraw":
		return nil, w.Payment.Withdraw(ctx, c.Sig, c.ID, c.Nonce)
	}
	panic("endpoint " + c.Endpoint)
}

// IsRefused reports whether err is an authentication refusal.
func IsRefused(err error) bool {
	var v pool.VerifyFailedError
	return errors.As(err, &v) // (also when a later refactor wraps the error)
}

// AsLowBalance extracts the low-balance error from err, wrapped or not.
func AsLowBalance(err error) (balance.LowBalanceError, bool) {
	var v balance.LowBalanceError
	ok := errors.As(err, &v)
	return v, ok
}

// FieldAlterations returns copies of v (a struct value, string, ...) each differing from v in
// exactly one leaf field (enumerated by reflection), with a label. Only alterations whose JSON
// encoding differs from the original's are returned.
func FieldAlterations(v interface{}) (labels []string, alts []interface{}) {
	if v == nil {
		return nil, nil
	}
	orig := JSON(v)
	rv := reflect.ValueOf(v)
	var paths [][]int
	var names []string
	var walk func(t reflect.Type, path []int, name string)
	walk = func(t reflect.Type, path []int, name string) {
		if t.Kind() == reflect.Struct {
			for i := 0; i < t.NumField(); i++ {
				f := t.Field(i)
				if f.PkgPath != "" {
					continue
				}
				walk(f.Type, append(append([]int{}, path...), i), name+"."+f.Name)
			}
			return
		}
		paths = append(paths, path)
		names = append(names, name)
	}
	if rv.Kind() == reflect.Struct {
		walk(rv.Type(), nil, "")
	} else {
		paths, names = [][]int{nil}, []string{""}
	}
	for i, p := range paths {
		for variant := 0; variant < 3; variant++ {
			cp := reflect.New(rv.Type()).Elem()
			cp.Set(rv)
			leaf := cp
			for _, idx := range p {
				leaf = leaf.Field(idx)
			}
			label, ok := alterLeaf(leaf, variant)
			if !ok {
				continue
			}
			alt := cp.Interface()
			if JSON(alt) == orig {
				continue
			}
			labels = append(labels, fmt.Sprintf("param%s:%s", names[i], label))
			alts = append(alts, alt)
		}
	}
	return
}

func alterLeaf(leaf reflect.Value, variant int) (string, bool) {
	switch leaf.Kind() {
	case reflect.String:
		switch variant {
		case 0:
			leaf.SetString(leaf.String() + "x")
			return "append", true
		case 1:
			if leaf.Len() == 0 {
				return "", false
			}
			leaf.SetString("")
			return "empty", true
		}
	case reflect.Int, reflect.Int64, reflect.Int32:
		switch variant {
		case 0:
			leaf.SetInt(leaf.Int() + 1)
			return "+1", true
		case 1:
			leaf.SetInt(-leaf.Int() - 1)
			return "negated", true
		}
	case reflect.Uint64, reflect.Uint, reflect.Uint32:
		if variant == 0 {
			leaf.SetUint(leaf.Uint() + 1)
			return "+1", true
		}
	case reflect.Bool:
		if variant == 0 {
			leaf.SetBool(!leaf.Bool())
			return "flip", true
		}
	case reflect.Slice:
		switch variant {
		case 0: // drop all elements
			if leaf.Len() == 0 {
				return "", false
			}
			leaf.Set(reflect.Zero(leaf.Type()))
			return "drop-all", true
		case 1: // append a zero element
			leaf.Set(reflect.Append(leaf, reflect.Zero(leaf.Type().Elem())))
			return "append-zero", true
		case 2: // alter the first element's first leaf
			if leaf.Len() == 0 {
				return "", false
			}
			ns := reflect.MakeSlice(leaf.Type(), leaf.Len(), leaf.Len())
			reflect.Copy(ns, leaf)
			e := ns.Index(0)
			for e.Kind() == reflect.Struct {
				e = e.Field(0)
			}
			if _, ok := alterLeaf(e, 0); !ok {
				return "", false
			}
			leaf.Set(ns)
			return "elem0", true
		}
	case reflect.Map:
		switch variant {
		case 0:
			if leaf.Len() == 0 {
				return "", false
			}
			leaf.Set(reflect.Zero(leaf.Type()))
			return "drop-all", true
		case 1:
			if leaf.Type().Key().Kind() != reflect.String {
				return "", false
			}
			nm := reflect.MakeMap(leaf.Type())
			it := leaf.MapRange()
			for it.Next() {
				nm.SetMapIndex(it.Key(), it.Value())
			}
			nm.SetMapIndex(reflect.ValueOf("zz").Convert(leaf.Type().Key()), reflect.Zero(leaf.Type().Elem()))
			leaf.Set(nm)
			return "add-key", true
		}
	}
	return "", false
}

// NumericExtremes returns copies of the request struct v in which exactly one numeric leaf (at any
// depth, including the elements of slices and named integer types) is set to an extreme value.
func NumericExtremes(v interface{}) (labels []string, alts []interface{}) {
	if v == nil {
		return nil, nil
	}
	rv := reflect.ValueOf(v)
	type leaf struct {
		path []interface{} // int = struct field index, "elem" = slice element 0
		name string
		kind reflect.Kind
	}
	var leaves []leaf
	var walk func(t reflect.Type, path []interface{}, name string)
	walk = func(t reflect.Type, path []interface{}, name string) {
		switch t.Kind() {
		case reflect.Struct:
			for i := 0; i < t.NumField(); i++ {
				f := t.Field(i)
				if f.PkgPath != "" {
					continue
				}
				walk(f.Type, append(append([]interface{}{}, path...), i), name+"."+f.Name)
			}
		case reflect.Slice:
			walk(t.Elem(), append(append([]interface{}{}, path...), "elem"), name+"[0]")
		case reflect.Int, reflect.Int8, reflect.Int16, reflect.Int32, reflect.Int64,
			reflect.Uint, reflect.Uint8, reflect.Uint16, reflect.Uint32, reflect.Uint64:
			leaves = append(leaves, leaf{path, name, t.Kind()})
		}
	}
	walk(rv.Type(), nil, "")
	for _, lf := range leaves {
		signed := []int64{-1 << 63, -1 << 62, -1 << 31, -129, -3, -1, 0, 4, 127, 128, 255, 256, 1 << 31, 1<<63 - 1}
		for _, x := range signed {
			cp := reflect.New(rv.Type()).Elem()
			cp.Set(reflect.ValueOf(deepCopyJSONFree(rv)))
			cur := cp
			ok := true
			for _, p := range lf.path {
				switch q := p.(type) {
				case int:
					cur = cur.Field(q)
				case string:
					if cur.Len() == 0 {
						cur.Set(reflect.MakeSlice(cur.Type(), 1, 1))
					} else {
						// never write into a backing array shared with the original
						fresh := reflect.MakeSlice(cur.Type(), cur.Len(), cur.Len())
						reflect.Copy(fresh, cur)
						cur.Set(fresh)
					}
					cur = cur.Index(0)
				}
				if !cur.IsValid() {
					ok = false
					break
				}
			}
			if !ok || !cur.CanSet() {
				continue
			}
			switch lf.kind {
			case reflect.Int, reflect.Int8, reflect.Int16, reflect.Int32, reflect.Int64:
				if cur.OverflowInt(x) {
					continue
				}
				cur.SetInt(x)
			default:
				if x < 0 || cur.OverflowUint(uint64(x)) {
					continue
				}
				cur.SetUint(uint64(x))
			}
			labels = append(labels, fmt.Sprintf("param%s=%d", lf.name, x))
			alts = append(alts, cp.Interface())
		}
	}
	return
}

// deepCopyJSONFree returns rv's value (struct copy; slices are re-allocated where written).
func deepCopyJSONFree(rv reflect.Value) interface{} { return rv.Interface() }
