//go:build go1.21

package vh

import (
	"bytes"
	"crypto/ecdsa"
	"crypto/sha256"
	"encoding/base64"
	"encoding/json"
	"fmt"
	"reflect"
	"sort"
	"strings"
	"sync"
	"sync/atomic"

	badgerdb "github.com/dgraph-io/badger/v2"
	"github.com/ethereum/go-ethereum/crypto"
	"github.com/ethereum/go-ethereum/p2p/discv5"
	"github.com/vipnode/vipnode/v2/internal/verif/vsched"
	"github.com/vipnode/vipnode/v2/pool/store"
	"github.com/vipnode/vipnode/v2/pool/store/badger"
	"github.com/vipnode/vipnode/v2/pool/store/memory"
	"github.com/vipnode/vipnode/v2/request"
)

// ---------------------------------------------------------------------------
// Fixed identities (real secp256k1 keys, so that signatures are real).

var keyB64 = []string{
	`Qz7wmX+MXfvY85IsJMnMFd8fOI4msOT24bp6Iw/NuPo=`,
	`OX9lnxz+fWNmEEBXCKfEmEsh5oGhCXXdHJBqilgZPNc=`,
	`pebDrvrc9iHxN8k7YJva6bvr6Mzimb9ZbFrGpVy/Wb0=`,
	`cl3X1He2rNZiXbsii3M9zxBTi9B7gB1Tqgk6u5rMytE=`,
	`+0HMUDyMBxFbNat59Vl6Sg+3EcVgiXt1y+JNtnjKb18=`,
	`exk5qBaBxCex5A5Rx9/0qokyz4tu2aAwCJNzsEtIXnk=`,
	`eqS1AIeHCa6xA4WWE2Q8hooTFVyUtQasJeDH3TSxkGU=`,
	`DvqsYyCf9KmbmcC34hTwIjzVWSJnXKTxSxJAlKABSBs=`,
}

// Ident is a node or wallet identity.
type Ident struct {
	Name   string
	Key    *ecdsa.PrivateKey
	NodeID string // 128 hex
	Wallet string // 0x… checksummed
}

var identOnce sync.Once
var idents []*Ident

// Identities returns the fixed identities (index 0..7).
func Identities() []*Ident {
	identOnce.Do(func() {
		for i, b := range keyB64 {
			data, err := base64.StdEncoding.DecodeString(b)
			if err != nil {
				panic(err)
			}
			k, err := crypto.ToECDSA(data)
			if err != nil {
				panic(err)
			}
			idents = append(idents, &Ident{
				Name:   fmt.Sprintf("k%d", i),
				Key:    k,
				NodeID: discv5.PubkeyID(&k.PublicKey).String(),
				Wallet: crypto.PubkeyToAddress(k.PublicKey).Hex(),
			})
		}
	})
	return idents
}

var extraMu sync.Mutex
var extraIdents = map[int]*Ident{}

// ExtraIdentity returns the i-th of an unbounded family of further identities (deterministic keys
// derived from i), for populations larger than the eight fixed ones.
func ExtraIdentity(i int) *Ident {
	extraMu.Lock()
	defer extraMu.Unlock()
	if id, ok := extraIdents[i]; ok {
		return id
	}
	seed := sha256.Sum256([]byte(fmt.Sprintf("vipnode-verif-extra-identity-%d", i)))
	k, err := crypto.ToECDSA(seed[:])
	if err != nil {
		panic(err)
	}
	id := &Ident{Name: fmt.Sprintf("x%d", i), Key: k, NodeID: discv5.PubkeyID(&k.PublicKey).String(), Wallet: crypto.PubkeyToAddress(k.PublicKey).Hex()}
	extraIdents[i] = id
	return id
}

var sigCache sync.Map

func cachedSign(k *ecdsa.PrivateKey, method, named string, nonce int64, args ...interface{}) (string, error) {
	key := fmt.Sprintf("%p|%s|%s|%d|%s", k, method, named, nonce, JSON(args))
	if v, ok := sigCache.Load(key); ok {
		return v.(string), nil
	}
	sig, err := request.Sign(k, method, named, nonce, args...)
	if err == nil {
		sigCache.Store(key, sig)
	}
	return sig, err
}

// SignNode signs a node-style request (deterministic RFC 6979 signatures are cached).
func (id *Ident) SignNode(method string, nonce int64, args ...interface{}) string {
	sig, err := cachedSign(id.Key, method, id.NodeID, nonce, args...)
	if err != nil {
		panic(err)
	}
	return sig
}

// SignWallet signs a wallet-style request.
func (id *Ident) SignWallet(method string, nonce int64, args ...interface{}) string {
	sig, err := cachedSign(id.Key, method, id.Wallet, nonce, args...)
	if err != nil {
		panic(err)
	}
	return sig
}

// Short abbreviates ids in observation strings.
func Short(id string) string {
	for _, x := range Identities() {
		if id == x.NodeID {
			return "N" + x.Name
		}
		if strings.EqualFold(id, x.Wallet) {
			return "W" + x.Name
		}
	}
	if len(id) > 10 {
		return id[:10]
	}
	return id
}

// ---------------------------------------------------------------------------
// Stores

// Driver names.
const (
	Memory = "memory"
	Badger = "badger"
)

var Drivers = []string{Memory, Badger}

type badgerSlot struct {
	s    store.Store
	uses int
}

var badgerPool struct {
	mu    sync.Mutex
	slots map[int]*badgerSlot
}

// NewStore returns a fresh store of the driver. The badger driver (in-memory mode) is a
// per-process instance that is emptied (every key except the format version deleted) on each call:
// opening a new database costs ~35 ms, deleting its keys ~0.1 ms. Worlds that must coexist use
// different slots (NewStoreSlot).
func NewStore(driver string) store.Store { return NewStoreSlot(driver, 0) }

func NewStoreSlot(driver string, slot int) store.Store {
	switch driver {
	case Memory:
		return memory.New()
	case Badger:
		badgerPool.mu.Lock()
		defer badgerPool.mu.Unlock()
		if badgerPool.slots == nil {
			badgerPool.slots = map[int]*badgerSlot{}
		}
		sl := badgerPool.slots[slot]
		if sl == nil {
			sl = &badgerSlot{}
			badgerPool.slots[slot] = sl
		}
		sl.uses++
		if sl.s != nil && sl.uses%150 == 0 {
			// deleted versions pile up in the memtable and slow every iterator down: start afresh
			sl.s.Close()
			sl.s = nil
		}
		if sl.s == nil {
			s, err := badger.Open(badgerdb.DefaultOptions("").WithInMemory(true).WithLogger(nil))
			if err != nil {
				panic(err)
			}
			sl.s = s
		} else {
			BadgerReset(sl.s)
		}
		return sl.s
	}
	panic("unknown driver " + driver)
}

// OpenBadgerDir opens an on-disk store the way pool.go does.
func OpenBadgerDir(dir string) (store.Store, error) {
	return badger.Open(badgerdb.DefaultOptions(dir).WithLogger(nil))
}

func init() {
	// record expiry inside the badger library follows the same clock as the driver's freshness
	// window (virtual when a check turns the virtual clock on, the wall clock otherwise)
	badgerdb.VerifNow = vsched.Now
	// ... and the moment between a transaction's closure and its commit is a scheduling point
	badgerdb.VerifBeforeCommit = func() error {
		vsched.Yield("badger:before-commit")
		if n := injectedConflicts.Load(); n > 0 && injectedConflicts.CompareAndSwap(n, n-1) {
			return badgerdb.ErrConflict // this transaction loses its commit race (injected)
		}
		return nil
	}
}

var injectedConflicts atomic.Int64

// InjectBadgerConflicts makes the next n read-write transactions of the badger library fail with
// ErrConflict at commit time, as they would after losing n commit races in a row.
func InjectBadgerConflicts(n int) { injectedConflicts.Store(int64(n)) }

var badgerDBType = reflect.TypeOf((*badgerdb.DB)(nil))

// BadgerDB reaches the *badger.DB inside the driver (by type, not by field name).
func BadgerDB(s store.Store) *badgerdb.DB {
	f, ok := FieldByType(s, badgerDBType)
	if !ok {
		return nil
	}
	return f.Interface().(*badgerdb.DB)
}

// BadgerReset deletes every key except the format version.
func BadgerReset(s store.Store) {
	db := BadgerDB(s)
	if db == nil {
		panic("vh: cannot reach badger DB")
	}
	var keys [][]byte
	db.View(func(txn *badgerdb.Txn) error {
		it := txn.NewIterator(badgerdb.IteratorOptions{PrefetchValues: false})
		defer it.Close()
		for it.Rewind(); it.Valid(); it.Next() {
			k := it.Item().KeyCopy(nil)
			if string(k) == "vip:version" {
				continue
			}
			keys = append(keys, k)
		}
		return nil
	})
	if len(keys) == 0 {
		return
	}
	if err := db.Update(func(txn *badgerdb.Txn) error {
		for _, k := range keys {
			if err := txn.Delete(k); err != nil {
				return err
			}
		}
		return nil
	}); err != nil {
		panic(err)
	}
}

// BadgerDump lists every key with its raw value (hex), sorted: the complete persistent state.
func BadgerDump(s store.Store) string {
	db := BadgerDB(s)
	if db == nil {
		return "<no db>"
	}
	var out []string
	db.View(func(txn *badgerdb.Txn) error {
		it := txn.NewIterator(badgerdb.DefaultIteratorOptions)
		defer it.Close()
		for it.Rewind(); it.Valid(); it.Next() {
			item := it.Item()
			v, _ := item.ValueCopy(nil)
			out = append(out, fmt.Sprintf("%s=%x", item.Key(), v))
		}
		return nil
	})
	sort.Strings(out)
	return strings.Join(out, "\n")
}

// StoreDump returns the complete internal state of either driver, canonically.
func StoreDump(s store.Store) string {
	if db := BadgerDB(s); db != nil {
		return BadgerDump(s)
	}
	return DeepDump(s)
}

// StateKey is a hash of the complete internal state of a driver, including what no getter shows
// (recorded peer timestamps, nonce records and their expiry). BFS state keys include it so that two
// histories are merged only when the implementation is really in the same state, whatever the
// getters say.
func StateKey(s store.Store) string {
	db := BadgerDB(s)
	if db == nil {
		return Hash(DeepDump(s))
	}
	var out []string
	db.View(func(txn *badgerdb.Txn) error {
		it := txn.NewIterator(badgerdb.DefaultIteratorOptions)
		defer it.Close()
		for it.Rewind(); it.Valid(); it.Next() {
			item := it.Item()
			v, _ := item.ValueCopy(nil)
			out = append(out, fmt.Sprintf("%s=%x@%d", item.Key(), v, item.ExpiresAt()))
		}
		return nil
	})
	sort.Strings(out)
	return Hash(strings.Join(out, "\n"))
}

// IsBadger reports whether s is the badger driver.
func IsBadger(s store.Store) bool { return BadgerDB(s) != nil }

var _ = bytes.NewReader

// SignAs signs with this identity's key a request that names another identity (a forgery).
func (id *Ident) SignAs(method, named string, nonce int64, args ...interface{}) (string, error) {
	return cachedSign(id.Key, method, named, nonce, args...)
}

// ShortJSON renders any value as JSON with the long hex identities abbreviated (for messages).
func ShortJSON(v interface{}) string {
	b, err := json.Marshal(v)
	if err != nil {
		return fmt.Sprintf("%v", v)
	}
	s := string(b)
	for _, id := range Identities() {
		s = strings.ReplaceAll(s, id.NodeID, Short(id.NodeID))
		s = strings.ReplaceAll(s, id.Wallet, Short(id.Wallet))
	}
	return s
}
