//go:build go1.21

// Package vh holds what every check shares: unit/result plumbing, the explicit-state BFS engine,
// the schedule-DFS wrapper, canonical dumps, worlds.
package vh

import (
	"encoding/json"
	"fmt"
	"hash/fnv"
	"os"
	"sort"
	"strings"
	"time"

	"github.com/vipnode/vipnode/v2/internal/verif/vsched"
)

// Violation is one counterexample.
type Violation struct {
	Signature string      `json:"signature"` // stable identifier: scenario class / call site / observation class
	Detail    string      `json:"detail"`
	Unit      string      `json:"unit"`
	Replay    interface{} `json:"replay,omitempty"` // event list or schedule
}

// Result is what one unit reports.
type Result struct {
	Unit        string                 `json:"unit"`
	States      int64                  `json:"states"`
	Transitions int64                  `json:"transitions"`
	Traces      int64                  `json:"traces_validated"`
	Evaluations int64                  `json:"evaluations"`
	Distinct    int64                  `json:"distinct"`
	Samples     []interface{}          `json:"samples,omitempty"`
	Exhaustive  bool                   `json:"exhaustive"`
	Bounds      map[string]interface{} `json:"bounds,omitempty"`
	Notes       []string               `json:"notes,omitempty"`
	Observed    map[string]int64       `json:"observed,omitempty"` // named observation counters (not judged)
	Violations  []Violation            `json:"violations,omitempty"`
	Infra       string                 `json:"infra,omitempty"`
	WallS       float64                `json:"wall_s"`
}

// U is the context handed to a running unit.
type U struct {
	Tier     string
	Seed     int64
	Deadline time.Time
	R        Result
	distinct map[uint64]struct{}
	vsigs    map[string]int
	// ReplayRaw is set in replay mode: the engines run only the recorded history / schedule.
	ReplayRaw json.RawMessage
}

func NewU(tier string, seed int64, deadline time.Time, unit string) *U {
	return &U{Tier: tier, Seed: seed, Deadline: deadline, R: Result{Unit: unit, Exhaustive: true, Bounds: map[string]interface{}{}, Observed: map[string]int64{}},
		distinct: map[uint64]struct{}{}, vsigs: map[string]int{}}
}

func (u *U) Thorough() bool { return u.Tier == "thorough" }

// Expired reports whether the unit should stop (internal deadline); it marks the result non-exhaustive.
func (u *U) Expired() bool {
	if !u.Deadline.IsZero() && time.Now().After(u.Deadline) {
		u.R.Exhaustive = false
		u.Note("internal deadline reached")
		return true
	}
	return false
}

func (u *U) Note(s string) {
	for _, n := range u.R.Notes {
		if n == s {
			return
		}
	}
	if len(u.R.Notes) < 20 {
		u.R.Notes = append(u.R.Notes, s)
	}
}

// Observe records a distinct non-trivial observation (counted once per distinct string).
func (u *U) Observe(s string) {
	h := fnv.New64a()
	h.Write([]byte(s))
	k := h.Sum64()
	if _, ok := u.distinct[k]; !ok {
		u.distinct[k] = struct{}{}
		u.R.Distinct++
	}
}

func (u *U) Count(name string, n int64) { u.R.Observed[name] += n }

func (u *U) Sample(x interface{}) {
	if len(u.R.Samples) < 3 {
		u.R.Samples = append(u.R.Samples, x)
	}
}

// Violate records a violation; at most 3 per signature are kept.
func (u *U) Violate(sig, detail string, replay interface{}) {
	u.vsigs[sig]++
	if u.vsigs[sig] > 2 {
		return
	}
	u.R.Violations = append(u.R.Violations, Violation{Signature: sig, Detail: detail, Unit: u.R.Unit, Replay: replay})
}

func (u *U) NViolations() int { return len(u.R.Violations) }

// Unit is an independently runnable piece of a check.
type Unit struct {
	Name string
	Run  func(u *U)
}

// Check is one property's verification.
type Check struct {
	ID          string
	Level       string // EVIDENCE level
	Rule        string
	Technique   string
	Assumptions []string
	Units       func(tier string) []Unit
}

var Registry = map[string]*Check{}

func Register(c *Check) { Registry[c.ID] = c }

// ---------------------------------------------------------------------------
// Explicit-state BFS over event histories on the real implementation.

type BFSSpec struct {
	Name string
	// New builds a fresh world.
	New func() interface{}
	// Events lists the events enabled in w (labels understood by Apply).
	Events func(w interface{}) []string
	// Apply applies one event. judge=true for the newest event of a history: oracles run and report
	// through u. judge=false while replaying the already-judged prefix.
	Apply func(w interface{}, ev string, judge bool, hist []string)
	// Key is the canonical state key used for deduplication.
	Key func(w interface{}) string
	// Close releases a world (optional).
	Close    func(w interface{})
	MaxDepth int
	// First restricts the first event to indices i with i%NShards==Shard.
	Shard, NShards int
	// MaxStates stops the search (exhaustive=false) when exceeded (0 = none).
	MaxStates int
}

type bfsReplay struct {
	Scenario string   `json:"scenario"`
	Events   []string `json:"events"`
}

// BFSReplay builds the replay record for a history of scenario name.
func BFSReplay(name string, hist []string) interface{} {
	return bfsReplay{Scenario: name, Events: append([]string{}, hist...)}
}

// RunBFS explores all histories up to MaxDepth with state deduplication.
func RunBFS(u *U, spec BFSSpec) {
	if spec.NShards <= 0 {
		spec.NShards = 1
	}
	type node struct{ hist []string }
	build := func(hist []string, judgeLast bool) interface{} {
		w := spec.New()
		for i, ev := range hist {
			spec.Apply(w, ev, judgeLast && i == len(hist)-1, hist[:i+1])
		}
		return w
	}
	if u.ReplayRaw != nil {
		var r bfsReplay
		json.Unmarshal(u.ReplayRaw, &r)
		if r.Scenario != spec.Name {
			return
		}
		w := build(r.Events, true)
		fmt.Printf("REPLAY scenario=%s events=%v\n  state=%s\n", spec.Name, r.Events, spec.Key(w))
		for _, v := range u.R.Violations {
			fmt.Printf("  signature=%q\n  detail=%s\n", v.Signature, v.Detail)
		}
		if spec.Close != nil {
			spec.Close(w)
		}
		return
	}
	seen := map[string]struct{}{}
	w0 := spec.New()
	seen[spec.Key(w0)] = struct{}{}
	ev0 := spec.Events(w0)
	if spec.Close != nil {
		spec.Close(w0)
	}
	u.R.States++
	frontier := []node{{nil}}
	maxDepthDone := 0
	for depth := 0; depth < spec.MaxDepth && len(frontier) > 0; depth++ {
		var next []node
		for _, n := range frontier {
			var evs []string
			if depth == 0 {
				evs = ev0
			} else {
				w := build(n.hist, false)
				evs = spec.Events(w)
				if spec.Close != nil {
					spec.Close(w)
				}
			}
			for i, ev := range evs {
				if depth == 0 && i%spec.NShards != spec.Shard {
					continue
				}
				if u.Expired() {
					u.R.Bounds["bfs_depth_completed"] = maxDepthDone
					return
				}
				h := append(append([]string{}, n.hist...), ev)
				w := build(h, true)
				u.R.Transitions++
				u.R.Traces++
				k := spec.Key(w)
				if spec.Close != nil {
					spec.Close(w)
				}
				if len(u.R.Samples) < 2 && depth == spec.MaxDepth-1 {
					u.Sample(h)
				}
				if u.NViolations() > 0 {
					u.R.Bounds["bfs_depth_completed"] = maxDepthDone
					u.R.Exhaustive = false
					return
				}
				if _, ok := seen[k]; ok {
					continue
				}
				seen[k] = struct{}{}
				u.R.States++
				next = append(next, node{h})
				if spec.MaxStates > 0 && len(seen) > spec.MaxStates {
					u.R.Exhaustive = false
					u.Note(fmt.Sprintf("state cap %d reached at depth %d", spec.MaxStates, depth+1))
					u.R.Bounds["bfs_depth_completed"] = maxDepthDone
					return
				}
			}
		}
		maxDepthDone = depth + 1
		frontier = next
	}
	u.R.Bounds["bfs_depth_completed"] = maxDepthDone
}

// ---------------------------------------------------------------------------
// helpers

func SortedStrings(s []string) []string {
	r := append([]string{}, s...)
	sort.Strings(r)
	return r
}

func JoinSorted(s []string) string { return strings.Join(SortedStrings(s), ",") }

func JSON(v interface{}) string {
	b, err := json.Marshal(v)
	if err != nil {
		return fmt.Sprintf("<json error %v>", err)
	}
	return string(b)
}

func Hash(s string) string {
	h := fnv.New64a()
	h.Write([]byte(s))
	return fmt.Sprintf("%016x", h.Sum64())
}

// Scratch returns a fresh scratch directory outside /repo and /verif; caller removes it.
func Scratch(prefix string) string {
	base := os.Getenv("VERIF_SCRATCH")
	if base == "" {
		base = "/var/tmp"
	}
	d, err := os.MkdirTemp(base, prefix)
	if err != nil {
		panic(err)
	}
	return d
}

// ResetGlobals puts the process-wide harness state (virtual clock, map rotation) into its initial
// position; called before every unit so that units are independent of each other.
func ResetGlobals() {
	vsched.SetVirtualClock(true)
	vsched.ResetClock(0)
	vsched.SetMapRotation(0)
	vsched.SetPanicHook(nil)
}

// Recover runs f and converts a panic into an error string ("" if none).
func Recover(f func()) (p string) {
	defer func() {
		if r := recover(); r != nil {
			p = fmt.Sprint(r)
		}
	}()
	f()
	return ""
}
