//go:build go1.21

package vh

import (
	"bytes"
	"encoding/json"
	"fmt"
	"io"
	"net"
	"net/http"
	"os"
	"os/exec"
	"strings"
	"sync"
	"syscall"
	"time"

	"github.com/gorilla/websocket"
)

// PoolProc is a running `vipnode pool` process built from the working tree.
type PoolProc struct {
	Addr   string
	cmd    *exec.Cmd
	out    *lockedBuf
	exited chan struct{}
	err    error
}

type lockedBuf struct {
	mu sync.Mutex
	b  bytes.Buffer
}

func (l *lockedBuf) Write(p []byte) (int, error) {
	l.mu.Lock()
	defer l.mu.Unlock()
	if l.b.Len() > 1<<20 {
		l.b.Reset()
	}
	return l.b.Write(p)
}
func (l *lockedBuf) String() string {
	l.mu.Lock()
	defer l.mu.Unlock()
	return l.b.String()
}

// VipnodeBin is the path of the binary built by vcheck ("" if the check did not ask for it).
func VipnodeBin() string { return os.Getenv("VERIF_VIPNODE_BIN") }

func freePort() int {
	l, err := net.Listen("tcp", "127.0.0.1:0")
	if err != nil {
		panic(err)
	}
	defer l.Close()
	return l.Addr().(*net.TCPAddr).Port
}

// StartPool launches `vipnode pool --store=memory` on a free loopback port and waits until it
// answers vipnode_ping.
func StartPool(extra ...string) (*PoolProc, error) {
	return StartPoolArgs(append([]string{"--store=memory"}, extra...)...)
}

// StartPoolArgs launches `vipnode pool <args> --bind <free loopback port>` and waits until it
// answers vipnode_ping.
func StartPoolArgs(poolArgs ...string) (*PoolProc, error) {
	return StartPoolHome("", poolArgs...)
}

// StartPoolHome is StartPoolArgs with the process' HOME set to home (kept when the process is
// stopped; XDG_DATA_HOME unset, so that the binary's default data directory lies under it). With
// home == "" a throw-away HOME is used.
func StartPoolHome(home string, poolArgs ...string) (*PoolProc, error) {
	return StartPoolEnv(home, nil, poolArgs...)
}

// StartPoolEnv is StartPoolHome with extra environment variables for the pool process.
func StartPoolEnv(home string, env []string, poolArgs ...string) (*PoolProc, error) {
	bin := VipnodeBin()
	if bin == "" {
		return nil, fmt.Errorf("VERIF_VIPNODE_BIN not set")
	}
	var lastErr error
	for attempt := 0; attempt < 3; attempt++ {
		p := &PoolProc{Addr: fmt.Sprintf("127.0.0.1:%d", freePort()), out: &lockedBuf{}, exited: make(chan struct{})}
		args := append([]string{"pool", "--bind", p.Addr}, poolArgs...)
		p.cmd = exec.Command(bin, args...)
		p.cmd.Stdout, p.cmd.Stderr = p.out, p.out
		p.cmd.SysProcAttr = &syscall.SysProcAttr{Setpgid: true, Pdeathsig: syscall.SIGKILL}
		if home == "" {
			p.cmd.Env = append(os.Environ(), "HOME="+Scratch("home-"))
		} else {
			for _, e := range os.Environ() {
				if !strings.HasPrefix(e, "XDG_DATA_HOME=") && !strings.HasPrefix(e, "HOME=") {
					p.cmd.Env = append(p.cmd.Env, e)
				}
			}
			p.cmd.Env = append(p.cmd.Env, "HOME="+home)
		}
		p.cmd.Env = append(p.cmd.Env, env...)
		if err := p.cmd.Start(); err != nil {
			return nil, err
		}
		go func() { p.err = p.cmd.Wait(); close(p.exited) }()
		deadline := time.Now().Add(120 * time.Second) // generous: the machine may be heavily loaded
		for time.Now().Before(deadline) {
			if !p.Alive() {
				break
			}
			if _, body, err := p.Post(`{"jsonrpc":"2.0","id":1,"method":"vipnode_ping","params":[]}`); err == nil && strings.Contains(body, "pong") {
				return p, nil
			}
			time.Sleep(30 * time.Millisecond)
		}
		lastErr = fmt.Errorf("pool did not come up on %s: %s", p.Addr, p.out.String())
		p.Stop()
	}
	return nil, lastErr
}

// Alive reports whether the process is still running.
func (p *PoolProc) Alive() bool {
	select {
	case <-p.exited:
		return false
	default:
		return true
	}
}

// Output returns what the process printed so far.
func (p *PoolProc) Output() string { return p.out.String() }

// Stop kills the process.
func (p *PoolProc) Stop() {
	if p.cmd != nil && p.cmd.Process != nil {
		syscall.Kill(-p.cmd.Process.Pid, syscall.SIGKILL)
		<-p.exited
	}
	for _, e := range p.cmd.Env {
		if strings.HasPrefix(e, "HOME=") && strings.Contains(e, "home-") {
			os.RemoveAll(strings.TrimPrefix(e, "HOME="))
		}
	}
}

var httpClient = &http.Client{Timeout: 120 * time.Second}

// Post sends one HTTP JSON-RPC request body; returns status, body.
func (p *PoolProc) Post(body string) (int, string, error) {
	resp, err := httpClient.Post("http://"+p.Addr+"/", "application/json", strings.NewReader(body))
	if err != nil {
		return 0, "", err
	}
	defer resp.Body.Close()
	b, _ := io.ReadAll(io.LimitReader(resp.Body, 1<<20))
	return resp.StatusCode, string(b), nil
}

// WS is a raw WebSocket client connection to the pool.
type WS struct{ C *websocket.Conn }

// DialWS opens a WebSocket connection.
func (p *PoolProc) DialWS() (*WS, error) { return p.DialWSHeader(nil) }

// DialWSHeader opens a WebSocket connection sending the given extra handshake headers.
func (p *PoolProc) DialWSHeader(h http.Header) (*WS, error) {
	d := websocket.Dialer{HandshakeTimeout: 60 * time.Second}
	c, _, err := d.Dial("ws://"+p.Addr+"/", h)
	if err != nil {
		return nil, err
	}
	return &WS{C: c}, nil
}

// Send writes one text frame.
func (w *WS) Send(text string) error {
	w.C.SetWriteDeadline(time.Now().Add(60 * time.Second))
	return w.C.WriteMessage(websocket.TextMessage, []byte(text))
}

// Recv reads one frame (with a deadline).
func (w *WS) Recv(d time.Duration) (string, error) {
	w.C.SetReadDeadline(time.Now().Add(d))
	_, b, err := w.C.ReadMessage()
	return string(b), err
}

// Call sends a request text and waits for the reply carrying the id.
func (w *WS) Call(text string, d time.Duration) (string, error) {
	if err := w.Send(text); err != nil {
		return "", err
	}
	return w.Recv(d)
}

func (w *WS) Close() { w.C.Close() }

// RPCReply is the decoded reply of a JSON-RPC request.
type RPCReply struct {
	ID     json.RawMessage `json:"id"`
	Result json.RawMessage `json:"result"`
	Error  *struct {
		Code    int    `json:"code"`
		Message string `json:"message"`
	} `json:"error"`
}

// DecodeReply parses a reply body.
func DecodeReply(body string) (*RPCReply, error) {
	var r RPCReply
	if err := json.Unmarshal([]byte(body), &r); err != nil {
		return nil, err
	}
	return &r, nil
}

// Code returns the error code of a reply (0 = success).
func (r *RPCReply) Code() int {
	if r == nil || r.Error == nil {
		return 0
	}
	return r.Error.Code
}

// RequestText renders a signed call as a JSON-RPC request.
func RequestText(c Call, id int) string {
	params := []interface{}{c.Sig, c.ID, c.Nonce}
	if c.Endpoint != "pool_withdraw" {
		params = append(params, c.Param)
	}
	pj, _ := json.Marshal(params)
	return fmt.Sprintf(`{"jsonrpc":"2.0","id":%d,"method":%q,"params":%s}`, id, c.Endpoint, pj)
}

var wireNonce int64

// WireNonce returns a fresh real-time nonce (the binary runs on the real clock).
func WireNonce() int64 {
	wireNonce++
	return time.Now().UnixNano() + wireNonce
}

// ServeWhitelist answers reverse vipnode_whitelist / vipnode_disconnect requests arriving on a
// host's WebSocket until the connection ends; it returns the channel of replies to the host's own
// requests and records the reverse calls.
type HostConn struct {
	WS      *WS
	mu      sync.Mutex
	Reverse []string // reverse requests received (method:arg)
	Replies chan string
}

func NewHostConn(ws *WS) *HostConn {
	h := &HostConn{WS: ws, Replies: make(chan string, 16)}
	go func() {
		for {
			ws.C.SetReadDeadline(time.Now().Add(10 * time.Minute))
			_, b, err := ws.C.ReadMessage()
			if err != nil {
				close(h.Replies)
				return
			}
			var m struct {
				ID     json.RawMessage   `json:"id"`
				Method string            `json:"method"`
				Params []json.RawMessage `json:"params"`
			}
			json.Unmarshal(b, &m)
			if m.Method != "" {
				arg := ""
				if len(m.Params) > 0 {
					arg = string(m.Params[0])
				}
				h.mu.Lock()
				h.Reverse = append(h.Reverse, m.Method+":"+arg)
				h.mu.Unlock()
				ws.Send(fmt.Sprintf(`{"jsonrpc":"2.0","id":%s,"result":null}`, string(m.ID)))
				continue
			}
			h.Replies <- string(b)
		}
	}()
	return h
}

// Call sends a request on the host connection and waits for its reply.
func (h *HostConn) Call(text string, d time.Duration) (string, error) {
	if err := h.WS.Send(text); err != nil {
		return "", err
	}
	select {
	case r, ok := <-h.Replies:
		if !ok {
			return "", fmt.Errorf("connection closed")
		}
		return r, nil
	case <-time.After(d):
		return "", fmt.Errorf("timeout waiting for reply")
	}
}

// ReverseCalls returns a copy of the reverse requests seen so far.
func (h *HostConn) ReverseCalls() []string {
	h.mu.Lock()
	defer h.mu.Unlock()
	return append([]string{}, h.Reverse...)
}
