//go:build go1.21

package vh

import (
	"context"
	"crypto/ecdsa"
	"fmt"
	"math/big"
	"reflect"
	"sync"
	"time"

	ethereum "github.com/ethereum/go-ethereum"
	"github.com/ethereum/go-ethereum/core/types"

	"github.com/ethereum/go-ethereum/accounts/abi/bind"
	"github.com/ethereum/go-ethereum/accounts/abi/bind/backends"
	"github.com/ethereum/go-ethereum/common"
	"github.com/ethereum/go-ethereum/core"
	"github.com/ethereum/go-ethereum/crypto"
	"github.com/vipnode/vipnode-contract/go/vipnodepool"
	"github.com/vipnode/vipnode/v2/pool/payment"
	"github.com/vipnode/vipnode/v2/pool/store"
)

// ChainPayment is what payment.ContractPayment returns (an unexported type): the pool's balance
// store over the contract plus the settlement transaction.
type ChainPayment interface {
	store.BalanceStore
	OpSettle(account store.Account, paymentAmount *big.Int, newBalance *big.Int) (string, error)
}

// ChainWorld is the payment side of a pool wired exactly as runPool wires it - PaymentService ->
// payment.ContractPayment (balance cache, contract reads, Balance-event subscription, OpSettle) ->
// the real VipnodePool contract - on go-ethereum's simulated chain.
type ChainWorld struct {
	Backend  *backends.SimulatedBackend
	Address  common.Address
	Contract *vipnodepool.VipnodePool
	Operator *ecdsa.PrivateKey
	Ledger   store.Store
	CP       ChainPayment
	Payment  *payment.PaymentService
	min, fee *big.Int
	nonce    int64
	subs     *subTracker
}

// subTracker is the chain connection handed to ContractPayment: the simulated backend, remembering
// the log subscriptions made through it so that Close can end them (the pool subscribes with
// context.Background(), like runPool; a world that is thrown away must not keep its event loop).
type subTracker struct {
	*backends.SimulatedBackend
	mu   sync.Mutex
	subs []ethereum.Subscription
}

func (t *subTracker) SubscribeFilterLogs(ctx context.Context, q ethereum.FilterQuery, ch chan<- types.Log) (ethereum.Subscription, error) {
	sub, err := t.SimulatedBackend.SubscribeFilterLogs(ctx, q, ch)
	if err == nil {
		t.mu.Lock()
		t.subs = append(t.subs, sub)
		t.mu.Unlock()
	}
	return sub, err
}

// NewChainWorld deploys the contract (operator = identity 6) and starts the payment side.
func NewChainWorld(ledger store.Store, min, fee *big.Int, funded ...*Ident) (*ChainWorld, error) {
	op := Identities()[6].Key
	// (below 2^63: the simulated backend's gas estimation truncates balance/gasPrice to 64 bits)
	rich := big.NewInt(4e18)
	alloc := core.GenesisAlloc{crypto.PubkeyToAddress(op.PublicKey): {Balance: rich}}
	for _, id := range funded {
		alloc[crypto.PubkeyToAddress(id.Key.PublicKey)] = core.GenesisAccount{Balance: rich}
	}
	backend := backends.NewSimulatedBackend(alloc, 8000000)
	addr, _, contract, err := vipnodepool.DeployVipnodePool(bind.NewKeyedTransactor(op), backend, crypto.PubkeyToAddress(op.PublicKey))
	if err != nil {
		return nil, err
	}
	backend.Commit()
	w := &ChainWorld{Backend: backend, Address: addr, Contract: contract, Operator: op, Ledger: ledger, min: min, fee: fee, nonce: time.Now().UnixNano()}
	if err := w.Restart(); err != nil {
		return nil, err
	}
	return w, nil
}

// Restart builds a fresh ContractPayment and PaymentService over the same chain and ledger (what a
// pool restart does: nothing is cached).
func (w *ChainWorld) Restart() error {
	if w.subs == nil {
		w.subs = &subTracker{SimulatedBackend: w.Backend}
	}
	cp, err := payment.ContractPayment(w.Ledger, w.Address, w.subs, bind.NewKeyedTransactor(w.Operator))
	if err != nil {
		return err
	}
	w.CP = cp
	w.Payment = &payment.PaymentService{NonceStore: w.Ledger, AccountStore: w.Ledger, BalanceStore: cp, Settle: cp.OpSettle, WithdrawMin: w.min}
	if w.fee != nil {
		fee := new(big.Int).Set(w.fee)
		w.Payment.WithdrawFee = func(a *big.Int) *big.Int { return new(big.Int).Sub(a, fee) }
	}
	return nil
}

// Close stops the simulated chain (ends the Balance-event subscriptions, frees the chain's database).
func (w *ChainWorld) Close() {
	if w == nil || w.Backend == nil {
		return
	}
	if w.subs != nil {
		w.subs.mu.Lock()
		for _, sub := range w.subs.subs {
			sub.Unsubscribe()
		}
		w.subs.subs = nil
		w.subs.mu.Unlock()
	}
	w.Backend.Close()
	releaseChainCaches(w.Backend)
}

// Deposit sends addBalance from the wallet.
func (w *ChainWorld) Deposit(id *Ident, amount *big.Int) error {
	auth := bind.NewKeyedTransactor(id.Key)
	auth.Value = amount
	_, err := w.Contract.AddBalance(auth)
	w.Backend.Commit()
	return err
}

// ForceSettle sends forceSettle from the wallet (puts a time lock on its deposit).
func (w *ChainWorld) ForceSettle(id *Ident) error {
	_, err := w.Contract.ForceSettle(bind.NewKeyedTransactor(id.Key))
	w.Backend.Commit()
	return err
}

// Drain lets the operator take amount out of the contract.
func (w *ChainWorld) Drain(amount *big.Int) error {
	_, err := w.Contract.OpWithdraw(bind.NewKeyedTransactor(w.Operator), amount)
	w.Backend.Commit()
	return err
}

// Withdraw sends a correctly signed pool_withdraw and mines whatever it submitted.
func (w *ChainWorld) Withdraw(id *Ident) error {
	w.nonce++
	sig := id.SignWallet("pool_withdraw", w.nonce)
	err := w.Payment.Withdraw(context.Background(), sig, id.Wallet, w.nonce)
	w.Backend.Commit()
	return err
}

// OnChain returns the wallet's deposit and time lock in the contract and its own funds.
func (w *ChainWorld) OnChain(id *Ident) (deposit, timeLocked, funds *big.Int) {
	addr := crypto.PubkeyToAddress(id.Key.PublicKey)
	r, err := w.Contract.Accounts(nil, addr)
	if err != nil {
		panic(err)
	}
	f, err := w.Backend.BalanceAt(context.Background(), addr, nil)
	if err != nil {
		panic(err)
	}
	return r.Balance, r.TimeLocked, f
}

// ContractFunds returns the ether the contract holds.
func (w *ChainWorld) ContractFunds() *big.Int {
	f, err := w.Backend.BalanceAt(context.Background(), w.Address, nil)
	if err != nil {
		panic(err)
	}
	return f
}

// AwaitCacheTimeout bounds AwaitCache.
var AwaitCacheTimeout = 2 * time.Minute

// AwaitCache waits until the pool's view of the wallet's deposit equals the chain's (Balance events
// are delivered by a subscription goroutine). Generous bound; normally a few microseconds.
func (w *ChainWorld) AwaitCache(id *Ident) error {
	dep, _, _ := w.OnChain(id)
	deadline := time.Now().Add(AwaitCacheTimeout)
	for {
		b, err := w.CP.GetAccountBalance(store.Account(id.Wallet))
		if err == nil && b.Deposit.Cmp(dep) == 0 {
			return nil
		}
		if time.Now().After(deadline) {
			return fmt.Errorf("the pool's cached deposit of %s never caught up with the chain: cached %v (err %v), on chain %s", id.Name, &b.Deposit, err, dep)
		}
		time.Sleep(200 * time.Microsecond)
	}
}

// releaseChainCaches gives the off-heap chunks of the stopped chain's trie and snapshot caches back
// (fastcache only recycles them on Reset; without this every discarded world keeps ~150 kB that the
// garbage collector cannot see, which is gigabytes over a deep search).
func releaseChainCaches(b *backends.SimulatedBackend) {
	defer func() { recover() }() // best effort: a differently shaped go-ethereum just keeps its caches
	bc := b.Blockchain()
	seen := map[uintptr]bool{}
	var walk func(v reflect.Value, depth int)
	walk = func(v reflect.Value, depth int) {
		if depth > 12 || !v.IsValid() {
			return
		}
		switch v.Kind() {
		case reflect.Ptr:
			if v.IsNil() || seen[v.Pointer()] {
				return
			}
			seen[v.Pointer()] = true
			// (recognised by name: importing the package would make it a direct requirement of the
			// repository's go.mod)
			if v.Type().String() == "*fastcache.Cache" {
				if c, ok := accessibleCopy(v).Interface().(interface{ Reset() }); ok {
					c.Reset()
				}
				return
			}
			walk(v.Elem(), depth+1)
		case reflect.Interface:
			if !v.IsNil() {
				walk(v.Elem(), depth+1)
			}
		case reflect.Struct:
			for i := 0; i < v.NumField(); i++ {
				switch v.Field(i).Kind() {
				case reflect.Ptr, reflect.Interface, reflect.Struct, reflect.Map:
					walk(v.Field(i), depth+1)
				}
			}
		case reflect.Map:
			if v.Len() > 64 {
				return
			}
			for _, k := range v.MapKeys() {
				walk(v.MapIndex(k), depth+1)
			}
		}
	}
	walk(reflect.ValueOf(bc), 0)
}
