//go:build go1.21

package vh

import (
	"fmt"
	"math/big"
	"runtime/debug"
	"sort"
	"strings"
	"time"

	"github.com/vipnode/vipnode/v2/internal/verif/vsched"
	"github.com/vipnode/vipnode/v2/pool/store"
)

// StoreModel is the executable reference model of the documented store contract
// (pool/store/store.go interface comments + the property statements). Deliberately boring.
type StoreModel struct {
	Nodes   map[store.NodeID]store.Node
	Peers   map[store.NodeID]map[store.NodeID]time.Time
	Link    map[store.NodeID]store.Account
	Credit  map[store.Account]*big.Int // account credit; presence = account balance exists
	Trial   map[store.NodeID]*big.Int  // trial credit; presence = trial balance exists
	Nonces  map[string]int64
	Window  time.Duration // activity / expiry window
	NonceWd time.Duration
}

func NewStoreModel() *StoreModel {
	return &StoreModel{
		Nodes: map[store.NodeID]store.Node{}, Peers: map[store.NodeID]map[store.NodeID]time.Time{},
		Link: map[store.NodeID]store.Account{}, Credit: map[store.Account]*big.Int{}, Trial: map[store.NodeID]*big.Int{},
		Nonces: map[string]int64{}, Window: store.ExpireInterval, NonceWd: store.ExpireNonce,
	}
}

func (m *StoreModel) CheckAndSaveNonce(id string, nonce int64) error {
	if nonce <= vsched.Now().Add(-m.NonceWd).UnixNano() {
		return store.ErrInvalidNonce
	}
	if h, ok := m.Nonces[id]; ok && nonce <= h {
		return store.ErrInvalidNonce
	}
	m.Nonces[id] = nonce
	return nil
}

func (m *StoreModel) GetNode(id store.NodeID) (*store.Node, error) {
	n, ok := m.Nodes[id]
	if !ok {
		return nil, store.ErrUnregisteredNode
	}
	return &n, nil
}

func (m *StoreModel) SetNode(n store.Node) error {
	if n.ID == "" {
		return store.ErrMalformedNode
	}
	m.Nodes[n.ID] = n
	if m.Peers[n.ID] == nil {
		m.Peers[n.ID] = map[store.NodeID]time.Time{}
	}
	return nil
}

// Balance mirrors store.Balance with value semantics.
type MBalance struct {
	Account store.Account
	Credit  string
	Exists  bool
}

func (m *StoreModel) GetNodeBalance(id store.NodeID) (MBalance, error) {
	if _, ok := m.Nodes[id]; !ok {
		return MBalance{Credit: "0"}, store.ErrUnregisteredNode
	}
	if acc, ok := m.Link[id]; ok {
		return m.GetAccountBalance(acc), nil
	}
	if c, ok := m.Trial[id]; ok {
		return MBalance{Credit: c.String(), Exists: true}, nil
	}
	return MBalance{Credit: "0"}, nil
}

func (m *StoreModel) AddNodeBalance(id store.NodeID, credit *big.Int) error {
	if _, ok := m.Nodes[id]; !ok {
		return store.ErrUnregisteredNode
	}
	if acc, ok := m.Link[id]; ok {
		m.addAccount(acc, credit)
		return nil
	}
	c := m.Trial[id]
	if c == nil {
		c = new(big.Int)
	}
	m.Trial[id] = new(big.Int).Add(c, credit)
	return nil
}

func (m *StoreModel) addAccount(acc store.Account, credit *big.Int) {
	c := m.Credit[acc]
	if c == nil {
		c = new(big.Int)
	}
	m.Credit[acc] = new(big.Int).Add(c, credit)
}

func (m *StoreModel) GetAccountBalance(acc store.Account) MBalance {
	if c, ok := m.Credit[acc]; ok {
		return MBalance{Account: acc, Credit: c.String(), Exists: true}
	}
	return MBalance{Credit: "0"}
}

func (m *StoreModel) AddAccountBalance(acc store.Account, credit *big.Int) error {
	m.addAccount(acc, credit)
	return nil
}

func (m *StoreModel) AddAccountNode(acc store.Account, id store.NodeID) error {
	if _, ok := m.Nodes[id]; !ok {
		return store.ErrUnregisteredNode
	}
	m.Link[id] = acc
	t := m.Trial[id]
	if t == nil {
		t = new(big.Int)
	}
	delete(m.Trial, id)
	m.addAccount(acc, t)
	return nil
}

func (m *StoreModel) IsAccountNode(acc store.Account, id store.NodeID) error {
	if a, ok := m.Link[id]; ok && a == acc {
		return nil
	}
	return store.ErrNotAuthorized
}

func (m *StoreModel) GetAccountNodes(acc store.Account) []string {
	var r []string
	for id, a := range m.Link {
		if a == acc {
			r = append(r, string(id))
		}
	}
	sort.Strings(r)
	return r
}

// Eligible returns the ids of hosts that ActiveHosts(kind, ·) may return.
func (m *StoreModel) Eligible(kind string) []string {
	since := vsched.Now().Add(-m.Window)
	var r []string
	for id, n := range m.Nodes {
		if n.IsHost && (kind == "" || n.Kind == kind) && n.LastSeen.After(since) {
			r = append(r, string(id))
		}
	}
	sort.Strings(r)
	return r
}

func (m *StoreModel) NodePeers(id store.NodeID) ([]string, error) {
	if _, ok := m.Nodes[id]; !ok {
		return nil, store.ErrUnregisteredNode
	}
	var r []string
	for p := range m.Peers[id] {
		if _, ok := m.Nodes[p]; ok {
			r = append(r, string(p))
		}
	}
	sort.Strings(r)
	return r, nil
}

// UpdateNodePeers: C11's rule. Returns the sorted ids declared invalid.
func (m *StoreModel) UpdateNodePeers(id store.NodeID, peers []string, block uint64) ([]string, error) {
	n, ok := m.Nodes[id]
	if !ok {
		return nil, store.ErrUnregisteredNode
	}
	now := vsched.Now()
	tracked := m.Peers[id]
	if tracked == nil {
		tracked = map[store.NodeID]time.Time{}
		m.Peers[id] = tracked
	}
	n.LastSeen = now
	n.BlockNumber = block
	m.Nodes[id] = n
	for _, p := range peers {
		if pn, ok := m.Nodes[store.NodeID(p)]; ok {
			tracked[store.NodeID(p)] = pn.LastSeen
		}
	}
	deadline := now.Add(-m.Window)
	var inactive []string
	for p, ts := range tracked {
		if !ts.After(deadline) {
			delete(tracked, p)
			inactive = append(inactive, string(p))
		}
	}
	sort.Strings(inactive)
	return inactive, nil
}

// MStats is the model's view of store.Stats.
type MStats struct {
	ActiveHosts, TotalHosts, ActiveClients, TotalClients int
	LatestBlock                                          uint64
	TotalCredit                                          string
	Trials                                               int
}

func (m *StoreModel) Stats() MStats {
	var s MStats
	since := vsched.Now().Add(-m.Window)
	for _, n := range m.Nodes {
		act := n.LastSeen.After(since)
		if n.IsHost {
			s.TotalHosts++
			if act {
				s.ActiveHosts++
			}
		} else {
			s.TotalClients++
			if act {
				s.ActiveClients++
			}
		}
		if n.BlockNumber > s.LatestBlock {
			s.LatestBlock = n.BlockNumber
		}
	}
	tot := new(big.Int)
	for _, c := range m.Credit {
		tot.Add(tot, c)
	}
	for _, c := range m.Trial {
		tot.Add(tot, c)
	}
	s.TotalCredit = tot.String()
	s.Trials = len(m.Trial)
	return s
}

// TotalCredit is Σ account credit + Σ trial credit.
func (m *StoreModel) TotalCredit() *big.Int {
	tot := new(big.Int)
	for _, c := range m.Credit {
		tot.Add(tot, c)
	}
	for _, c := range m.Trial {
		tot.Add(tot, c)
	}
	return tot
}

// Key is the canonical model state.
func (m *StoreModel) Key() string {
	var b strings.Builder
	ids := make([]string, 0, len(m.Nodes))
	for id := range m.Nodes {
		ids = append(ids, string(id))
	}
	sort.Strings(ids)
	for _, id := range ids {
		n := m.Nodes[store.NodeID(id)]
		fmt.Fprintf(&b, "N%s:%s,%v,%d,%d,%s,%s|", id, n.Kind, n.IsHost, n.LastSeen.Sub(vsched.Base()), n.BlockNumber, n.URI, n.Payout)
		var ps []string
		for p, ts := range m.Peers[store.NodeID(id)] {
			ps = append(ps, fmt.Sprintf("%s@%d", p, ts.Sub(vsched.Base())))
		}
		sort.Strings(ps)
		b.WriteString(strings.Join(ps, ",") + "|")
		if a, ok := m.Link[store.NodeID(id)]; ok {
			fmt.Fprintf(&b, "L%s|", a)
		}
		if t, ok := m.Trial[store.NodeID(id)]; ok {
			fmt.Fprintf(&b, "T%s|", t)
		}
	}
	var accs []string
	for a, c := range m.Credit {
		accs = append(accs, fmt.Sprintf("A%s=%s", a, c))
	}
	sort.Strings(accs)
	b.WriteString(strings.Join(accs, ","))
	var ns []string
	for k, v := range m.Nonces {
		ns = append(ns, fmt.Sprintf("%s=%d", k, v))
	}
	sort.Strings(ns)
	b.WriteString("|" + strings.Join(ns, ","))
	fmt.Fprintf(&b, "|clk=%d", vsched.Elapsed())
	return b.String()
}

// ---------------------------------------------------------------------------
// Comparison of a real driver against the model over a read battery.

func nodeStr(n *store.Node) string {
	if n == nil {
		return "<nil>"
	}
	return fmt.Sprintf("{%s %q seen=%d kind=%s host=%v payout=%s block=%d nv=%s vv=%s}", n.ID, n.URI, n.LastSeen.Sub(vsched.Base()), n.Kind, n.IsHost, n.Payout, n.BlockNumber, n.NodeVersion, n.VipnodeVersion)
}

func idsOf(ns []store.Node) []string {
	r := make([]string, len(ns))
	for i, n := range ns {
		r[i] = string(n.ID)
	}
	sort.Strings(r)
	return r
}

// ReadBattery compares every read of the driver with the model; returns mismatch descriptions
// (class, detail). ids/accounts are the probe alphabets.
func (m *StoreModel) ReadBattery(s store.Store, ids []store.NodeID, accounts []store.Account, limits []int) (out [][2]string) {
	bad := func(class, format string, a ...interface{}) {
		out = append(out, [2]string{class, fmt.Sprintf(format, a...)})
	}
	// a getter of the driver under test that panics is a finding about the driver, not a harness fault
	defer func() {
		if r := recover(); r != nil {
			st := string(debug.Stack())
			at := ""
			for _, l := range strings.Split(st, "\n") {
				if strings.Contains(l, "/pool/store/") && strings.Contains(l, ".go:") {
					at = strings.TrimSpace(l)
					break
				}
			}
			bad("getter-panicked", "a getter of the driver panicked: %v (%s)", r, at)
		}
	}()
	for _, id := range ids {
		gn, gerr := s.GetNode(id)
		mn, merr := m.GetNode(id)
		if (gerr == nil) != (merr == nil) || (merr != nil && gerr != merr) {
			bad("GetNode/error", "GetNode(%q): err=%v, model err=%v", id, gerr, merr)
		} else if merr == nil && nodeStr(gn) != nodeStr(mn) {
			bad("GetNode/record", "GetNode(%q)=%s, model %s", id, nodeStr(gn), nodeStr(mn))
		}
		gp, gerr := s.NodePeers(id)
		mp, merr := m.NodePeers(id)
		if (gerr == nil) != (merr == nil) || (merr != nil && gerr != merr) {
			bad("NodePeers/error", "NodePeers(%q): err=%v, model err=%v", id, gerr, merr)
		} else if merr == nil {
			if strings.Join(idsOf(gp), ",") != strings.Join(mp, ",") {
				bad("NodePeers/set", "NodePeers(%q)=%v, model %v", id, idsOf(gp), mp)
			} else {
				for _, p := range gp {
					if mn := m.Nodes[p.ID]; nodeStr(&p) != nodeStr(&mn) {
						bad("NodePeers/record", "NodePeers(%q) returned %s, model record %s", id, nodeStr(&p), nodeStr(&mn))
					}
				}
			}
		}
		gb, gerr := s.GetNodeBalance(id)
		mb, merr := m.GetNodeBalance(id)
		if (gerr == nil) != (merr == nil) || (merr != nil && gerr != merr) {
			bad("GetNodeBalance/error", "GetNodeBalance(%q): err=%v, model err=%v", id, gerr, merr)
		} else if merr == nil {
			if gb.Credit.String() != mb.Credit {
				bad("GetNodeBalance/credit", "GetNodeBalance(%q).Credit=%s, model %s", id, gb.Credit.String(), mb.Credit)
			}
			if gb.Account != mb.Account {
				bad("GetNodeBalance/account", "GetNodeBalance(%q).Account=%q, model %q", id, gb.Account, mb.Account)
			}
			if gb.Deposit.Sign() != 0 {
				bad("GetNodeBalance/deposit", "GetNodeBalance(%q).Deposit=%s from a plain store", id, gb.Deposit.String())
			}
		}
		for _, a := range accounts {
			ge, me := s.IsAccountNode(a, id), m.IsAccountNode(a, id)
			if ge != me {
				bad("IsAccountNode", "IsAccountNode(%q,%q)=%v, model %v", a, id, ge, me)
			}
		}
	}
	for _, a := range accounts {
		gb, gerr := s.GetAccountBalance(a)
		mb := m.GetAccountBalance(a)
		if gerr != nil {
			bad("GetAccountBalance/error", "GetAccountBalance(%q): err=%v", a, gerr)
		} else {
			if gb.Credit.String() != mb.Credit {
				bad("GetAccountBalance/credit", "GetAccountBalance(%q).Credit=%s, model %s", a, gb.Credit.String(), mb.Credit)
			}
			if gb.Account != mb.Account {
				bad("GetAccountBalance/account", "GetAccountBalance(%q).Account=%q, model %q", a, gb.Account, mb.Account)
			}
		}
		gn, gerr := s.GetAccountNodes(a)
		if gerr != nil {
			bad("GetAccountNodes/error", "GetAccountNodes(%q): err=%v", a, gerr)
		} else {
			gs := make([]string, len(gn))
			for i, x := range gn {
				gs[i] = string(x)
			}
			sort.Strings(gs)
			if strings.Join(gs, ",") != strings.Join(m.GetAccountNodes(a), ",") {
				bad("GetAccountNodes/set", "GetAccountNodes(%q)=%v, model %v", a, gs, m.GetAccountNodes(a))
			}
		}
	}
	for _, kind := range []string{"", "geth", "parity"} {
		el := m.Eligible(kind)
		elset := map[string]bool{}
		for _, e := range el {
			elset[e] = true
		}
		for _, lim := range limits {
			got, err := s.ActiveHosts(kind, lim)
			if err != nil {
				bad("ActiveHosts/error", "ActiveHosts(%q,%d): err=%v", kind, lim, err)
				continue
			}
			want := len(el)
			if lim > 0 && lim < want {
				want = lim
			}
			seen := map[store.NodeID]bool{}
			for _, n := range got {
				if !elset[string(n.ID)] {
					bad("ActiveHosts/ineligible", "ActiveHosts(%q,%d) returned %s; eligible %v", kind, lim, nodeStr(&n), el)
				}
				if seen[n.ID] {
					bad("ActiveHosts/duplicate", "ActiveHosts(%q,%d) returned %s twice", kind, lim, n.ID)
				}
				seen[n.ID] = true
				if mn, ok := m.Nodes[n.ID]; ok && nodeStr(&n) != nodeStr(&mn) {
					bad("ActiveHosts/record", "ActiveHosts(%q,%d) returned %s, model record %s", kind, lim, nodeStr(&n), nodeStr(&mn))
				}
			}
			if len(got) != want {
				bad("ActiveHosts/count", "ActiveHosts(%q,%d) returned %d hosts %v; eligible %v, want %d", kind, lim, len(got), idsOf(got), el, want)
			}
		}
	}
	gs, err := s.Stats()
	ms := m.Stats()
	if err != nil || gs == nil {
		bad("Stats/error", "Stats(): err=%v", err)
	} else {
		g := MStats{gs.NumActiveHosts, gs.NumTotalHosts, gs.NumActiveClients, gs.NumTotalClients, gs.LatestBlockNumber, gs.TotalCredit.String(), gs.NumTrialBalances}
		if g != ms {
			bad("Stats", "Stats()=%+v, model %+v", g, ms)
		}
		if gs.TotalDeposit.Sign() != 0 {
			bad("Stats/deposit", "Stats().TotalDeposit=%s from a plain store", gs.TotalDeposit.String())
		}
	}
	return
}
