//go:build go1.21

package vh

import (
	"context"
	"encoding/json"
	"fmt"
	"io"
	"sync"

	"github.com/vipnode/vipnode/v2/internal/verif/vsched"
	"github.com/vipnode/vipnode/v2/jsonrpc2"
)

// MemCodec is an in-memory jsonrpc2.Codec whose channel operations go through vsched, so that
// message delivery order is owned by the explorer. Messages cross it as JSON (like a wire).
type MemCodec struct {
	in, out chan []byte
	Addr    string
	Writes  int
	Name    string
	closeMu sync.Mutex
	closed  bool
}

// NewMemPipe returns the two ends of an in-memory connection.
func NewMemPipe(capacity int) (*MemCodec, *MemCodec) {
	ab := make(chan []byte, capacity)
	ba := make(chan []byte, capacity)
	return &MemCodec{in: ba, out: ab, Addr: "198.51.100.1:1111", Name: "a"}, &MemCodec{in: ab, out: ba, Addr: "198.51.100.2:2222", Name: "b"}
}

func (c *MemCodec) ReadMessage() (*jsonrpc2.Message, error) {
	b, ok := vsched.Recv2(c.in)
	if !ok {
		return nil, io.EOF
	}
	var m jsonrpc2.Message
	if err := json.Unmarshal(b, &m); err != nil {
		return nil, err
	}
	return &m, nil
}

func (c *MemCodec) WriteMessage(m *jsonrpc2.Message) error {
	b, err := json.Marshal(m)
	if err != nil {
		return err
	}
	c.Writes++
	vsched.Send(c.out, b)
	return nil
}

// Inject places raw bytes on the wire towards the peer of this codec's reader, i.e. as if the
// other side had written them.
func (c *MemCodec) InjectIncoming(b []byte) { vsched.Send(c.in, b) }

func (c *MemCodec) Close() error {
	c.closeMu.Lock()
	defer c.closeMu.Unlock()
	if !c.closed {
		c.closed = true
		vsched.Close(c.out)
	}
	return nil
}

func (c *MemCodec) RemoteAddr() string { return c.Addr }

// RPCWorld: two real Remotes joined by a MemCodec pair, with recording receivers on both sides.
type RPCWorld struct {
	A, B     *jsonrpc2.Remote
	CA, CB   *MemCodec
	RecvA    *Receiver // serves requests arriving at A
	RecvB    *Receiver
	ServeErr [2]error
}

// Receiver is the RPC receiver registered on each side.
type Receiver struct {
	Side    string
	Own     *jsonrpc2.Remote // the connection requests arrive on
	mu      sync.Mutex
	Handled map[string]int // token -> number of times handled
	BadCtx  []string       // tokens whose handler saw a wrong CtxService
	// Inner is an in-memory service (jsonrpc2.Local) this side forwards "relay" requests to, with
	// the request's own context - as the agent does with its in-memory pool
	Inner *jsonrpc2.Local
}

// InnerRecv is the receiver behind a Receiver's Inner service.
type InnerRecv struct {
	Own    *jsonrpc2.Local
	BadCtx []string
}

// Visit calls back "leaf" over the service the request arrived on - which must be the Local.
func (r *InnerRecv) Visit(ctx context.Context, token string) (string, error) {
	svc, err := jsonrpc2.CtxService(ctx)
	if err != nil {
		return "", err
	}
	if svc != jsonrpc2.Service(r.Own) {
		r.BadCtx = append(r.BadCtx, token)
	}
	var out string
	if err := svc.Call(ctx, &out, "leaf", token); err != nil {
		return "", err
	}
	return out, nil
}

func (r *InnerRecv) Leaf(ctx context.Context, token string) (string, error) {
	return "leaf:" + token, nil
}

// Relay forwards to the in-memory service, passing the request's context through.
func (r *Receiver) Relay(ctx context.Context, token string) (string, error) {
	r.note(ctx, token)
	var out string
	if err := r.Inner.Call(ctx, &out, "visit", token); err != nil {
		return "", err
	}
	return out, nil
}

func (r *Receiver) note(ctx context.Context, token string) {
	svc, err := jsonrpc2.CtxService(ctx)
	r.mu.Lock()
	r.Handled[token]++
	if err != nil || svc != jsonrpc2.Service(r.Own) {
		r.BadCtx = append(r.BadCtx, token)
	}
	r.mu.Unlock()
}

// Echo returns its argument.
func (r *Receiver) Echo(ctx context.Context, token string) (string, error) {
	r.note(ctx, token)
	return token, nil
}

// Nest calls back over the connection the request arrived on until depth is 0, and returns the
// chain of sides visited.
func (r *Receiver) Nest(ctx context.Context, token string, depth int) (string, error) {
	r.note(ctx, fmt.Sprintf("%s/%d", token, depth))
	if depth <= 0 {
		return r.Side, nil
	}
	svc, err := jsonrpc2.CtxService(ctx)
	if err != nil {
		return "", err
	}
	var rest string
	if err := svc.Call(ctx, &rest, "nest", token, depth-1); err != nil {
		return "", err
	}
	return r.Side + rest, nil
}

// NewRPCWorld builds the world; serve loops are started by Start.
func NewRPCWorld(pendingLimit, pendingDiscard int) *RPCWorld {
	return NewRPCWorldOpt(pendingLimit, pendingDiscard, true)
}

// NewRPCWorldOpt: explicitClient=false leaves Remote.Client unset, the way the agent binary dials
// the pool (&jsonrpc2.Remote{Codec: ...}).
func NewRPCWorldOpt(pendingLimit, pendingDiscard int, explicitClient bool) *RPCWorld {
	ca, cb := NewMemPipe(32)
	w := &RPCWorld{CA: ca, CB: cb}
	w.A = &jsonrpc2.Remote{Codec: ca, Server: &jsonrpc2.Server{}, PendingLimit: pendingLimit, PendingDiscard: pendingDiscard}
	w.B = &jsonrpc2.Remote{Codec: cb, Server: &jsonrpc2.Server{}, PendingLimit: pendingLimit, PendingDiscard: pendingDiscard}
	if explicitClient {
		w.A.Client, w.B.Client = &jsonrpc2.Client{}, &jsonrpc2.Client{}
	}
	w.RecvA = &Receiver{Side: "a", Own: w.A, Handled: map[string]int{}}
	w.RecvB = &Receiver{Side: "b", Own: w.B, Handled: map[string]int{}}
	for _, r := range []*Receiver{w.RecvA, w.RecvB} {
		r.Inner = &jsonrpc2.Local{}
		if err := r.Inner.Server.Register("", &InnerRecv{Own: r.Inner}); err != nil {
			panic(err)
		}
	}
	if err := w.A.Server.Register("", w.RecvA); err != nil {
		panic(err)
	}
	if err := w.B.Server.Register("", w.RecvB); err != nil {
		panic(err)
	}
	return w
}

// Start launches both serve loops as named daemon threads.
func (w *RPCWorld) Start() {
	vsched.GoNamed("serve-a", func() { w.ServeErr[0] = w.A.Serve() })
	vsched.GoNamed("serve-b", func() { w.ServeErr[1] = w.B.Serve() })
}

// IDClient is a jsonrpc2.Requester with ids other than the default small integers: "big" numbers
// beyond 2^53 that differ only in their low bits (nanosecond clocks, 64-bit random ids), or
// "string" ids - both legal JSON-RPC.
type IDClient struct {
	Kind string
	n    int64
}

func (c *IDClient) Request(method string, params ...interface{}) (*jsonrpc2.Message, error) {
	msg := &jsonrpc2.Message{Request: &jsonrpc2.Request{Method: method}, Version: jsonrpc2.Version}
	c.n++ // (calls are made one thread at a time under the controlled scheduler)
	var err error
	switch c.Kind {
	case "big":
		msg.ID = json.RawMessage(fmt.Sprint(int64(1)<<53 + c.n))
	case "string":
		msg.ID, err = json.Marshal(fmt.Sprintf("req-%d", c.n))
	default:
		msg.ID, err = json.Marshal(c.n)
	}
	if err != nil {
		return nil, err
	}
	if msg.Request.Params, err = json.Marshal(params); err != nil {
		return nil, err
	}
	return msg, nil
}
