//go:build go1.21

// vworker runs units of a check. Protocol (driven by /verif/bin/vcheck):
//
//	vworker -check C05 -tier quick -list            -> JSON array of unit names
//	vworker -check C05 -tier quick -serve           -> reads unit indices (one per line) from stdin,
//	                                                   prints one JSON result line per unit
//	vworker -check C05 -tier quick -replay f.json   -> re-executes the recorded history / schedule
package main

import (
	"bufio"
	"encoding/json"
	"flag"
	"fmt"
	"io"
	"log"
	"os"
	"runtime"
	"runtime/debug"
	"runtime/pprof"
	"strconv"
	"strings"
	"syscall"
	"time"

	_ "github.com/vipnode/vipnode/v2/internal/verif/checks"
	"github.com/vipnode/vipnode/v2/internal/verif/vh"
)

func main() {
	check := flag.String("check", "", "property id")
	tier := flag.String("tier", "quick", "quick|thorough")
	list := flag.Bool("list", false, "list unit names")
	serve := flag.Bool("serve", false, "serve unit requests from stdin")
	replay := flag.String("replay", "", "replay file")
	deadline := flag.Int64("deadline", 0, "unix time after which units stop cleanly")
	seed := flag.Int64("seed", 0, "seed (unused by exhaustive checks; recorded)")
	crashChild := flag.String("crashchild", "", "internal: run as the child of a crash experiment on this directory")
	crashOps := flag.String("crashops", "", "internal: ';'-separated store operations for -crashchild")
	flag.Parse()
	if *crashChild != "" {
		var ops []string
		if *crashOps != "" {
			ops = strings.Split(*crashOps, ";")
		}
		vh.CrashChild(*crashChild, ops)
		return
	}
	log.SetOutput(io.Discard)
	debug.SetGCPercent(200)

	if os.Getenv("VERIF_NO_RLIMIT") == "" {
		// a request that makes the code under test allocate without bound must fail loudly, not eat the host
		lim := uint64(24 << 30)
		syscall.Setrlimit(syscall.RLIMIT_AS, &syscall.Rlimit{Cur: lim, Max: lim})
	}
	if pf := os.Getenv("VERIF_PROF"); pf != "" {
		f, _ := os.Create(pf)
		pprof.StartCPUProfile(f)
		defer pprof.StopCPUProfile()
	}
	c := vh.Registry[*check]
	if c == nil {
		fmt.Fprintf(os.Stderr, "INFRA: unknown check %q\n", *check)
		os.Exit(2)
	}
	units := c.Units(*tier)
	var dl time.Time
	if *deadline > 0 {
		dl = time.Unix(*deadline, 0)
	}
	switch {
	case *list:
		names := make([]string, len(units))
		for i, u := range units {
			names[i] = u.Name
		}
		meta := map[string]interface{}{"units": names, "level": c.Level, "rule": c.Rule, "assumptions": c.Assumptions, "technique": c.Technique}
		json.NewEncoder(os.Stdout).Encode(meta)
	case *replay != "":
		raw, err := os.ReadFile(*replay)
		if err != nil {
			fmt.Fprintf(os.Stderr, "INFRA: %v\n", err)
			os.Exit(2)
		}
		var rec struct {
			Unit      string          `json:"unit"`
			Signature string          `json:"signature"`
			Replay    json.RawMessage `json:"replay"`
		}
		if err := json.Unmarshal(raw, &rec); err != nil {
			fmt.Fprintf(os.Stderr, "INFRA: %v\n", err)
			os.Exit(2)
		}
		for _, un := range units {
			if un.Name != rec.Unit {
				continue
			}
			u := vh.NewU(*tier, *seed, time.Time{}, un.Name)
			vh.ResetGlobals()
			if len(rec.Replay) > 0 && string(rec.Replay) != "null" {
				u.ReplayRaw = rec.Replay
			}
			un.Run(u)
			found := false
			for _, v := range u.R.Violations {
				fmt.Printf("violation signature=%q\n%s\n", v.Signature, v.Detail)
				if v.Signature == rec.Signature {
					found = true
				}
			}
			if found {
				fmt.Printf("REPRODUCED property=%s signature=%q\n", c.ID, rec.Signature)
				os.Exit(1)
			}
			fmt.Printf("NOT-REPRODUCED property=%s signature=%q\n", c.ID, rec.Signature)
			os.Exit(0)
		}
		fmt.Fprintf(os.Stderr, "INFRA: unit %q not found\n", rec.Unit)
		os.Exit(2)
	case *serve:
		in := bufio.NewScanner(os.Stdin)
		out := bufio.NewWriter(os.Stdout)
		for in.Scan() {
			line := strings.TrimSpace(in.Text())
			if line == "" {
				continue
			}
			idx, err := strconv.Atoi(line)
			if err != nil || idx < 0 || idx >= len(units) {
				fmt.Fprintf(os.Stderr, "INFRA: bad unit index %q\n", line)
				os.Exit(2)
			}
			u := vh.NewU(*tier, *seed, dl, units[idx].Name)
			vh.ResetGlobals()
			t0 := time.Now()
			if !u.Expired() {
				func() {
					defer func() {
						if r := recover(); r != nil {
							st := string(debug.Stack())
							// who panicked? the innermost frame below the panic call decides: a function of
							// the code under test => a finding about that code; harness code => harness fault
							if fn := panickingFunction(st); strings.HasPrefix(fn, "github.com/vipnode/vipnode/v2/") && !strings.Contains(fn, "/internal/verif/") {
								u.Violate("panic-in-code-under-test/"+units[idx].Name, fmt.Sprintf("%v in %s (called from the harness outside any recovering oracle)\n%s", r, fn, firstLines(st, 40)), nil)
							} else if raisedInMathBig(st) {
								// the harness only reads numbers (String/Cmp on balances of the state under test); math/big
								// panics on such a read only when the number's digits were overwritten in place behind its
								// back, i.e. the code under test corrupted a stored or shared big.Int
								u.Violate("corrupt-number-in-state/"+units[idx].Name, fmt.Sprintf("%v: math/big cannot read a big.Int held in the state of the code under test (harness frame %s); its digit slice was modified in place while shared\n%s", r, fn, firstLines(st, 40)), nil)
							} else {
								u.R.Infra = fmt.Sprintf("harness panic in unit %s: %v\n%s", units[idx].Name, r, st)
							}
						}
					}()
					units[idx].Run(u)
				}()
			}
			u.R.WallS = time.Since(t0).Seconds()
			if mp := os.Getenv("VERIF_MEMPROF"); mp != "" { // debugging aid: heap profile after every unit
				if f, err := os.Create(fmt.Sprintf("%s.%d.%d", mp, os.Getpid(), idx)); err == nil {
					pprof.Lookup("heap").WriteTo(f, 0)
					var ms runtime.MemStats
					runtime.ReadMemStats(&ms)
					fmt.Fprintf(f, "\n# HeapInuse=%d HeapSys=%d Sys=%d StackInuse=%d NumGC=%d goroutines=%d\n", ms.HeapInuse, ms.HeapSys, ms.Sys, ms.StackInuse, ms.NumGC, runtime.NumGoroutine())
					f.Close()
				}
			}
			b, _ := json.Marshal(u.R)
			out.Write(b)
			out.WriteByte('\n')
			out.Flush()
		}
	default:
		fmt.Fprintln(os.Stderr, "INFRA: need -list, -serve or -replay")
		os.Exit(2)
	}
}

// raisedInMathBig reports whether the first non-runtime frame below the panic call is a math/big function.
func raisedInMathBig(st string) bool {
	seenPanic := false
	for _, l := range strings.Split(st, "\n") {
		if strings.HasPrefix(l, "\t") || l == "" {
			continue
		}
		if strings.HasPrefix(l, "panic(") {
			seenPanic = true
			continue
		}
		if !seenPanic || strings.HasPrefix(l, "runtime.") || strings.HasPrefix(l, "runtime/") {
			continue
		}
		return strings.HasPrefix(l, "math/big.")
	}
	return false
}

// panickingFunction returns the function in which the panic recorded in stack trace st was raised
// (the first frame after the runtime's panic frames).
func panickingFunction(st string) string {
	lines := strings.Split(st, "\n")
	seenPanic := false
	for _, l := range lines {
		if strings.HasPrefix(l, "\t") || l == "" {
			continue
		}
		if strings.HasPrefix(l, "panic(") {
			seenPanic = true
			continue
		}
		if !seenPanic || strings.HasPrefix(l, "runtime.") || strings.HasPrefix(l, "runtime/") {
			continue
		}
		// library frames between the panic and the repository code (math/rand, reflect ...) are skipped:
		// the first repository or harness frame is the one responsible
		if strings.HasPrefix(l, "github.com/vipnode/vipnode/v2/") || strings.HasPrefix(l, "main.") {
			if i := strings.LastIndex(l, "("); i > 0 {
				return l[:i]
			}
			return l
		}
	}
	return ""
}

func firstLines(s string, n int) string {
	lines := strings.Split(s, "\n")
	if len(lines) > n {
		lines = lines[:n]
	}
	return strings.Join(lines, "\n")
}
