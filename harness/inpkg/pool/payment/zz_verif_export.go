//go:build go1.21

package payment

import (
	"math/big"

	"github.com/vipnode/vipnode/v2/pool/store"
)

// VerifContractPayment returns the real contractPayment balance proxy (GetNodeBalance,
// GetAccountBalance, Add*, balanceCache) over the given account store, with the chain replaced by
// getter, and the handler the contract's Balance event subscription would call. Injected by the
// verification overlay only (never part of /repo).
func VerifContractPayment(s store.AccountStore, getter func(account store.Account) (*big.Int, error)) (store.BalanceStore, func(account store.Account, amount *big.Int)) {
	p := &contractPayment{store: s}
	p.balanceCache.Getter = getter
	return p, p.balanceCache.Set
}
