//go:build go1.21

package checks

import (
	"fmt"
	"strings"

	"github.com/vipnode/vipnode/v2/internal/verif/vh"
	"github.com/vipnode/vipnode/v2/internal/verif/vsched"
	"github.com/vipnode/vipnode/v2/pool/store"
)

// C12 — both storage drivers implement the documented store contract identically.

type c12World struct {
	model   *vh.StoreModel
	drivers []store.Store
	names   []string
}

var c12IDs = []store.NodeID{"a", "b", "c", ""}
var c12Accounts = []store.Account{"W1", "W2", ""}

func c12Events(full bool) []string {
	var evs []string
	for _, id := range []string{"a", "b"} {
		for _, k := range []string{"hg", "hp", "cl", "hs"} {
			evs = append(evs, "set "+id+" "+k)
		}
	}
	evs = append(evs, "set c hg", "set _ hg")
	for _, id := range []string{"a", "b", "c"} {
		amts := []string{"5", "-7"}
		if id == "a" {
			amts = append(amts, "2^70", "-5", "0") // -5 cancels +5, 0 creates an empty trial balance
		}
		for _, a := range amts {
			evs = append(evs, "addnb "+id+" "+a)
		}
	}
	evs = append(evs, "addab W1 5", "addab W1 -7", "addab W2 5")
	for _, acc := range []string{"W1", "W2"} {
		for _, id := range []string{"a", "b", "c"} {
			if acc == "W2" && id == "c" {
				continue
			}
			evs = append(evs, "link "+acc+" "+id)
		}
	}
	for _, id := range []string{"a", "b"} {
		other := "b"
		if id == "b" {
			other = "a"
		}
		evs = append(evs, "upd "+id+" - 7", "upd "+id+" "+other+" 9", "upd "+id+" a,b,x 3", "upd "+id+" "+other+","+other)
	}
	evs = append(evs, "upd c a")
	// a registered peer listed under another spelling of its id is, for the store, an unknown id
	evs = append(evs, "upd a B 4", "upd b A,a 5")
	evs = append(evs, "nonce a n", "nonce a n+1", "nonce a n.5", "tick 30s", "tick 121s", "tick 15m1.2s")
	if full {
		evs = append(evs, "nonce b stale", "tick 60s")
	}
	return evs
}

func c12Unit(depth, shard, nshards int, full bool) vh.Unit {
	name := fmt.Sprintf("contract-bfs/d%d/%d", depth, shard)
	evs := c12Events(full)
	return vh.Unit{Name: name, Run: func(u *vh.U) {
		spec := vh.BFSSpec{
			Name: name, MaxDepth: depth, Shard: shard, NShards: nshards,
			New: func() interface{} {
				vsched.ResetClock(0)
				return &c12World{model: vh.NewStoreModel(), drivers: []store.Store{vh.NewStore(vh.Memory), vh.NewStore(vh.Badger)}, names: vh.Drivers}
			},
			Events: func(w interface{}) []string { return evs },
			Apply: func(wi interface{}, ev string, judge bool, hist []string) {
				w := wi.(*c12World)
				if d := vh.TickOf(ev); d > 0 {
					vsched.Advance(d)
				}
				want := vh.ApplyStoreOpModel(w.model, ev)
				op := strings.Fields(ev)[0]
				var got []string
				for i, s := range w.drivers {
					g := vh.ApplyStoreOp(s, ev)
					got = append(got, g)
					if judge && g != want {
						u.Violate("contract/"+w.names[i]+"/"+op+"/result",
							fmt.Sprintf("history %v: %s driver returned %q, contract model %q", hist, w.names[i], g, want), vh.BFSReplay(name, hist))
					}
				}
				if !judge {
					return
				}
				u.Observe(op + " " + want)
				if got[0] != got[1] {
					u.Violate("drivers-disagree/"+op+"/result", fmt.Sprintf("history %v: memory returned %q, badger %q", hist, got[0], got[1]), vh.BFSReplay(name, hist))
				}
				for i, s := range w.drivers {
					for _, mm := range w.model.ReadBattery(s, c12IDs, c12Accounts, []int{0, 1, 2, 3}) {
						u.Violate("contract/"+w.names[i]+"/"+mm[0]+"/after-"+op,
							fmt.Sprintf("history %v: %s driver: %s", hist, w.names[i], mm[1]), vh.BFSReplay(name, hist))
					}
					u.R.Traces++
				}
			},
			Key: func(wi interface{}) string {
				w := wi.(*c12World)
				return w.model.Key() + "#" + vh.Hash(vh.DeepDump(w.drivers[0]))
			},
		}
		vh.RunBFS(u, spec)
	}}
}

func init() {
	vh.Register(&vh.Check{
		ID: "C12", Level: "model_checking",
		Technique: "explicit-state BFS over store operation histories; contract reference model and both real drivers run in lock-step, full read battery after every transition",
		Rule:      "every sequence of store mutators (SetNode kinds, balances by node/account incl. negative and 2^70, links incl. re-linking, peer updates incl. unknown/duplicate ids, nonces, clock ticks) up to the depth bound; after each, every getter for every id/account/kind/limit 0..3 is compared with the model; states de-duplicated on the canonical model state + memory driver dump; distinct = distinct (operation, result) pairs",
		Assumptions: []string{
			"negative ActiveHosts limits are outside the property's domain (limit >= 0) and not probed here",
			"order of returned lists and the choice of hosts when supply exceeds the limit are not judged",
			"SetNode on an existing node is modelled as keeping the node's tracked peers (the persistent driver's behaviour); the contract text is silent, the drivers must agree",
		},
		Units: func(tier string) []vh.Unit {
			var us []vh.Unit
			if tier == "thorough" {
				for s := 0; s < 48; s++ {
					us = append(us, c12Unit(4, s, 48, true))
				}
			} else {
				for s := 0; s < 16; s++ {
					us = append(us, c12Unit(3, s, 16, false))
				}
			}
			// the contract also holds when calls overlap: a multi-key operation of either driver
			// answers like some one-at-a-time order (what the mutex-protected driver always does)
			for _, d := range vh.Drivers {
				rb := 2
				if d == vh.Badger {
					rb = 1
				}
				if tier == "thorough" {
					rb += 2
				}
				for _, scen := range []string{"report-vs-peer-checkin", "report-vs-peer-reconnect"} {
					us = append(us, c11Race(d, scen, rb))
				}
				us = append(us, c05StoreRaceIdentities(d, rb))
			}
			return us
		},
	})
}
