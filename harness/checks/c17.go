//go:build go1.21

package checks

import (
	"bytes"
	"context"
	"encoding/json"
	"fmt"
	"io"
	"net"
	"net/http"
	"net/http/httptest"
	"strings"
	"sync"
	"time"

	gobwasws "github.com/gobwas/ws"
	"github.com/gorilla/websocket"
	"github.com/vipnode/vipnode/v2/internal/verif/vh"
	"github.com/vipnode/vipnode/v2/internal/verif/vsched"
	"github.com/vipnode/vipnode/v2/jsonrpc2"
	gobwascodec "github.com/vipnode/vipnode/v2/jsonrpc2/ws/gobwas"
	gorillacodec "github.com/vipnode/vipnode/v2/jsonrpc2/ws/gorilla"
)

// C17 — messages arrive exactly once, intact and in order, however the transport chunks.

var c17MsgTexts = []string{
	`{"jsonrpc":"2.0","id":1,"method":"a","params":[]}`,
	`{"jsonrpc":"2.0","id":2,"result":{"a":[1,{"b":"c"}],"d":null}}`,
	`{"jsonrpc":"2.0","id":3,"method":"big","params":["` + strings.Repeat("x", 5000) + `"]}`,
	`{"jsonrpc":"2.0","id":4,"method":"uni","params":["üé\n\"\\   😀 \u0000"]}`,
	`{"jsonrpc":"2.0","id":5,"error":{"code":-32000,"message":"boom"}}`,
	// numbers no float64 holds exactly (wei amounts, nanosecond nonces, 64-bit ids)
	`{"jsonrpc":"2.0","id":9007199254740993,"error":{"code":-32000,"message":"low balance","data":{"wei":1234567890123456789012,"nonce":1700000000000000001}}}`,
	`{"jsonrpc":"2.0","id":7,"result":{"balance":123456789012345678901234567890,"nonce":9007199254740993}}`,
}

func c17Msgs(idx []int) []*jsonrpc2.Message {
	var out []*jsonrpc2.Message
	for _, i := range idx {
		m, err := vh.ParseMessage(c17MsgTexts[i])
		if err != nil {
			panic(err)
		}
		// what must arrive is what the *text* says, not what the library's own decoding of it
		// (which is under test) made of it
		c17ExpectMu.Lock()
		c17Expect[m] = c17NormText([]byte(c17MsgTexts[i]))
		c17ExpectMu.Unlock()
		out = append(out, m)
	}
	return out
}

var c17Expect = map[*jsonrpc2.Message]string{}
var c17ExpectMu sync.Mutex

func c17NormText(b []byte) string {
	var v interface{}
	d := json.NewDecoder(bytes.NewReader(b))
	d.UseNumber()
	d.Decode(&v)
	if m, ok := v.(map[string]interface{}); ok {
		// members the message type leaves out when empty
		if p, ok := m["params"]; ok && p == nil {
			delete(m, "params")
		}
	}
	out, _ := json.Marshal(v)
	return string(out)
}

func c17Norm(m *jsonrpc2.Message) string {
	if m == nil {
		return "<nil>"
	}
	c17ExpectMu.Lock()
	exp, ok := c17Expect[m]
	c17ExpectMu.Unlock()
	if ok {
		return exp
	}
	b, _ := json.Marshal(m)
	var v interface{}
	d := json.NewDecoder(bytes.NewReader(b))
	d.UseNumber() // (numbers compared digit by digit, not as float64)
	d.Decode(&v)
	b, _ = json.Marshal(v)
	return string(b)
}

// sequences of message indices
func c17Seqs(thorough bool) [][]int {
	var out [][]int
	for a := 0; a < 5; a++ {
		out = append(out, []int{a})
		for b := 0; b < 5; b++ {
			out = append(out, []int{a, b})
		}
	}
	out = append(out, []int{0, 1, 4}, []int{1, 0, 3, 4}, []int{4, 4, 4, 4}, []int{0, 2, 0}, []int{5}, []int{6}, []int{5, 6, 0}, []int{1, 5})
	if thorough {
		for a := 0; a < 5; a++ {
			for b := 0; b < 5; b++ {
				out = append(out, []int{a, b, (a + b) % 5})
			}
		}
	}
	return out
}

// candidate cut offsets in a stream of length n with message/frame boundaries bounds
func c17Candidates(n int, bounds []int) []int {
	set := map[int]bool{}
	if n <= 420 {
		for i := 1; i < n; i++ {
			set[i] = true
		}
	} else {
		for _, b := range bounds {
			for d := -4; d <= 14; d++ {
				if b+d > 0 && b+d < n {
					set[b+d] = true
				}
			}
		}
		for i := 509; i < n; i += 997 {
			set[i] = true
		}
		set[4096], set[4097] = true, true
	}
	var out []int
	for i := 1; i < n; i++ {
		if set[i] {
			out = append(out, i)
		}
	}
	return out
}

// all cut sets of size <= k over candidates (ascending)
func c17CutSets(cands []int, k int, f func(cuts []int) bool) {
	var rec func(start int, cur []int) bool
	rec = func(start int, cur []int) bool {
		if !f(cur) {
			return false
		}
		if len(cur) == k {
			return true
		}
		for i := start; i < len(cands); i++ {
			if !rec(i+1, append(cur, cands[i])) {
				return false
			}
		}
		return true
	}
	rec(0, nil)
}

type chunkReader struct {
	data []byte
	cuts []int
	pos  int
}

func (c *chunkReader) Read(p []byte) (int, error) {
	if c.pos >= len(c.data) {
		return 0, io.EOF
	}
	end := len(c.data)
	for _, cut := range c.cuts {
		if cut > c.pos {
			end = cut
			break
		}
	}
	n := copy(p, c.data[c.pos:end])
	c.pos += n
	return n, nil
}
func (c *chunkReader) Write(p []byte) (int, error) { return len(p), nil }
func (c *chunkReader) Close() error                { return nil }

func c17Compare(u *vh.U, sig, desc string, want []*jsonrpc2.Message, read func() (*jsonrpc2.Message, error)) bool {
	var kept []*jsonrpc2.Message // what the reader handed out, looked at again at the end
	defer func() {
		// a message that was read stays what it was while later ones are read (a consumer - Remote's
		// read loop hands each to its own goroutine - may look at it any time later)
		for i, g := range kept {
			if g != nil && i < len(want) && c17Norm(g) != c17Norm(want[i]) {
				u.Violate(sig+"/message-changed-after-delivery", fmt.Sprintf("%s: message %d of %d was delivered as %s; after the following messages had been read the same object reads %s", desc, i+1, len(want), abbreviate(c17Norm(want[i])), abbreviate(c17Norm(g))), nil)
				return
			}
		}
	}()
	for i, w := range want {
		var got *jsonrpc2.Message
		var err error
		if p := vh.Recover(func() { got, err = read() }); p != "" {
			u.Violate(sig+"/panic", fmt.Sprintf("%s: reading message %d: panic %s", desc, i, p), nil)
			return false
		}
		if err != nil || c17Norm(got) != c17Norm(w) {
			cls := "message-lost"
			if err == nil {
				cls = "message-altered"
			}
			u.Violate(sig+"/"+cls, fmt.Sprintf("%s: message %d of %d: read %s err=%v, written %s", desc, i+1, len(want), abbreviate(c17Norm(got)), err, abbreviate(c17Norm(w))), nil)
			kept = nil
			return false
		}
		kept = append(kept, got)
	}
	return true
}

// (1) stream codec
func c17Stream(shard, nshards int) vh.Unit {
	name := fmt.Sprintf("stream-codec/%d", shard)
	return vh.Unit{Name: name, Run: func(u *vh.U) {
		k := 2
		if u.Thorough() {
			k = 3
		}
		for si, seq := range c17Seqs(u.Thorough()) {
			if si%nshards != shard {
				continue
			}
			msgs := c17Msgs(seq)
			var buf bytes.Buffer
			var bounds []int
			w := jsonrpc2.IOCodec(rwcBuf{&buf})
			for _, m := range msgs {
				if err := w.WriteMessage(m); err != nil {
					u.Violate("stream/write-failed", err.Error(), nil)
					return
				}
				bounds = append(bounds, buf.Len())
			}
			data := buf.Bytes()
			cands := c17Candidates(len(data), bounds)
			kk := k
			if len(cands) > 150 && kk > 2 {
				kk = 2
			}
			cases := 0
			c17CutSets(cands, kk, func(cuts []int) bool {
				if u.Expired() {
					return false
				}
				cases++
				cr := &chunkReader{data: data, cuts: append([]int{}, cuts...)}
				codec := jsonrpc2.IOCodec(cr)
				u.R.Evaluations++
				u.R.States++
				u.R.Transitions += int64(len(msgs))
				u.R.Traces++
				desc := fmt.Sprintf("stream codec, messages %v (%d bytes), delivered cut at %v", seq, len(data), cuts)
				if !c17Compare(u, "stream", desc, msgs, codec.ReadMessage) {
					return false
				}
				// then: nothing more
				extra, err := codec.ReadMessage()
				if err == nil {
					u.Violate("stream/extra-message", fmt.Sprintf("%s: an extra message was read: %s", desc, abbreviate(c17Norm(extra))), nil)
					return false
				}
				return true
			})
			// one message per read (the only delivery the existing tests exercise)
			u.Observe(fmt.Sprintf("%v cases=%d", seq, cases))
			if len(u.R.Samples) < 2 {
				u.Sample(fmt.Sprintf("messages %v as a %d-byte stream cut at every set of <=%d of %d candidate offsets", seq, len(data), kk, len(cands)))
			}
		}
	}}
}

type rwcBuf struct{ *bytes.Buffer }

func (rwcBuf) Close() error { return nil }

// (2) HTTP transport
func c17HTTP() vh.Unit {
	return vh.Unit{Name: "http-transport", Run: func(u *vh.U) {
		hs := &jsonrpc2.HTTPServer{}
		recv := &vh.Receiver{Side: "h", Handled: map[string]int{}}
		hs.Server.Register("", recv)
		reqs := []string{
			`{"jsonrpc":"2.0","id":1,"method":"echo","params":["tok"]}`,
			`{"jsonrpc":"2.0","id":2,"method":"echo","params":["` + strings.Repeat("y", 3000) + ` üé 😀"]}`,
		}
		for _, body := range reqs {
			data := []byte(body)
			cands := c17Candidates(len(data), []int{len(data)})
			c17CutSets(cands, 2, func(cuts []int) bool {
				rec := httptest.NewRecorder()
				req := httptest.NewRequest(http.MethodPost, "/", &chunkReader{data: data, cuts: append([]int{}, cuts...)})
				req.ContentLength = int64(len(data))
				hs.ServeHTTP(rec, req)
				u.R.Evaluations++
				u.R.States++
				u.R.Transitions++
				u.R.Traces++
				r, err := vh.DecodeReply(rec.Body.String())
				var want struct{ Params []string }
				json.Unmarshal(data, &want)
				var got string
				if r != nil {
					json.Unmarshal(r.Result, &got)
				}
				if err != nil || r.Code() != 0 || got != want.Params[0] {
					u.Violate("http/server-request-chunking", fmt.Sprintf("request body (%d bytes) cut at %v: reply %s", len(data), cuts, abbreviate(rec.Body.String())), nil)
					return false
				}
				return true
			})
		}
		// client side: the response body arrives in chunks
		for _, tok := range []string{"tok", strings.Repeat("z", 3000) + " üé"} {
			respBody, _ := json.Marshal(map[string]interface{}{"jsonrpc": "2.0", "id": 1, "result": tok})
			respBody = append(respBody, '\n')
			cands := c17Candidates(len(respBody), []int{len(respBody)})
			// client configurations: with and without a reply size limit (well above the reply);
			// replies with a declared length and chunked ones (net/http reports -1 for those)
			type cliCfg struct{ max, declared int64 }
			cfgs := []cliCfg{{0, -1}, {0, int64(len(respBody))}, {1 << 20, -1}, {1 << 20, int64(len(respBody))}, {int64(len(respBody)), -1}}
			cfgI := 0
			c17CutSets(cands, 2, func(cuts []int) bool {
				cfg := cfgs[cfgI%len(cfgs)]
				cfgI++
				if len(cuts) == 0 {
					cfgI = 0 // (the uncut delivery is tried with every configuration below)
				}
				svc := &jsonrpc2.HTTPService{Endpoint: "http://mem/", MaxContentLength: cfg.max}
				svc.HTTPClient.Transport = roundTripFunc(func(r *http.Request) (*http.Response, error) {
					return &http.Response{StatusCode: 200, Header: http.Header{"Content-Type": {"application/json"}}, ContentLength: cfg.declared,
						Body: io.NopCloser(&chunkReader{data: respBody, cuts: append([]int{}, cuts...)}), Request: r}, nil
				})
				var got string
				err := svc.Call(context.Background(), &got, "echo", tok)
				u.R.Evaluations++
				u.R.States++
				u.R.Transitions++
				u.R.Traces++
				if err != nil || got != tok {
					u.Violate("http/client-response-chunking", fmt.Sprintf("response body (%d bytes, declared length %d, client limit %d) cut at %v: result %q err=%v", len(respBody), cfg.declared, cfg.max, cuts, abbreviate(got), err), nil)
					return false
				}
				return true
			})
			for _, cfg := range cfgs {
				svc := &jsonrpc2.HTTPService{Endpoint: "http://mem/", MaxContentLength: cfg.max}
				svc.HTTPClient.Transport = roundTripFunc(func(r *http.Request) (*http.Response, error) {
					return &http.Response{StatusCode: 200, Header: http.Header{"Content-Type": {"application/json"}}, ContentLength: cfg.declared,
						Body: io.NopCloser(bytes.NewReader(respBody)), Request: r}, nil
				})
				var got string
				err := svc.Call(context.Background(), &got, "echo", tok)
				u.R.Evaluations++
				u.R.Traces++
				u.Observe(fmt.Sprintf("http-client limit=%d declared=%v ok=%v", cfg.max, cfg.declared >= 0, err == nil))
				if err != nil || got != tok {
					u.Violate("http/client-response-chunking", fmt.Sprintf("response body (%d bytes, declared length %d, client limit %d) delivered whole: result %q err=%v", len(respBody), cfg.declared, cfg.max, abbreviate(got), err), nil)
				}
			}
		}
		u.Observe("http")
		u.Observe("http-client")
		u.Sample("HTTP request and response bodies delivered cut at every set of <=2 offsets")
	}}
}

type roundTripFunc func(*http.Request) (*http.Response, error)

func (f roundTripFunc) RoundTrip(r *http.Request) (*http.Response, error) { return f(r) }

// ---- WebSocket codecs over an in-memory connection with a real handshake ----

type wsPair struct {
	client, server   jsonrpc2.Codec
	cliConn, srvConn *vh.MemConn
	srv              *http.Server
}

var wsDialMu sync.Mutex

func c17WSPair(kind string) (*wsPair, error) {
	wsDialMu.Lock()
	defer wsDialMu.Unlock()
	// kind "a>b": client codec a, server codec b (the two implementations must interoperate)
	clientKind, serverKind := kind, kind
	if i := strings.Index(kind, ">"); i >= 0 {
		clientKind, serverKind = kind[:i], kind[i+1:]
	}
	l := vh.NewMemListener()
	p := &wsPair{}
	got := make(chan error, 1)
	p.srv = &http.Server{Handler: http.HandlerFunc(func(w http.ResponseWriter, r *http.Request) {
		var err error
		if serverKind == "gorilla" {
			p.server, err = (&gorillacodec.Upgrader{}).Upgrade(r, w, nil)
		} else {
			p.server, err = (&gobwascodec.Upgrader{}).Upgrade(r, w, nil)
		}
		got <- err
	})}
	go p.srv.Serve(l)
	dial := func() net.Conn {
		a, b := l.Dial()
		p.cliConn, p.srvConn = a, b
		return a
	}
	var err error
	ctx, cancel := context.WithTimeout(context.Background(), 2*time.Minute)
	defer cancel()
	if clientKind == "gorilla" {
		old := websocket.DefaultDialer.NetDial
		websocket.DefaultDialer.NetDial = func(network, addr string) (net.Conn, error) { return dial(), nil }
		p.client, err = gorillacodec.WebSocketDial(ctx, "ws://mem.invalid/")
		websocket.DefaultDialer.NetDial = old
	} else {
		old := gobwasws.DefaultDialer.NetDial
		gobwasws.DefaultDialer.NetDial = func(ctx context.Context, network, addr string) (net.Conn, error) { return dial(), nil }
		p.client, err = gobwascodec.WebSocketDial(ctx, "ws://mem.invalid/")
		gobwasws.DefaultDialer.NetDial = old
	}
	if err != nil {
		return nil, fmt.Errorf("dial: %v", err)
	}
	select {
	case err := <-got:
		if err != nil {
			return nil, fmt.Errorf("upgrade: %v", err)
		}
	case <-time.After(2 * time.Minute):
		return nil, fmt.Errorf("upgrade timed out")
	}
	return p, nil
}

func (p *wsPair) close() {
	p.client.Close()
	p.server.Close()
	p.srv.Close()
}

// (3) chunked delivery of WebSocket frames
func c17WSChunks(kind, dir string, shard, nshards int) vh.Unit {
	name := fmt.Sprintf("ws-%s/%s/%d", kind, dir, shard)
	return vh.Unit{Name: name, Run: func(u *vh.U) {
		seqs := [][]int{{0}, {1}, {4}, {0, 1}, {1, 0}, {0, 4, 1}, {3, 0}, {2}, {0, 2, 4}, {0, 0, 0, 0}, {5, 6}}
		for si, seq := range seqs {
			if si%nshards != shard {
				continue
			}
			msgs := c17Msgs(seq)
			// calibration: how many bytes does this sequence put on the wire, where are the frame boundaries
			p, err := c17WSPair(kind)
			if err != nil {
				u.Violate("ws-"+kind+"/handshake-failed", err.Error(), nil)
				return
			}
			wr, wconn := p.client, p.cliConn
			if dir == "server-to-client" {
				wr, wconn = p.server, p.srvConn
			}
			wconn.CaptureOutgoing()
			var bounds []int
			for _, m := range msgs {
				if err := wr.WriteMessage(m); err != nil {
					u.Violate("ws-"+kind+"/write-failed", err.Error(), nil)
					return
				}
				b, _ := wconn.Captured()
				bounds = append(bounds, len(b))
			}
			frames, _ := wconn.Captured()
			total := len(frames)
			cands := c17Candidates(total, bounds)
			k := 2
			if u.Thorough() && len(cands) < 120 {
				k = 3
			}
			if !u.Thorough() && len(cands) > 200 {
				// keep the quick tier quick: every single cut, pairs only around frame boundaries
				k = 1
			}
			p.close()
			cases := 0
			c17CutSets(cands, k, func(cuts []int) bool {
				if u.Expired() {
					return false
				}
				cases++
				// a fresh connection (real handshake) per case
				p, err := c17WSPair(kind)
				if err != nil {
					u.Violate("ws-"+kind+"/handshake-failed", err.Error(), nil)
					return false
				}
				defer p.close()
				wr, rd, rconn := p.client, p.server, p.srvConn
				if dir == "server-to-client" {
					wr, rd, rconn = p.server, p.client, p.cliConn
				}
				rconn.ArmIncoming(total, append([]int{}, cuts...))
				go func() {
					for _, m := range msgs {
						wr.WriteMessage(m)
					}
				}()
				u.R.Evaluations++
				u.R.States++
				u.R.Transitions += int64(len(msgs))
				u.R.Traces++
				desc := fmt.Sprintf("%s codec %s, messages %v (%d bytes of frames), delivered cut at %v", kind, dir, seq, total, cuts)
				return c17Compare(u, "ws-"+kind, desc, msgs, func() (*jsonrpc2.Message, error) {
					type res struct {
						m   *jsonrpc2.Message
						err error
					}
					ch := make(chan res, 1)
					go func() {
						var r res
						if pn := vh.Recover(func() { r.m, r.err = rd.ReadMessage() }); pn != "" {
							r.err = fmt.Errorf("panic: %s", pn)
						}
						ch <- r
					}()
					select {
					case r := <-ch:
						return r.m, r.err
					case <-time.After(90 * time.Second):
						return nil, fmt.Errorf("the message never arrived (reader still blocked after 90 s)")
					}
				})
			})
			u.Observe(fmt.Sprintf("%v cases=%d", seq, cases))
			if len(u.R.Samples) < 2 {
				u.Sample(fmt.Sprintf("%s %s: messages %v = %d bytes of frames, every set of <=%d cuts over %d candidate offsets", kind, dir, seq, total, k, len(cands)))
			}
		}
	}}
}

// (4) concurrent writers on the gorilla codec (the one both shipped binaries use)
// yieldWriter is an io.ReadWriteCloser whose every Write is a scheduling point and is recorded.
type yieldWriter struct {
	buf    bytes.Buffer
	writes []int
}

func (y *yieldWriter) Read(p []byte) (int, error) { return 0, io.EOF }
func (y *yieldWriter) Write(p []byte) (int, error) {
	vsched.Yield("conn-write")
	y.writes = append(y.writes, len(p))
	return y.buf.Write(p)
}
func (y *yieldWriter) Close() error { return nil }

// the stream codec (sockets, pipes): messages written concurrently to one connection - replies of
// several handlers, a reply overlapping a reverse call - arrive whole, each exactly once
func c17StreamWriters(bound int) vh.Unit {
	name := "stream-codec/concurrent-writers"
	return vh.Unit{Name: name, Run: func(u *vh.U) {
		msgs := c17Msgs([]int{2, 0, 4})
		var y *yieldWriter
		var werr [3]error
		body := func() {
			y = &yieldWriter{}
			codec := jsonrpc2.IOCodec(y)
			vh.Par([]string{"w-big", "w-small", "w-err"},
				func() { werr[0] = codec.WriteMessage(msgs[0]) },
				func() { werr[1] = codec.WriteMessage(msgs[1]) },
				func() { werr[2] = codec.WriteMessage(msgs[2]) })
		}
		vh.RunDFS(u, vh.DFSSpec{
			Name: name, Bound: bound,
			Run:  vsched.Options{YieldFiles: []string{"codecs.go"}, Delay: true},
			Body: body,
			Obs:  func(s *vsched.Sched) string { return fmt.Sprint(y.writes, werr) },
			Check: func(s *vsched.Sched) (string, string) {
				for i, e := range werr {
					if e != nil {
						return "stream/concurrent-write-failed", fmt.Sprintf("writer %d: %v", i, e)
					}
				}
				rd := jsonrpc2.IOCodec(&chunkReader{data: y.buf.Bytes()})
				seen := map[string]int{}
				for i := range msgs {
					var m *jsonrpc2.Message
					var err error
					if p := vh.Recover(func() { m, err = rd.ReadMessage() }); p != "" || err != nil {
						return "stream/writers-interleaved", fmt.Sprintf("reading message %d of 3 written concurrently: %v %s (write sizes on the wire: %v)", i+1, err, p, y.writes)
					}
					seen[c17Norm(m)]++
				}
				for _, m := range msgs {
					if seen[c17Norm(m)] != 1 {
						return "stream/writers-interleaved", fmt.Sprintf("a written message was read %d times (write sizes %v)", seen[c17Norm(m)], y.writes)
					}
				}
				if extra, err := rd.ReadMessage(); err == nil {
					return "stream/extra-message", abbreviate(c17Norm(extra))
				}
				return "", ""
			},
		})
	}}
}

func c17Writers(bound int) vh.Unit {
	name := "ws-gorilla/concurrent-writers"
	return vh.Unit{Name: name, Run: func(u *vh.U) {
		msgs := c17Msgs([]int{2, 0, 4}) // a >4 kB message (several frames) and two small ones
		var p *wsPair
		var werr [3]error
		before := func() {
			var err error
			// the handshake runs natively, outside the controlled mode; only the writes are explored
			p, err = c17WSPair("gorilla")
			if err != nil {
				panic(err)
			}
			p.cliConn.CaptureOutgoing()
		}
		body := func() {
			vh.Par([]string{"w-big", "w-small", "w-err"},
				func() { werr[0] = p.client.WriteMessage(msgs[0]) },
				func() { werr[1] = p.client.WriteMessage(msgs[1]) },
				func() { werr[2] = p.client.WriteMessage(msgs[2]) })
		}
		vh.RunDFS(u, vh.DFSSpec{
			Name: name, Bound: bound,
			Run:    vsched.Options{YieldFiles: []string{"codec.go"}, Delay: true},
			Before: before,
			Body:   body,
			Obs: func(s *vsched.Sched) string {
				_, writes := p.cliConn.Captured()
				return fmt.Sprint(writes, werr)
			},
			Check: func(s *vsched.Sched) (string, string) {
				defer p.close()
				frames, writes := p.cliConn.Captured()
				for i, e := range werr {
					if e != nil {
						return "ws-gorilla/concurrent-write-failed", fmt.Sprintf("writer %d: %v (write sizes %v)", i, e, writes)
					}
				}
				p.srvConn.ArmIncoming(len(frames), nil)
				p.cliConn.ReleaseCaptured()
				seen := map[string]int{}
				for i := 0; i < len(msgs); i++ {
					type res struct {
						m   *jsonrpc2.Message
						err error
					}
					ch := make(chan res, 1)
					go func() {
						var r res
						if p := vh.Recover(func() { r.m, r.err = p.server.ReadMessage() }); p != "" {
							r.err = fmt.Errorf("panic: %s", p)
						}
						ch <- r
					}()
					select {
					case r := <-ch:
						if r.err != nil {
							return "ws-gorilla/writers-interleaved", fmt.Sprintf("reading message %d after three concurrent writers: %v (write sizes on the wire: %v)", i+1, r.err, writes)
						}
						seen[c17Norm(r.m)]++
					case <-time.After(90 * time.Second):
						return "ws-gorilla/writers-interleaved", fmt.Sprintf("message %d never arrived (write sizes on the wire: %v)", i+1, writes)
					}
				}
				for _, m := range msgs {
					if seen[c17Norm(m)] != 1 {
						return "ws-gorilla/writers-interleaved", fmt.Sprintf("a written message was read %d times (write sizes %v)", seen[c17Norm(m)], writes)
					}
				}
				return "", ""
			},
		})
	}}
}

// Real sockets: what was written before Close arrives, however much is still on its way when the
// writer closes (25 MB through loopback TCP - more than the socket buffers hold - and a reader that is slower than the writer), for both
// WebSocket codecs in both directions. The in-memory connections above have no socket buffers and
// no close semantics of their own; the codecs' Close runs against the kernel's here.
func c17TCPCloseAfterBurst() vh.Unit {
	return vh.Unit{Name: "tcp/close-right-after-a-burst", Run: func(u *vh.U) {
		vsched.SetVirtualClock(false) // real sockets, real time
		const n, size = 400, 64 << 10
		for _, kind := range []string{"gorilla", "gobwas"} {
			for _, dir := range []string{"client-to-server", "server-to-client"} {
				ln, err := net.Listen("tcp", "127.0.0.1:0")
				if err != nil {
					u.R.Infra = err.Error()
					return
				}
				serverSide := make(chan jsonrpc2.Codec, 1)
				srv := &http.Server{Handler: http.HandlerFunc(func(w http.ResponseWriter, r *http.Request) {
					var c jsonrpc2.Codec
					var err error
					if kind == "gorilla" {
						c, err = (&gorillacodec.Upgrader{}).Upgrade(r, w, nil)
					} else {
						c, err = (&gobwascodec.Upgrader{}).Upgrade(r, w, nil)
					}
					if err == nil {
						serverSide <- c
					}
				})}
				go srv.Serve(ln)
				ctx, cancel := context.WithTimeout(context.Background(), 2*time.Minute)
				var client jsonrpc2.Codec
				if kind == "gorilla" {
					client, err = gorillacodec.WebSocketDial(ctx, "ws://"+ln.Addr().String()+"/")
				} else {
					client, err = gobwascodec.WebSocketDial(ctx, "ws://"+ln.Addr().String()+"/")
				}
				cancel()
				if err != nil {
					srv.Close()
					u.Violate("tcp/handshake-failed", fmt.Sprintf("%s: %v", kind, err), nil)
					return
				}
				var server jsonrpc2.Codec
				select {
				case server = <-serverSide:
				case <-time.After(2 * time.Minute):
					srv.Close()
					u.Violate("tcp/handshake-failed", kind+": upgrade never completed", nil)
					return
				}
				wr, rd := client, server
				if dir == "server-to-client" {
					wr, rd = server, client
				}
				payload := strings.Repeat("y", size)
				werr := make(chan error, 1)
				go func() {
					for i := 0; i < n; i++ {
						m, _ := vh.ParseMessage(fmt.Sprintf(`{"jsonrpc":"2.0","id":%d,"method":"m","params":[%q]}`, i, payload))
						if err := wr.WriteMessage(m); err != nil {
							werr <- fmt.Errorf("write %d: %v", i, err)
							return
						}
					}
					werr <- wr.Close() // at once: most of it is still in the socket buffers
				}()
				got := 0
				var rerr error
				for got < n {
					m, err := rd.ReadMessage()
					if err != nil {
						rerr = err
						break
					}
					if string(m.ID) != fmt.Sprint(got) {
						rerr = fmt.Errorf("message %d carries id %s", got, m.ID)
						break
					}
					got++
					time.Sleep(2 * time.Millisecond) // a reader much slower than the writer: the buffers fill up
				}
				we := <-werr
				rd.Close()
				srv.Close()
				u.R.Evaluations++
				u.R.States++
				u.R.Transitions += int64(got)
				u.R.Traces++
				u.Observe(fmt.Sprintf("tcp %s %s complete=%v", kind, dir, got == n))
				if got != n {
					u.Violate("tcp/"+kind+"/written-messages-lost-on-close", fmt.Sprintf("%s, %s: %d messages of %d kB written, then Close (write side: %v); the reader got %d and then: %v", kind, dir, n, size>>10, we, got, rerr), nil)
					return
				}
			}
		}
		u.Sample("400 x 64 kB (more than the socket buffers hold) over loopback TCP, Close right after the last write, reader pausing 2 ms per message")
	}}
}

// Real sockets, control frames: a peer that pings (third-party clients do) while large messages are
// on their way to it. The codec's read loop answers pings while its writers write; what the peer
// reads are the messages, whole and in order, and nobody panics.
func c17TCPPingWhileWriting() vh.Unit {
	return vh.Unit{Name: "tcp/ping-while-large-messages-in-flight", Run: func(u *vh.U) {
		vsched.SetVirtualClock(false) // real sockets, real time
		const n, size = 6, 2 << 20
		for _, role := range []string{"server-codec", "client-codec"} {
			ln, err := net.Listen("tcp", "127.0.0.1:0")
			if err != nil {
				u.R.Infra = err.Error()
				return
			}
			codecCh := make(chan jsonrpc2.Codec, 1)
			rawCh := make(chan *websocket.Conn, 1)
			srv := &http.Server{Handler: http.HandlerFunc(func(w http.ResponseWriter, r *http.Request) {
				if role == "server-codec" {
					if c, err := (&gorillacodec.Upgrader{}).Upgrade(r, w, nil); err == nil {
						codecCh <- c
					}
					return
				}
				up := websocket.Upgrader{CheckOrigin: func(*http.Request) bool { return true }}
				if c, err := up.Upgrade(w, r, nil); err == nil {
					rawCh <- c
				}
			})}
			go srv.Serve(ln)
			var codec jsonrpc2.Codec
			var raw *websocket.Conn
			ctx, cancel := context.WithTimeout(context.Background(), 2*time.Minute)
			if role == "server-codec" {
				raw, _, err = websocket.DefaultDialer.DialContext(ctx, "ws://"+ln.Addr().String()+"/", nil)
				if err == nil {
					select {
					case codec = <-codecCh:
					case <-ctx.Done():
						err = ctx.Err()
					}
				}
			} else {
				codec, err = gorillacodec.WebSocketDial(ctx, "ws://"+ln.Addr().String()+"/")
				if err == nil {
					select {
					case raw = <-rawCh:
					case <-ctx.Done():
						err = ctx.Err()
					}
				}
			}
			cancel()
			if err != nil {
				srv.Close()
				u.Violate("tcp/handshake-failed", fmt.Sprintf("%s: %v", role, err), nil)
				return
			}
			problems := make(chan string, 8)
			// the codec's owner: a read loop (as Remote.Serve runs one) and a writer
			go func() {
				if p := vh.Recover(func() {
					for {
						if _, err := codec.ReadMessage(); err != nil {
							return
						}
					}
				}); p != "" {
					problems <- "the codec's read loop panicked: " + firstN(p, 300)
				}
			}()
			payload := strings.Repeat("q", size)
			go func() {
				if p := vh.Recover(func() {
					for i := 0; i < n; i++ {
						m, _ := vh.ParseMessage(fmt.Sprintf(`{"jsonrpc":"2.0","id":%d,"method":"m","params":[%q]}`, i, payload))
						if err := codec.WriteMessage(m); err != nil {
							problems <- fmt.Sprintf("write %d: %v", i, err)
							return
						}
					}
				}); p != "" {
					problems <- "the writer panicked: " + firstN(p, 300)
				}
			}()
			// the peer: pings every 2 ms while it reads, slowly
			stopPings := make(chan struct{})
			go func() {
				for i := 0; ; i++ {
					select {
					case <-stopPings:
						return
					case <-time.After(2 * time.Millisecond):
						raw.WriteControl(websocket.PingMessage, []byte(fmt.Sprint("p", i)), time.Now().Add(time.Minute))
					}
				}
			}()
			got := 0
			var rerr error
			raw.SetReadLimit(0)
			for got < n {
				raw.SetReadDeadline(time.Now().Add(3 * time.Minute))
				_, r, err := raw.NextReader()
				if err != nil {
					rerr = err
					break
				}
				buf := make([]byte, 64<<10)
				total := 0
				var head, tail []byte
				for {
					k, err := r.Read(buf)
					if total == 0 && k > 0 {
						head = append([]byte{}, buf[:min(k, 40)]...)
					}
					if k > 0 {
						tail = append(tail, buf[:k]...)
						if len(tail) > 80 {
							tail = tail[len(tail)-80:]
						}
					}
					total += k
					if err != nil {
						break
					}
					if total%(512<<10) < k {
						time.Sleep(time.Millisecond)
					}
				}
				if !strings.Contains(string(head)+string(tail), fmt.Sprintf(`"id":%d`, got)) || total < size || !strings.HasSuffix(strings.TrimSpace(string(tail)), "}") {
					rerr = fmt.Errorf("message %d arrived as %d bytes: %q ... %q", got, total, head, tail)
					break
				}
				got++
			}
			close(stopPings)
			raw.Close()
			codec.Close()
			srv.Close()
			u.R.Evaluations++
			u.R.States++
			u.R.Transitions += int64(got)
			u.R.Traces++
			u.Observe(fmt.Sprintf("tcp ping %s complete=%v", role, got == n))
			select {
			case p := <-problems:
				u.Violate("tcp/gorilla/ping-disturbed-the-writers", fmt.Sprintf("%s, %d messages of %d MB while the peer pings every 2 ms: %s (peer got %d, %v)", role, n, size>>20, p, got, rerr), nil)
				return
			default:
			}
			if got != n {
				u.Violate("tcp/gorilla/ping-disturbed-the-writers", fmt.Sprintf("%s, %d messages of %d MB while the peer pings every 2 ms: the peer read %d intact, then: %v", role, n, size>>20, got, rerr), nil)
				return
			}
		}
		u.Sample("6 x 2 MB over loopback TCP through the gorilla codec (as server and as client) while the peer pings every 2 ms")
	}}
}

// Real sockets, the stream codec: a reader that stalls for seconds in the middle of a large
// message and then carries on. Whatever the writer's WriteMessage calls reported as written
// arrives, whole and in order.
func c17TCPStalledReader() vh.Unit {
	return vh.Unit{Name: "tcp/stream-reader-stalls-mid-message", Run: func(u *vh.U) {
		vsched.SetVirtualClock(false) // real sockets, real time
		ln, err := net.Listen("tcp", "127.0.0.1:0")
		if err != nil {
			u.R.Infra = err.Error()
			return
		}
		defer ln.Close()
		accepted := make(chan net.Conn, 1)
		go func() {
			if c, err := ln.Accept(); err == nil {
				accepted <- c
			}
		}()
		wconn, err := net.Dial("tcp", ln.Addr().String())
		if err != nil {
			u.R.Infra = err.Error()
			return
		}
		rconn := <-accepted
		defer wconn.Close()
		defer rconn.Close()
		wr := jsonrpc2.IOCodec(wconn)
		const big = 12 << 20
		texts := []string{
			fmt.Sprintf(`{"jsonrpc":"2.0","id":1,"method":"big","params":[%q]}`, strings.Repeat("s", big)),
			`{"jsonrpc":"2.0","id":2,"method":"after","params":["x"]}`,
			`{"jsonrpc":"2.0","id":3,"result":{"ok":true}}`,
		}
		werrs := make(chan []error, 1)
		go func() {
			var errs []error
			for _, t := range texts {
				m, _ := vh.ParseMessage(t)
				errs = append(errs, wr.WriteMessage(m))
			}
			werrs <- errs
		}()
		// the reader: a few kB, then nothing for 6.5 s, then the rest - through the codec under test
		head := make([]byte, 64<<10)
		rconn.SetReadDeadline(time.Now().Add(90 * time.Second))
		nHead, _ := io.ReadFull(rconn, head)
		time.Sleep(6500 * time.Millisecond)
		rd := jsonrpc2.IOCodec(struct {
			io.Reader
			io.Writer
			io.Closer
		}{io.MultiReader(bytes.NewReader(head[:nHead]), rconn), io.Discard, rconn})
		var got []string
		var rerr error
		for range texts {
			rconn.SetReadDeadline(time.Now().Add(90 * time.Second))
			m, err := rd.ReadMessage()
			if err != nil {
				rerr = err
				break
			}
			got = append(got, string(m.ID))
		}
		errs := <-werrs
		u.R.Evaluations++
		u.R.States++
		u.R.Transitions += int64(len(got))
		u.R.Traces++
		u.Observe(fmt.Sprintf("stalled reader: %v %v", got, errs))
		// every message whose WriteMessage returned nil must have arrived, in order
		want := []string{}
		for i, e := range errs {
			if e == nil {
				want = append(want, fmt.Sprint(i+1))
			}
		}
		if strings.Join(got, ",") != strings.Join(want, ",") {
			u.Violate("tcp/stream/written-messages-not-read-intact", fmt.Sprintf("a %d MB message and two small ones over loopback TCP, the reader pausing 6.5 s inside the first: WriteMessage results %v, the reader got ids %v then %v", big>>20, errs, got, rerr), nil)
		}
		u.Sample("12 MB + 2 small messages through the stream codec over loopback TCP with a reader that stalls 6.5 s mid-message")
	}}
}

func init() {
	vh.Register(&vh.Check{
		ID: "C17", Level: "model_checking",
		Technique: "exhaustive enumeration of cut sets: the byte stream (or WebSocket frame stream, after a real handshake over an in-memory connection) of every message sequence is delivered to the real codec split at every set of <=k candidate offsets, including no cut at all (full coalescing); delay-bounded schedule DFS of three concurrent writers on the gorilla codec with every net.Conn write as a scheduling point",
		Rule:      "message sequences of length 1-4 over {tiny request, nested reply, 5 kB params, unicode/escapes, error reply}; candidate cut offsets: every offset for streams <=420 bytes, else frame/message boundaries -4..+14, every 997th byte and the 4096 write-buffer edge; all cut sets of size <=2 (quick) / <=3 (thorough); stream codec, HTTP server request bodies and client response bodies, gorilla and gobwas codecs in both directions; oracle: sequence read == sequence written, then nothing more; gorilla<->gobwas pairings in both roles",
		Assumptions: []string{
			"WebSocket frames are produced by the real client/server codec (client frames are masked with random keys; only lengths are relied upon)",
			"the in-memory connection delivers exactly the chosen chunks (no further splitting)",
		},
		Units: func(tier string) []vh.Unit {
			var us []vh.Unit
			n := 6
			if tier == "thorough" {
				n = 16
			}
			for s := 0; s < n; s++ {
				us = append(us, c17Stream(s, n))
			}
			us = append(us, c17HTTP())
			for _, kind := range []string{"gorilla", "gobwas"} {
				for _, dir := range []string{"client-to-server", "server-to-client"} {
					for s := 0; s < 5; s++ {
						us = append(us, c17WSChunks(kind, dir, s, 5))
					}
				}
			}
			// the two implementations talking to each other (they frame differently: text vs binary)
			for _, kind := range []string{"gobwas>gorilla", "gorilla>gobwas"} {
				for _, dir := range []string{"client-to-server", "server-to-client"} {
					for s := 0; s < 2; s++ {
						us = append(us, c17WSChunks(kind, dir, s, 2))
					}
				}
			}
			bound := 2
			if tier == "thorough" {
				bound = 3
			}
			us = append(us, c17StreamWriters(2), c17Writers(bound), c17TCPCloseAfterBurst(), c17TCPPingWhileWriting(), c17TCPStalledReader())
			return us
		},
	})
}
