//go:build go1.21

package checks

import (
	"fmt"
	"math/big"
	"sort"
	"strings"
	"time"

	"github.com/vipnode/vipnode/v2/internal/verif/vh"
	"github.com/vipnode/vipnode/v2/internal/verif/vsched"
	"github.com/vipnode/vipnode/v2/pool"
	"github.com/vipnode/vipnode/v2/pool/store"
)

// C10 — concurrent requests are race-free, serialisable, and see immutable snapshots.

// c10Setup: two hosts, two clients tracking both hosts since t=0, C1 linked to W1 with some
// credit and deposit; 90 s later both hosts have just checked in.
func c10Setup(driver string) (*vh.PoolWorld, *vh.Cast) {
	cast := vh.StdCast()
	vsched.ResetClock(0)
	pw := vh.NewPoolWorld(vh.PoolConfig{Driver: driver, WithdrawMin: big.NewInt(100)})
	st := pw.Raw
	id := func(n string) store.NodeID { return store.NodeID(cast.ByName[n].NodeID) }
	for _, n := range []string{"H1", "H2", "C1", "C2"} {
		st.SetNode(store.Node{ID: id(n), Kind: "geth", IsHost: n[0] == 'H', LastSeen: vsched.Now()})
	}
	both := []string{string(id("H1")), string(id("H2"))}
	st.UpdateNodePeers(id("C1"), both, 1)
	st.UpdateNodePeers(id("C2"), both, 1)
	w1 := store.Account(cast.ByName["W1"].Wallet)
	st.AddAccountNode(w1, id("C1"))
	st.AddAccountBalance(w1, big.NewInt(5000))
	pw.BStore.Deposits[w1] = big.NewInt(700)
	if !vsched.Active() {
		vsched.Advance(90e9)
	} else {
		vsched.Advance(90e9)
	}
	st.UpdateNodePeers(id("H1"), nil, 2)
	st.UpdateNodePeers(id("H2"), nil, 2)
	return pw, cast
}

// c10Op is one concurrent call. Ops with the same label share one pre-signed request (duplicates).
type c10Op struct {
	ev    string // pool event, or "dup:<event>" for a captured request submitted again
	label string
}

// c10Classify reduces a call's result to its nonce decision: accepted by the verification step
// (whatever the business outcome: ok, low balance, no hosts, below the withdraw minimum), refused,
// or aborted by an optimistic-transaction conflict of the persistent driver (= not executed).
func c10Classify(err error) string {
	if err == nil {
		return "accepted"
	}
	if strings.Contains(err.Error(), "Transaction Conflict") {
		return "conflict"
	}
	if vh.IsRefused(err) {
		return "refused"
	}
	return "accepted"
}

// c10View is what serialisability is judged on: balances, links, peer sets.
func c10View(pw *vh.PoolWorld, cast *vh.Cast) string {
	var b strings.Builder
	l := vh.ReadLedger(pw.Raw, cast.Nodes, cast.Accts)
	b.WriteString(l.String())
	for _, n := range cast.Nodes {
		ps, err := pw.Raw.NodePeers(store.NodeID(n))
		if err != nil {
			continue
		}
		var ids []string
		for _, p := range ps {
			ids = append(ids, vh.Short(string(p.ID)))
		}
		sort.Strings(ids)
		fmt.Fprintf(&b, " %s:peers%v", vh.Short(n), ids)
	}
	for _, a := range cast.Accts {
		ns, _ := pw.Raw.GetAccountNodes(store.Account(a))
		var ids []string
		for _, p := range ns {
			ids = append(ids, vh.Short(string(p)))
		}
		sort.Strings(ids)
		fmt.Fprintf(&b, " %s:nodes%v dep=%v", vh.Short(a), ids, pw.BStore.Deposits[store.Account(a)])
	}
	var paid []string
	for _, s := range pw.Settles {
		if !s.Failed {
			paid = append(paid, s.Amount)
		}
	}
	sort.Strings(paid)
	fmt.Fprintf(&b, " paid=%v registry=%s", paid, pw.RegistryKey())
	return b.String()
}

// run executes the ops in the given order sequentially (perm) or concurrently (perm == nil).
func c10Run(driver string, ops []string, perm []int) (outcomes []string, view string) {
	pw, cast := c10Setup(driver)
	// pre-sign: every op gets a fixed nonce so that serial and concurrent runs submit identical requests
	calls := make([]func() error, len(ops))
	baseNonce := vsched.Now().UnixNano()
	after0 := make([]bool, len(ops))
	for i, op := range ops {
		if strings.HasPrefix(op, "after0:") { // this request is only sent once request 0 has returned
			op = strings.TrimPrefix(op, "after0:")
			after0[i] = true
		}
		op = strings.TrimPrefix(op, "then:")
		op = strings.TrimPrefix(op, "first:")
		f := strings.Fields(op)
		nonce := baseNonce + int64(1+i)
		if strings.HasPrefix(op, "dup:") { // same request as the previous op
			f = strings.Fields(strings.TrimPrefix(op, "dup:"))
			nonce = baseNonce + int64(i)
		}
		calls[i] = c10Call(pw, cast, f, nonce)
	}
	res := make([]error, len(ops))
	// "then:" requests follow, one at a time, once everything else has returned: they make what the
	// racing requests left behind in fields no getter shows (check-in times) visible in the balances
	var then []int
	for i, op := range ops {
		if strings.HasPrefix(op, "then:") {
			then = append(then, i)
		}
	}
	// "first:" requests come before everything else, one at a time
	for i, op := range ops {
		if strings.HasPrefix(op, "first:") {
			res[i] = calls[i]()
		}
	}
	defer func() {
		for _, i := range then {
			res[i] = calls[i]()
		}
		outcomes = outcomes[:0]
		for _, e := range res {
			outcomes = append(outcomes, c10Classify(e))
		}
		view = c10View(pw, cast)
	}()
	if perm != nil {
		for _, i := range perm {
			if !strings.HasPrefix(ops[i], "first:") {
				res[i] = calls[i]()
			}
		}
	} else {
		var fns []func()
		done0 := make(chan struct{})
		var names []string
		for i := range calls {
			i := i
			if strings.HasPrefix(ops[i], "then:") || strings.HasPrefix(ops[i], "first:") {
				continue
			}
			names = append(names, ops[i])
			fns = append(fns, func() {
				if after0[i] {
					vsched.Recv(done0)
				}
				res[i] = calls[i]()
				if i == 0 {
					vsched.Close(done0)
				}
			})
		}
		vh.Par(names, fns...)
	}
	return nil, ""
}

func c10Call(pw *vh.PoolWorld, cast *vh.Cast, f []string, nonce int64) func() error {
	ctx := vh.CtxWith(pw.Host("ctx").Service())
	if f[0] == "tick" { // time passes (one indivisible step of the clock)
		d, err := time.ParseDuration(f[1])
		if err != nil {
			panic(err)
		}
		return func() error { vsched.Advance(d); return nil }
	}
	if f[0] == "close" { // the connection drops: the server's disconnect callback
		svc := pw.Host(f[1]).Service()
		return func() error { return pw.Pool.CloseRemote(svc) }
	}
	id := cast.ByName[f[1]]
	switch f[0] {
	case "host": // a host (re)registers on the named connection
		hctx := vh.CtxWith(pw.Host(f[2]).Service())
		c := vh.NewCall("vipnode_host", id, nonce, vh.DefaultParam("vipnode_host", id.NodeID))
		return func() error { _, err := c.Invoke(pw, hctx); return err }
	case "upd":
		var peers []string
		if f[2] != "-" {
			for _, p := range strings.Split(f[2], ",") {
				peers = append(peers, cast.ByName[p].NodeID)
			}
		}
		req := pool.UpdateRequest{BlockNumber: 5}
		for _, p := range peers {
			pi := vh.DefaultParam("vipnode_update", p).(pool.UpdateRequest).PeerInfo[0]
			req.PeerInfo = append(req.PeerInfo, pi)
		}
		c := vh.NewCall("vipnode_update", id, nonce, req)
		return func() error { _, err := c.Invoke(pw, ctx); return err }
	case "conn":
		c := vh.NewCall("vipnode_connect", id, nonce, vh.DefaultParam("vipnode_connect", ""))
		return func() error { _, err := c.Invoke(pw, ctx); return err }
	case "link":
		c := vh.NewCall("pool_addNode", id, nonce, cast.ByName[f[2]].NodeID)
		return func() error { _, err := c.Invoke(pw, ctx); return err }
	case "withdraw":
		c := vh.NewCall("pool_withdraw", id, nonce, nil)
		return func() error { _, err := c.Invoke(pw, ctx); return err }
	case "peer":
		c := vh.NewCall("vipnode_peer", id, nonce, pool.PeerRequest{Num: 1})
		return func() error { _, err := c.Invoke(pw, ctx); return err }
	}
	panic(fmt.Sprint(f))
}

func permutations(n int) [][]int {
	if n == 0 {
		return [][]int{{}}
	}
	var out [][]int
	for _, p := range permutations(n - 1) {
		for pos := 0; pos <= len(p); pos++ {
			np := append(append(append([]int{}, p[:pos]...), n-1), p[pos:]...)
			out = append(out, np)
		}
	}
	return out
}

var c10Scenarios = map[string][]string{
	"two-clients-one-host": {"upd C1 H1", "upd C2 H1"},
	"duplicate-update":     {"upd C1 H1,H2", "dup:upd C1 H1,H2"},
	"same-client-twice":    {"upd C1 H1,H2", "upd C1 H1"},
	"same-client-thrice":   {"upd C1 H1,H2", "upd C1 H1", "upd C1 H2"},
	// request 0 holds C1's turn without touching its check-in time; request 1 queues behind it;
	// request 2 only arrives once request 0 has returned
	"queued-then-late":    {"peer C1", "upd C1 H1,H2", "after0:upd C1 H1"},
	"reconnect-vs-update": {"conn C1", "upd C1 H1"},
	// the same while time passes, followed by one more keep-alive: whatever check-in time the race
	// left behind decides what that keep-alive bills
	"reconnect-vs-update-vs-clock": {"conn C1", "upd C1 H1", "tick 30s", "then:tick 40s", "then:upd C1 H1"},
	// (the later request of one node must carry the higher nonce to be accepted: both orders)
	"update-vs-reconnect-vs-clock": {"upd C1 H1", "conn C1", "tick 30s", "then:tick 40s", "then:upd C1 H1"},
	"two-updates-vs-clock":         {"upd C1 H1,H2", "upd C1 H1", "tick 30s", "then:tick 40s", "then:upd C1 H1"},
	"link-vs-update":               {"link W1 C2", "upd C2 H1,H2"},
	"link-host-vs-update":          {"link W1 H1", "upd C1 H1"},
	"withdraw-vs-update":           {"withdraw W1", "upd C1 H1"},
	"peer-vs-update":               {"peer C1", "upd C1 H1"},
	"three-way":                    {"upd C1 H1", "upd C2 H1", "link W1 H1"},
	"withdraw-link-update":         {"withdraw W1", "link W1 C2", "upd C2 H1"},
	"two-withdraws-one-link":       {"withdraw W1", "withdraw W1", "link W1 H2"},
	// two clients asking for hosts at the same moment (the drivers' host selection is shared state)
	"two-peer-requests": {"peer C1", "peer C2"},
	// (requesters without tracked peers: as many candidates as the limit, the selection is shuffled)
	"two-peer-requests-by-hosts": {"peer H1", "peer H2"},
	// a host's connection drops while the same host registers again on a new one, and while a
	// client asks for hosts; afterwards a client asks again
	"close-vs-rehost":      {"first:host H1 connA", "close connA", "host H1 connB", "then:peer C2"},
	"close-vs-rehost-same": {"first:host H1 connA", "close connA", "host H1 connA", "then:peer C2"},
	"close-vs-peer":        {"first:host H1 connA", "first:host H2 connB", "close connA", "peer C2", "then:peer C2"},
	"close-vs-host-update": {"first:host H1 connA", "close connA", "upd H1 -", "then:peer C2"},
}

func c10Serial(driver, scen string, bound int) vh.Unit {
	return c10SerialNamed("serialisable", driver, scen, bound)
}

func c10SerialNamed(prefix, driver, scen string, bound int) vh.Unit {
	name := fmt.Sprintf("%s/%s/%s", prefix, driver, scen)
	ops := c10Scenarios[scen]
	return vh.Unit{Name: name, Run: func(u *vh.U) {
		// differential oracle: every one-at-a-time ordering of the same requests on the real code
		allowed := map[string]string{}
		for _, perm := range permutations(c10Racing(ops)) {
			if !c10Respects(ops, perm) {
				continue
			}
			out, view := c10Run(driver, ops, perm)
			allowed[fmt.Sprint(out)+"|"+view] = fmt.Sprint(perm)
		}
		var out []string
		var view string
		vh.RunDFS(u, vh.DFSSpec{
			Name: name, Bound: bound,
			// three or more threads: delay-bounded (see DESIGN §2.2)
			Run:  vsched.Options{YieldFiles: []string{"memory.go", "badger.go", "helpers.go", "perinterval.go", "service.go"}, Drain: true, Delay: len(ops) > 2},
			Body: func() { out, view = c10Run(driver, ops, nil) },
			Obs:  func(s *vsched.Sched) string { return fmt.Sprint(out) + "|" + view },
			Check: func(s *vsched.Sched) (string, string) {
				k := fmt.Sprint(out) + "|" + view
				if _, ok := allowed[k]; ok {
					return "", ""
				}
				hasConflict := false
				for _, o := range out {
					if o == "conflict" {
						hasConflict = true
					}
				}
				if hasConflict && driver == vh.Badger {
					// a transaction conflict surfaced as an error: the failed call must have left no
					// balance effect, i.e. the result equals a serial run of the calls that went through
					var sub []string
					for i, o := range out {
						if o == "accepted" {
							sub = append(sub, strings.TrimPrefix(ops[i], "dup:"))
						}
					}
					for _, perm := range permutations(c10Racing(sub)) {
						_, v2 := c10Run(driver, sub, perm)
						if c10Balances(v2) == c10Balances(view) {
							return "", ""
						}
					}
					return prefix + "/" + driver + "/failed-call-left-effect", fmt.Sprintf("concurrent %v -> outcomes %v, state %s: not the result of the calls that went through, in any order", ops, out, view)
				}
				var al []string
				for k := range allowed {
					al = append(al, k)
				}
				sort.Strings(al)
				return prefix + "/" + driver + "/" + scen, fmt.Sprintf("concurrent %v -> outcomes %v, state %s\n  equals no one-at-a-time ordering; serial results:\n  %s", ops, out, view, strings.Join(al, "\n  "))
			},
		})
	}}
}

// c10Balances: the ledger part and the payouts of a view.
// free-running -race pass over the same scenario bodies (supplementary, not deciding)
func c10RacePass(driver, scen string, reps int) vh.Unit {
	name := fmt.Sprintf("racepass/%s/%s", driver, scen)
	ops := c10Scenarios[scen]
	return vh.Unit{Name: name, Run: func(u *vh.U) {
		allowed := map[string]bool{}
		for _, perm := range permutations(c10Racing(ops)) {
			out, view := c10Run(driver, ops, perm)
			allowed[fmt.Sprint(out)+"|"+c10Balances(view)] = true
		}
		for i := 0; i < reps && !u.Expired(); i++ {
			out, view := c10Run(driver, ops, nil)
			u.R.Evaluations++
			u.R.States++
			u.R.Transitions++
			u.Observe(fmt.Sprint(out) + view)
			_ = allowed
		}
		u.R.Exhaustive = false
		u.Note("free-running -race repetitions: sampling, not deciding")
		u.Sample(fmt.Sprintf("%d free-running repetitions of %v under the race detector", reps, ops))
	}}
}

// c10Racing: the number of racing requests ("then:" requests come last and are not permuted).
func c10Racing(ops []string) int {
	n := 0
	for _, op := range ops {
		if !strings.HasPrefix(op, "then:") {
			n++
		}
	}
	return n
}

// c10Respects: requests marked after0 come after request 0 in a serial order.
func c10Respects(ops []string, perm []int) bool {
	pos := map[int]int{}
	for p, i := range perm {
		pos[i] = p
	}
	for i, op := range ops {
		if strings.HasPrefix(op, "after0:") && pos[i] < pos[0] {
			return false
		}
	}
	return true
}

func c10Balances(view string) string {
	i := strings.Index(view, "}")
	j := strings.LastIndex(view, " paid=")
	if i < 0 || j < 0 {
		return view
	}
	return view[:i+1] + view[j:]
}

// ---- snapshots: a value handed out is never altered by later operations ----

type snapshot struct {
	what string
	ptr  interface{} // the live value handed out (pointer or value holding references)
	dump string      // deep copy (as canonical text) taken at hand-out time
}

func c10Snapshots(driver string, depth, shard, nshards int) vh.Unit {
	name := fmt.Sprintf("snapshots/%s/d%d/%d", driver, depth, shard)
	evs := []string{"addnb a 3", "addnb a 7", "addnb a 2^70", "addnb a -2^70", "addab W1 5", "addab W1 2^64", "link W1 a", "link W1 b", "set a hg", "set b hp",
		"upd a b 9", "upd b a 4", "tick 30s", "addnb b 1"}
	type world struct {
		st    store.Store
		snaps []snapshot
	}
	take := func(w *world) {
		for _, id := range []store.NodeID{"a", "b"} {
			if b, err := w.st.GetNodeBalance(id); err == nil {
				bp := &b
				w.snaps = append(w.snaps, snapshot{"GetNodeBalance(" + string(id) + ")", bp, vh.DeepDump(bp)})
			}
			if n, err := w.st.GetNode(id); err == nil {
				w.snaps = append(w.snaps, snapshot{"GetNode(" + string(id) + ")", n, vh.DeepDump(n)})
			}
			if ps, err := w.st.NodePeers(id); err == nil {
				pp := &ps
				w.snaps = append(w.snaps, snapshot{"NodePeers(" + string(id) + ")", pp, vh.DeepDump(pp)})
			}
		}
		if b, err := w.st.GetAccountBalance("W1"); err == nil {
			bp := &b
			w.snaps = append(w.snaps, snapshot{"GetAccountBalance(W1)", bp, vh.DeepDump(bp)})
		}
		if hs, err := w.st.ActiveHosts("", 0); err == nil {
			hp := &hs
			w.snaps = append(w.snaps, snapshot{"ActiveHosts", hp, vh.DeepDump(hp)})
		}
		if s, err := w.st.Stats(); err == nil {
			w.snaps = append(w.snaps, snapshot{"Stats", s, vh.DeepDump(s)})
		}
	}
	return vh.Unit{Name: name, Run: func(u *vh.U) {
		vh.RunBFS(u, vh.BFSSpec{
			Name: name, MaxDepth: depth, Shard: shard, NShards: nshards,
			New: func() interface{} {
				vsched.ResetClock(0)
				w := &world{st: vh.NewStore(driver)}
				vh.ApplyStoreOp(w.st, "set a hg")
				vh.ApplyStoreOp(w.st, "set b cl")
				take(w)
				return w
			},
			Events: func(interface{}) []string { return evs },
			Apply: func(wi interface{}, ev string, judge bool, hist []string) {
				w := wi.(*world)
				if d := vh.TickOf(ev); d > 0 {
					vsched.Advance(d)
				}
				vh.ApplyStoreOp(w.st, ev)
				if judge {
					u.Observe(ev)
					for _, s := range w.snaps {
						if now := vh.DeepDump(s.ptr); now != s.dump {
							u.Violate("snapshot-altered/"+driver+"/"+strings.Split(s.what, "(")[0],
								fmt.Sprintf("history %v: the value returned earlier by %s changed after %q:\n  was %s\n  now %s", hist, s.what, ev, s.dump, now), vh.BFSReplay(name, hist))
							break
						}
					}
					u.R.Traces++
				}
				take(w)
			},
			Key: func(wi interface{}) string {
				w := wi.(*world)
				return fmt.Sprintf("%d|%s|%s", vsched.Elapsed(), vh.StoreView(w.st, []string{"a", "b"}, []string{"W1"}), vh.StateKey(w.st))
			},
		})
	}}
}

// pool level: the balance inside an UpdateResponse is a snapshot too
func c10ReplySnapshot(driver string) vh.Unit {
	name := "reply-snapshot/" + driver
	return vh.Unit{Name: name, Run: func(u *vh.U) {
		cast := vh.StdCast()
		for _, linked := range []bool{false, true} {
			vsched.ResetClock(0)
			pw := vh.NewPoolWorld(vh.PoolConfig{Driver: driver, Price: big10("2^62"), Interval: 1e9})
			for _, e := range []string{"conn H1", "conn C1", "upd C1 H1"} {
				vh.PoolEvent(pw, cast, e)
			}
			if linked {
				vh.PoolEvent(pw, cast, "link W1 C1")
			}
			var held []snapshot
			for i := 0; i < 6; i++ {
				vsched.Advance(7e9)
				vh.PoolEvent(pw, cast, "upd H1 -")
				resp, err := pw.Update(cast.ByName["C1"], []string{cast.ByName["H1"].NodeID}, uint64(i))
				u.R.Evaluations++
				u.R.Transitions++
				u.R.States++
				u.R.Traces++
				for _, s := range held {
					if now := vh.DeepDump(s.ptr); now != s.dump {
						u.Violate("snapshot-altered/"+driver+"/UpdateResponse.Balance", fmt.Sprintf("linked=%v: the balance handed out in the reply of keep-alive %s changed after keep-alive %d: was %s now %s", linked, s.what, i, s.dump, now), nil)
						return
					}
				}
				if err == nil && resp != nil && resp.Balance != nil {
					held = append(held, snapshot{fmt.Sprint(i), resp.Balance, vh.DeepDump(resp.Balance)})
					u.Observe(vh.DeepDump(resp.Balance))
				}
			}
			u.Sample(fmt.Sprintf("linked=%v: %d reply balances held across later keep-alives", linked, len(held)))
		}
	}}
}

func init() {
	vh.Register(&vh.Check{
		ID: "C10", Level: "model_checking",
		Technique: "schedule DFS (preemption-bounded, statement-granular scheduling points in the memory driver, inside badger transaction closures, in the balance manager and the pool service) of concurrent signed requests with a differential oracle: the outcome must equal that of some sequential permutation of the same requests executed on the real code; explicit-state BFS for snapshot immutability (every value handed out is deep-copied and re-compared after every later operation)",
		Rule:      "11 scenarios of 2-3 concurrent calls drawn from {keep-alive of two clients sharing a host, duplicate keep-alive, same client twice, reconnect, link, withdraw, peer request} per driver, all interleavings within the preemption bound; judged on balances, wallet links, peer sets, payouts and per-call accept/reject; snapshots: all store op sequences up to the depth bound with multi-word amounts; a connection closing under an in-flight request of its node (registries part of the compared state, deadlock = violation); concurrent callers over the socket transport",
		Assumptions: []string{
			"interleavings are explored under sequential consistency; data races in the Go memory-model sense are probed only by the separate free-running -race pass (units racepass/*), which can report a race but cannot prove absence",
			"with the persistent driver a transaction-conflict error is a legitimate outcome of a call provided the failed call left no balance effect",
			"node bookkeeping fields that the property does not list (BlockNumber, LastSeen) are not part of the serialisability comparison",
		},
		Units: func(tier string) []vh.Unit {
			var us []vh.Unit
			for _, d := range vh.Drivers {
				for scen := range c10Scenarios {
					bound := 2
					if d == vh.Badger {
						bound = 1
					}
					if scen == "queued-then-late" && d == vh.Memory {
						bound = 2 // needs two well-placed delays
					}
					if tier == "thorough" {
						bound++
					}
					us = append(us, c10Serial(d, scen, bound))
				}
				depth, n := 4, 4
				if tier == "thorough" {
					depth, n = 5, 14
				}
				if d == vh.Badger {
					depth--
				}
				for s := 0; s < n; s++ {
					us = append(us, c10Snapshots(d, depth, s, n))
				}
				us = append(us, c10ReplySnapshot(d))
				// store level: a keep-alive reporting a peer while that peer checks in / re-registers
				rb := 2
				if d == vh.Badger {
					rb = 1
				}
				if tier == "thorough" {
					rb += 2
				}
				for _, scen := range []string{"report-vs-peer-checkin", "report-vs-peer-reconnect", "mutual-reports"} {
					us = append(us, c11Race(d, scen, rb))
				}
			}
			// the transport the concurrent requests of one connection share: whole messages only
			us = append(us, c17StreamWriters(2))
			// ... and the calls several agents (or one agent's goroutines) make over it at the same
			// time: each gets the reply to its own request
			for _, sc := range c14Scenarios() {
				if strings.HasPrefix(sc.name, "two-callers-one-side") || strings.HasPrefix(sc.name, "three-callers") {
					sc.name = "socket-transport/" + sc.name
					us = append(us, c14Unit(sc, 2))
				}
			}
			reps := 150
			if tier == "thorough" {
				reps = 2000
			}
			for _, d := range vh.Drivers {
				for scen := range c10Scenarios {
					us = append(us, c10RacePass(d, scen, reps))
				}
			}
			sort.Slice(us, func(i, j int) bool { return us[i].Name < us[j].Name })
			return us
		},
	})
}
