//go:build go1.21

package checks

import (
	"context"
	"errors"
	"fmt"
	"sort"
	"strings"

	"github.com/vipnode/vipnode/v2/internal/verif/vh"
	"github.com/vipnode/vipnode/v2/internal/verif/vsched"
	"github.com/vipnode/vipnode/v2/jsonrpc2"
)

// C14 — each RPC call gets its own reply, in both directions, under any interleaving.

type c14Call struct {
	from   string // "a" or "b": which side issues the call
	kind   string // echo | nest<d> | cancel (echo whose context is cancelled by a racing thread)
	token  string
	result string
	err    error
	done   bool
}

type c14Scenario struct {
	name           string
	calls          []c14Call
	limit, discard int
	noClient       bool   // Remotes built without an explicit Client (as the agent binary dials the pool)
	ids            string // "" default client; "big": ids beyond 2^53 differing in the low bits; "string"
}

func c14Mk(specs ...string) []c14Call {
	var cs []c14Call
	for i, s := range specs {
		f := strings.Split(s, ":")
		cs = append(cs, c14Call{from: f[0], kind: f[1], token: fmt.Sprintf("tok%d", i)})
	}
	return cs
}

func c14Scenarios() []c14Scenario {
	mk := c14Mk
	return []c14Scenario{
		{"two-callers-one-side", mk("a:echo", "a:echo"), 0, 0, false, ""},
		{"three-callers-one-side", mk("a:echo", "a:echo", "a:echo"), 0, 0, false, ""},
		{"callers-on-both-sides", mk("a:echo", "b:echo"), 0, 0, false, ""},
		{"both-sides-two-each", mk("a:echo", "b:echo", "a:echo"), 0, 0, false, ""},
		{"nested-depth1-plus-echo", mk("a:nest1", "a:echo"), 0, 0, false, ""},
		{"nested-depth2", mk("a:nest2", "b:echo"), 0, 0, false, ""},
		{"nested-depth3", mk("a:nest3"), 0, 0, false, ""},
		{"nested-both-directions", mk("a:nest1", "b:nest1"), 0, 0, false, ""},
		{"cancel-one-of-two", mk("a:cancel", "a:echo"), 0, 0, false, ""},
		{"cancel-vs-other-side", mk("a:cancel", "b:echo"), 0, 0, false, ""},
		{"cancel-alone", mk("a:cancel"), 0, 0, false, ""},
		// the same with connections built the way the binaries build them (no explicit Client)
		{"two-callers-one-side/no-explicit-client", mk("a:echo", "a:echo"), 0, 0, true, ""},
		{"callers-on-both-sides/no-explicit-client", mk("a:echo", "b:echo"), 0, 0, true, ""},
		{"cancel-one-of-two/no-explicit-client", mk("a:cancel", "a:echo"), 0, 0, true, ""},
		{"nested-depth1-plus-echo/no-explicit-client", mk("a:nest1", "a:echo"), 0, 0, true, ""},
		// a call of an unregistered name among the others: answered with an error, nothing else disturbed
		{"unknown-method-plus-echo", mk("a:unknown", "a:echo"), 0, 0, false, ""},
		{"unknown-method-both-sides", mk("a:unknown", "b:echo", "b:unknown"), 0, 0, false, ""},
		{"unknown-method-twice", mk("a:unknown", "a:unknown"), 0, 0, false, ""},
		// request ids other than small integers
		{name: "two-callers-one-side/big-ids", calls: mk("a:echo", "a:echo"), ids: "big"},
		{name: "callers-on-both-sides/big-ids", calls: mk("a:echo", "b:echo", "a:echo"), ids: "big"},
		{name: "nested-depth1-plus-echo/string-ids", calls: mk("a:nest1", "a:echo"), ids: "string"},
		// a handler that forwards the request, with its context, to an in-memory service
		{"relay-to-local-service", mk("a:relay", "b:echo"), 0, 0, false, ""},
		{"relay-both-directions", mk("a:relay", "b:relay"), 0, 0, false, ""},
	}
}

func c14Unit(sc c14Scenario, bound int) vh.Unit {
	name := "rpc/" + sc.name
	var w *vh.RPCWorld
	var calls []c14Call
	body := func() {
		w = vh.NewRPCWorldOpt(sc.limit, sc.discard, !sc.noClient)
		if sc.ids != "" {
			w.A.Client, w.B.Client = &vh.IDClient{Kind: sc.ids}, &vh.IDClient{Kind: sc.ids}
		}
		w.Start()
		calls = append([]c14Call{}, sc.calls...)
		var fns []func()
		var names []string
		for i := range calls {
			c := &calls[i]
			remote := w.A
			if c.from == "b" {
				remote = w.B
			}
			switch {
			case c.kind == "echo" || c.kind == "relay":
				method := c.kind
				fns = append(fns, func() {
					c.err = remote.Call(context.Background(), &c.result, method, c.token)
					c.done = true
				})
				names = append(names, "call-"+c.token)
			case strings.HasPrefix(c.kind, "nest"):
				depth := int(c.kind[4] - '0')
				fns = append(fns, func() {
					c.err = remote.Call(context.Background(), &c.result, "nest", c.token, depth)
					c.done = true
				})
				names = append(names, "call-"+c.token)
			case c.kind == "unknown": // a call of a name the other side does not serve
				fns = append(fns, func() {
					c.err = remote.Call(context.Background(), &c.result, "noSuchMethod", c.token)
					c.done = true
				})
				names = append(names, "call-"+c.token)
			case c.kind == "cancel":
				ctx, cancel := vsched.WithCancel(context.Background())
				fns = append(fns, func() {
					c.err = remote.Call(ctx, &c.result, "echo", c.token)
					c.done = true
				}, func() { cancel() })
				names = append(names, "call-"+c.token, "cancel-"+c.token)
			}
		}
		vh.Par(names, fns...)
	}
	judge := func(s *vsched.Sched) (string, string) {
		for i := range calls {
			c := &calls[i]
			if !c.done {
				return "rpc/call-never-returned", fmt.Sprintf("%s: call %s (%s from %s) never returned; threads %v", sc.name, c.token, c.kind, c.from, s.Blocked)
			}
			switch {
			case c.kind == "echo":
				if c.err != nil || c.result != c.token {
					return "rpc/wrong-reply", fmt.Sprintf("%s: echo(%s) from %s returned %q err=%v", sc.name, c.token, c.from, c.result, c.err)
				}
			case c.kind == "relay":
				if c.err != nil || c.result != "leaf:"+c.token {
					return "rpc/nested-callback", fmt.Sprintf("%s: relay(%s) from %s - forwarded to an in-memory service that calls back over the service it was called on - returned %q err=%v, want %q", sc.name, c.token, c.from, c.result, c.err, "leaf:"+c.token)
				}
			case c.kind == "unknown":
				var er *jsonrpc2.ErrResponse
				if !errors.As(c.err, &er) || er.Code != jsonrpc2.ErrCodeMethodNotFound || c.result != "" {
					return "rpc/wrong-reply", fmt.Sprintf("%s: noSuchMethod(%s) from %s returned %q err=%v (expected a method-not-found error)", sc.name, c.token, c.from, c.result, c.err)
				}
			case c.kind == "cancel":
				if c.err == nil && c.result != c.token {
					return "rpc/wrong-reply", fmt.Sprintf("%s: echo(%s) returned %q", sc.name, c.token, c.result)
				}
				if c.err != nil && c.err != context.Canceled {
					return "rpc/cancelled-call-error", fmt.Sprintf("%s: cancelled echo(%s) returned err=%v (expected its reply or context.Canceled)", sc.name, c.token, c.err)
				}
			default:
				depth := int(c.kind[4] - '0')
				other := map[string]string{"a": "b", "b": "a"}[c.from]
				want := ""
				side := other
				for d := depth; d >= 0; d-- {
					want += side
					side = map[string]string{"a": "b", "b": "a"}[side]
				}
				if c.err != nil || c.result != want {
					return "rpc/nested-callback", fmt.Sprintf("%s: nest(%s,%d) from %s returned %q err=%v, want %q", sc.name, c.token, depth, c.from, c.result, c.err, want)
				}
			}
		}
		// every request handled exactly once, with the right service in its context
		for _, r := range []*vh.Receiver{w.RecvA, w.RecvB} {
			if len(r.BadCtx) > 0 {
				return "rpc/wrong-context-service", fmt.Sprintf("%s: handlers on side %s saw a context service that is not the connection the request arrived on: %v", sc.name, r.Side, r.BadCtx)
			}
			for tok, n := range r.Handled {
				if n != 1 {
					return "rpc/handled-not-once", fmt.Sprintf("%s: request %s handled %d times on side %s", sc.name, tok, n, r.Side)
				}
			}
		}
		wantHandled := 0
		for _, c := range calls {
			switch {
			case strings.HasPrefix(c.kind, "nest"):
				wantHandled += int(c.kind[4]-'0') + 1
			case c.kind == "unknown":
			default:
				wantHandled++
			}
		}
		got := len(w.RecvA.Handled) + len(w.RecvB.Handled)
		if got != wantHandled {
			return "rpc/request-not-handled", fmt.Sprintf("%s: %d requests handled, %d were sent (a:%v b:%v)", sc.name, got, wantHandled, w.RecvA.Handled, w.RecvB.Handled)
		}
		// after draining only the two serve loops may still be alive (blocked reading)
		for _, t := range s.Blocked {
			if !strings.Contains(t, ":serve-") {
				return "rpc/goroutine-left-blocked", fmt.Sprintf("%s: %v", sc.name, s.Blocked)
			}
		}
		return "", ""
	}
	return vh.Unit{Name: name, Run: func(u *vh.U) {
		vh.RunDFS(u, vh.DFSSpec{
			Name: name, Bound: bound,
			Run:           vsched.Options{YieldFiles: []string{"remote.go", "client.go", "pending.go", "server.go", "method.go"}, Drain: true, Delay: true, MaxTime: 3600e9, AutoTick: 1},
			Body:          body,
			AllowDeadlock: true, // judged below with a precise message
			Check: func(s *vsched.Sched) (string, string) {
				return judge(s)
			},
			Obs: func(s *vsched.Sched) string {
				var rs []string
				for _, c := range calls {
					rs = append(rs, fmt.Sprintf("%s=%s/%v", c.token, c.result, c.err))
				}
				sort.Strings(rs)
				return fmt.Sprint(rs, w.CA.Writes, w.CB.Writes)
			},
		})
	}}
}

// the production shape of the pending table, scaled down: PendingLimit=2, PendingDiscard=1
func c14PendingLimit(bound int) vh.Unit {
	sc := c14Scenario{name: "pending-limit-2-discard-1", limit: 2, discard: 1}
	for i := 0; i < 3; i++ {
		sc.calls = append(sc.calls, c14Call{from: "a", kind: "echo", token: fmt.Sprintf("tok%d", i)})
	}
	un := c14Unit(sc, bound)
	un.Name = "rpc-pending/" + sc.name
	return un
}

// jsonrpc2.Local: the context service of a handler is the Local itself
func c14Local() vh.Unit {
	return vh.Unit{Name: "local/context-service", Run: func(u *vh.U) {
		loc := &jsonrpc2.Local{}
		r := &vh.Receiver{Side: "l", Handled: map[string]int{}}
		loc.Server.Register("", r)
		for i := 0; i < 3; i++ {
			var got string
			tok := fmt.Sprintf("t%d", i)
			err := loc.Call(context.Background(), &got, "echo", tok)
			u.R.Evaluations++
			u.R.States++
			u.R.Transitions++
			u.Observe(tok)
			if err != nil || got != tok {
				u.Violate("local/wrong-reply", fmt.Sprintf("Local echo(%s) returned %q err=%v", tok, got, err), nil)
			}
		}
		// r.Own is nil: every handler recorded a "bad" context; check it saw the Local instead
		type probe struct{ svc jsonrpc2.Service }
		p := &ctxProbe{}
		loc2 := &jsonrpc2.Local{}
		loc2.Server.RegisterMethod("probe", p, "Probe")
		loc2.Call(context.Background(), nil, "probe")
		if p.Svc != jsonrpc2.Service(loc2) {
			u.Violate("local/wrong-context-service", fmt.Sprintf("handler saw %T %v", p.Svc, p.Err), nil)
		}
		u.Sample("Local.Call echo x3 + context service probe")
		u.Observe("probe")
	}}
}

// CtxProbe records the service found in a handler's context.
type ctxProbe = CtxProbe
type CtxProbe struct {
	Svc jsonrpc2.Service
	Err error
}

func (p *CtxProbe) Probe(ctx context.Context) error {
	p.Svc, p.Err = jsonrpc2.CtxService(ctx)
	return nil
}

// a long-lived connection over the stream transport the binaries' in-process pools use
// (jsonrpc2.ServePipe): a few megabytes of calls in both directions, each answered with its own
// payload - traffic volume is no reason for a call to stay unanswered
func c14LongLived() vh.Unit {
	return vh.Unit{Name: "long-lived-stream-connection", Run: func(u *vh.U) {
		vsched.SetVirtualClock(false)
		a, b := jsonrpc2.ServePipe()
		recvA := &vh.Receiver{Side: "a", Own: a, Handled: map[string]int{}}
		recvB := &vh.Receiver{Side: "b", Own: b, Handled: map[string]int{}}
		if err := a.Server.Register("", recvA); err != nil {
			panic(err)
		}
		if err := b.Server.Register("", recvB); err != nil {
			panic(err)
		}
		defer a.Codec.Close()
		defer b.Codec.Close()
		payload := strings.Repeat("z", 4096)
		const rounds = 400 // x 2 directions x ~8 kB per call = ~6.5 MB over the connection
		for i := 0; i < rounds; i++ {
			for _, side := range []*jsonrpc2.Remote{a, b} {
				token := fmt.Sprintf("%d-%s", i, payload)
				var got string
				var err error
				if p := vh.Recover(func() {
					_, err = vh.Watched(fmt.Sprintf("echo call %d", i), func() (struct{}, error) {
						return struct{}{}, side.Call(context.Background(), &got, "echo", token)
					})
				}); p != "" {
					err = fmt.Errorf("%s", p)
				}
				u.R.Evaluations++
				u.R.Transitions++
				if err != nil || got != token {
					u.R.States++
					u.R.Traces++
					u.Violate("rpc/call-never-returned", fmt.Sprintf("call %d (about %d kB had crossed the connection): err=%v, reply matches=%v", i, i*16, err, got == token), nil)
					return
				}
			}
		}
		u.R.States++
		u.R.Traces++
		u.Observe("long-lived ok")
		u.Sample("400 rounds of 4 kB echo calls in both directions over jsonrpc2.ServePipe")
	}}
}

func init() {
	vh.Register(&vh.Check{
		ID: "C14", Level: "model_checking",
		Technique: "schedule DFS (delay-bounded, statement-granular scheduling points in remote.go / client.go / pending.go / server.go) on two real jsonrpc2.Remote endpoints joined by an in-memory codec whose message delivery is owned by the explorer",
		Rule:      "11 scenarios (2-3 concurrent callers on one side, callers on both sides, nested call-backs of depth 1-3 in one and both directions, a call cancelled by a racing thread) x every interleaving of callers, both serve loops, spawned request handlers and the canceller within the delay bound (deterministic round-robin scheduler, every skipped thread at any decision costs one unit); each call must return its own token (or context.Canceled), each request handled exactly once with the arrival connection as context service, nothing left blocked except the two read loops; distinct = per-call result vectors + message counts; calls of unregistered names among the other calls",
		Assumptions: []string{
			"the production pending-table shape (PendingLimit=50/PendingDiscard=10) is explored scaled down to 2/1 as a separate unit",
			"the in-memory codec delivers messages per direction in FIFO order (like a stream connection)",
		},
		Units: func(tier string) []vh.Unit {
			var us []vh.Unit
			for _, sc := range c14Scenarios() {
				bound := 2
				if tier == "thorough" {
					bound = 3
				}
				us = append(us, c14Unit(sc, bound))
			}
			pb := 2
			if tier == "thorough" {
				pb = 3
			}
			us = append(us, c14PendingLimit(pb), c14Local(), c14LongLived())
			// many requests in flight at once, each of whose handlers calls back over the same
			// connection (width instead of interleavings: schedules with at most one deviation)
			var wide []string
			for i := 0; i < 40; i++ {
				wide = append(wide, "a:nest1")
			}
			wb := 0
			if tier == "thorough" {
				wb = 1
			}
			us = append(us, c14Unit(c14Scenario{name: "forty-nested-callers", calls: c14Mk(wide...)}, wb))
			return us
		},
	})
}
