//go:build go1.21

package checks

import (
	"context"
	"encoding/json"
	"fmt"
	"sort"
	"strings"
	"time"

	"github.com/gorilla/websocket"
	"github.com/vipnode/vipnode/v2/internal/verif/vh"
	"github.com/vipnode/vipnode/v2/internal/verif/vsched"
	"github.com/vipnode/vipnode/v2/jsonrpc2"
	"github.com/vipnode/vipnode/v2/pool"
	"github.com/vipnode/vipnode/v2/pool/store"
)

// C09 — the pool talks to a host exactly while that host has a live connection.

type c09World struct {
	pw     *vh.PoolWorld
	reg    map[string]string // host -> connection it most recently registered on
	closed map[string]bool
	// per connection: the hosts that registered on it, ordered by their last registration there.
	// Part of the state key: an implementation may (and this one does) keep reverse bookkeeping per
	// connection, so two histories with the same host->connection map are not the same state.
	onConn map[string][]string
	// per connection: hosts whose keep-alive arrived on it (also part of the key)
	kaConn map[string]map[string]bool
	srv    *jsonrpc2.Server // the production registration, built on first use
}

var c09Hosts = []string{"A", "B"}
var c09Conns = []string{"c1", "c2", "c3"}

func c09Ident(h string) *vh.Ident {
	if h == "A" {
		return vh.Identities()[1]
	}
	return vh.Identities()[2]
}

func c09New() *c09World {
	vsched.ResetClock(0)
	pw := vh.NewPoolWorld(vh.PoolConfig{Driver: vh.Memory, NoManager: true})
	pw.Raw.SetNode(store.Node{ID: store.NodeID(vh.Identities()[0].NodeID), Kind: "geth", LastSeen: vsched.Now()})
	return &c09World{pw: pw, reg: map[string]string{}, closed: map[string]bool{}, onConn: map[string][]string{}, kaConn: map[string]map[string]bool{}}
}

func (w *c09World) apply(ev string) error {
	f := strings.Fields(ev)
	switch f[0] {
	case "connect":
		h, c := f[1], f[2]
		conn := w.pw.Host(c)
		_, err := w.pw.Connect(c09Ident(h), vh.ConnectOpts{Host: true, Service: conn.Service()})
		if err == nil {
			w.reg[h] = c
			var l []string
			for _, x := range w.onConn[c] {
				if x != h {
					l = append(l, x)
				}
			}
			w.onConn[c] = append(l, h)
		}
		return err
	case "close":
		c := f[1]
		w.closed[c] = true
		return w.pw.Pool.CloseRemote(w.pw.Host(c).Service())
	case "keepalive":
		// a registered host's keep-alive arriving on connection c (not necessarily the one it
		// registered on): keep-alives do not move a registration
		h, c := f[1], f[2]
		_, err := w.pw.UpdateCtx(vh.CtxWith(w.pw.Host(c).Service()), c09Ident(h), nil, 1)
		if w.kaConn[c] == nil {
			w.kaConn[c] = map[string]bool{}
		}
		w.kaConn[c][h] = true
		return err
	case "goodbye":
		// the host sends the good-bye its agent sends on shutdown (vipnode_disconnect, a name the pool
		// binary registers) over connection c. A pool that answers it (rather than method-not-found)
		// has taken the host off its list; either way what is registered stays consistent with the
		// connections that are open.
		h, c := f[1], f[2]
		if w.srv == nil {
			w.srv = &jsonrpc2.Server{}
			if err := vh.RegisterProd(w.srv, w.pw); err != nil {
				panic(err)
			}
		}
		id := c09Ident(h)
		n := w.pw.NextNonce()
		msg, err := vh.ParseMessage(fmt.Sprintf(`{"jsonrpc":"2.0","id":1,"method":"vipnode_disconnect","params":[%q,%q,%d]}`, id.SignNode("vipnode_disconnect", n), id.NodeID, n))
		if err != nil {
			panic(err)
		}
		resp := w.srv.Handle(vh.CtxWith(w.pw.Host(c).Service()), msg)
		if resp != nil && resp.Response != nil && resp.Error == nil {
			delete(w.reg, h)
			var l []string
			for _, x := range w.onConn[c] {
				if x != h {
					l = append(l, x)
				}
			}
			w.onConn[c] = l
		}
		return nil
	case "abandoned-peer-request":
		// a client asks for hosts and hangs up while they are being asked (its context ends before
		// any host has answered): the hosts' connections are as open as before
		ctx, cancel := context.WithCancel(context.Background())
		defer cancel()
		for _, c := range c09Conns {
			h := w.pw.Host(c)
			h.Mode, h.OnCall = vh.HostSilent, cancel
			defer func() { h.Mode, h.OnCall = vh.HostAck, nil }()
		}
		w.pw.Peer(ctx, vh.Identities()[0], 5, "")
		return nil
	}
	panic(ev)
}

func (w *c09World) events() []string {
	evs := []string{"abandoned-peer-request"}
	for _, c := range c09Conns {
		if w.closed[c] {
			continue
		}
		for _, h := range c09Hosts {
			evs = append(evs, "connect "+h+" "+c)
			if _, registered := w.reg[h]; registered {
				evs = append(evs, "keepalive "+h+" "+c)
				if w.reg[h] == c {
					evs = append(evs, "goodbye "+h+" "+c)
				}
			}
		}
		evs = append(evs, "close "+c)
	}
	return evs
}

// expected: host -> live connection
func (w *c09World) expected() map[string]string {
	r := map[string]string{}
	for h, c := range w.reg {
		if !w.closed[c] {
			r[h] = c
		}
	}
	return r
}

// probe: a client asks for 5 hosts; returns for each connection the ids it was asked to whitelist for.
func (w *c09World) probe() (map[string]int, []string, error) {
	mark := map[string]int{}
	for _, c := range c09Conns {
		mark[c] = len(w.pw.Host(c).Calls)
	}
	resp, err := w.pw.Peer(context.Background(), vh.Identities()[0], 5, "")
	calls := map[string]int{}
	for _, c := range c09Conns {
		calls[c] = len(w.pw.Host(c).Calls) - mark[c]
	}
	var got []string
	if resp != nil {
		for _, n := range resp.Peers {
			got = append(got, string(n.ID))
		}
	}
	sort.Strings(got)
	return calls, got, err
}

func (w *c09World) judge(u *vh.U, what string, replay interface{}) {
	exp := w.expected()
	wantCalls := map[string]int{}
	var wantHosts []string
	for h, c := range exp {
		wantCalls[c]++
		wantHosts = append(wantHosts, c09Ident(h).NodeID)
	}
	sort.Strings(wantHosts)
	if n := w.pw.Pool.NumRemotes(); n != len(exp) {
		u.Violate("registry/connected-count", fmt.Sprintf("%s: NumRemotes()=%d, %d hosts have a live registered connection (%v)", what, n, len(exp), exp), replay)
	}
	calls, got, err := w.probe()
	for _, c := range c09Conns {
		if calls[c] != wantCalls[c] {
			cls := "live-host-not-called"
			if calls[c] > wantCalls[c] {
				cls = "dead-or-superseded-connection-called"
			}
			u.Violate("registry/"+cls, fmt.Sprintf("%s: a peer request started afterwards made %d calls on connection %s, expected %d (live registrations %v, reply %v err=%v)", what, calls[c], c, wantCalls[c], exp, shortAll(got), err), replay)
			return
		}
	}
	if strings.Join(got, ",") != strings.Join(wantHosts, ",") {
		u.Violate("registry/reply", fmt.Sprintf("%s: reply %v, expected %v", what, shortAll(got), shortAll(wantHosts)), replay)
	}
}

func c09BFS(depth, shard, nshards int) vh.Unit {
	name := fmt.Sprintf("registry-bfs/d%d/%d", depth, shard)
	return vh.Unit{Name: name, Run: func(u *vh.U) {
		vh.RunBFS(u, vh.BFSSpec{
			Name: name, MaxDepth: depth, Shard: shard, NShards: nshards,
			New:    func() interface{} { return c09New() },
			Events: func(wi interface{}) []string { return wi.(*c09World).events() },
			Apply: func(wi interface{}, ev string, judge bool, hist []string) {
				w := wi.(*c09World)
				err := w.apply(ev)
				if !judge {
					return
				}
				u.Observe(fmt.Sprintf("%s -> %v", strings.Fields(ev)[0], len(w.expected())))
				if err != nil {
					u.Violate("registry/event-failed", fmt.Sprintf("history %v: %v", hist, err), vh.BFSReplay(name, hist))
					return
				}
				w.judge(u, fmt.Sprintf("history %v", hist), vh.BFSReplay(name, hist))
			},
			Key: func(wi interface{}) string {
				w := wi.(*c09World)
				var ks []string
				for h, c := range w.reg {
					ks = append(ks, h+"="+c)
				}
				for c := range w.closed {
					ks = append(ks, "x"+c)
				}
				for c, l := range w.onConn {
					ks = append(ks, c+":"+strings.Join(l, ">"))
				}
				// (keep-alives: not in the model state - they must not matter - but whatever they do to
				// the pool's own registries is part of the key)
				ks = append(ks, w.pw.RegistryKey())
				sort.Strings(ks)
				return strings.Join(ks, ",") + fmt.Sprintf("|%d", w.pw.Pool.NumRemotes())
			},
		})
	}}
}

// races: closes concurrent with an in-flight peer request and with a re-connect
func c09Race(scen string, bound int) vh.Unit {
	name := "registry-race/" + scen
	var w *c09World
	threads := map[string][]string{
		"close-old-vs-reconnect":   {"close c1", "connect A c2"},
		"close-vs-peer":            {"close c1", "probe"},
		"close-vs-peer-vs-connect": {"close c1", "probe", "connect A c2"},
		"two-closes-one-reconnect": {"close c1", "close c2", "connect B c3"},
	}[scen]
	body := func() {
		w = c09New()
		w.apply("connect A c1")
		w.apply("connect B c2")
		var fns []func()
		for _, t := range threads {
			t := t
			fns = append(fns, func() {
				if t == "probe" {
					w.pw.Peer(context.Background(), vh.Identities()[0], 5, "")
				} else {
					w.apply(t)
				}
			})
		}
		vh.Par(threads, fns...)
	}
	return vh.Unit{Name: name, Run: func(u *vh.U) {
		var sub *vh.U
		vh.RunDFS(u, vh.DFSSpec{
			Name: name, Bound: bound,
			// three threads: delay-bounded (the free switches of preemption bounding explode)
			Run:  vsched.Options{YieldFiles: []string{"service.go"}, Drain: true, Delay: len(threads) > 2},
			Body: body,
			Obs: func(s *vsched.Sched) string {
				return fmt.Sprint(w.pw.Pool.NumRemotes(), w.pw.CallLog())
			},
			Check: func(s *vsched.Sched) (string, string) {
				// requests that start after everything finished are fully constrained
				sub = vh.NewU(u.Tier, u.Seed, u.Deadline, name)
				w.judge(sub, fmt.Sprintf("after concurrent %v", threads), nil)
				if len(sub.R.Violations) > 0 {
					v := sub.R.Violations[0]
					return v.Signature, v.Detail
				}
				return "", ""
			},
		})
	}}
}

func init() {
	vh.Register(&vh.Check{
		ID: "C09", Level: "model_checking",
		Technique: "explicit-state BFS over connect / reconnect / close histories on the real pool registry (real signed vipnode_connect carrying the connection in its context, CloseRemote, NumRemotes) against a registry model, observed through a real peer request + schedule DFS of closes racing peer requests and reconnects",
		Rule:      "all sequences over {connect(h,c), close(c)} for hosts {A,B} x connections {c1,c2,c3} (a closed connection carries no further requests) up to the depth bound; after every event a peer request started afterwards must call exactly the live most-recent connection of every host, and NumRemotes must equal the number of such hosts; states de-duplicated on (registrations, closed set, NumRemotes); races judged by a probe started after all threads finished; peer requests abandoned by the requester; hosts announcing themselves to the real binary in a one-shot HTTP POST",
		Assumptions: []string{
			"the link 'serve loop of a connection ends => CloseRemote is called with that connection' lives in package main (server.go) and is exercised by the wire-level checks, not here",
			"in-flight requests racing a close are unconstrained, as the property says; only requests started later are judged",
		},
		Units: func(tier string) []vh.Unit {
			var us []vh.Unit
			depth, n := 7, 9
			bound := 1
			if tier == "thorough" {
				depth, n, bound = 9, 9, 2
			}
			for s := 0; s < n; s++ {
				us = append(us, c09BFS(depth, s, n))
				if s == 0 {
					us = append(us, c09LateReplies(), c09OwnRequestInFlight())
				}
			}
			us = append(us, c09Race("close-old-vs-reconnect", bound+1), c09Race("two-closes-one-reconnect", bound+1))
			us = append(us, c09Race("close-vs-peer", bound), c09Race("close-vs-peer-vs-connect", bound+1))
			// the other instruction, vipnode_disconnect: every host of a cut-off client gets exactly one,
			// on the connection it is registered on now (two hosts, one of them having moved)
			us = append(us, c03FanoutAfterReconnect(vh.Memory))
			us = append(us, c09Wire())
			return us
		},
	})
}

// C09SlowAgent answers vipnode_whitelist after a (virtual) delay, or never.
type C09SlowAgent struct {
	Delay time.Duration // < 0: never
	Calls int
}

func (a *C09SlowAgent) Whitelist(ctx context.Context, nodeID string) error {
	a.Calls++
	if a.Delay < 0 {
		vsched.Recv(make(chan struct{}))
	}
	vsched.Sleep(a.Delay)
	return nil
}

// a host behind a real connection (two Remotes over an in-memory wire, served the way server.go
// serves a websocket: Serve, then CloseRemote) answers the whitelist request promptly, slowly,
// after the pool has stopped waiting, or never - and then hangs up. Whatever it did before, the
// hang-up must be noticed and the registration must go.
func c09LateReplies() vh.Unit {
	name := "rpc-host-hangs-up"
	ids := vh.Identities()
	host, client := ids[1], ids[0]
	return vh.Unit{Name: name, Run: func(u *vh.U) {
		for _, delay := range []time.Duration{0, 4 * time.Second, 6 * time.Second, 20 * time.Second, -1} {
			for _, requests := range []int{1, 2} {
				served, remotes, offered := false, -1, 0
				var agentCalls int
				s := vsched.Run(vsched.Options{Drain: true, MaxTime: time.Hour}, func() {
					pw := vh.NewPoolWorld(vh.PoolConfig{Driver: vh.Memory, NoManager: true})
					ca, cb := vh.NewMemPipe(8)
					poolSide := &jsonrpc2.Remote{Codec: ca, Client: &jsonrpc2.Client{}, Server: &jsonrpc2.Server{}}
					hostSide := &jsonrpc2.Remote{Codec: cb, Client: &jsonrpc2.Client{}, Server: &jsonrpc2.Server{}}
					ag := &C09SlowAgent{Delay: delay}
					if err := hostSide.Server.RegisterMethod("vipnode_whitelist", ag, "Whitelist"); err != nil {
						panic(err)
					}
					vsched.GoNamed("pool-serve", func() {
						poolSide.Serve()
						served = true
						pw.Pool.CloseRemote(poolSide)
					})
					vsched.GoNamed("host-serve", func() { hostSide.Serve() })
					if _, err := pw.Connect(host, vh.ConnectOpts{Host: true, Kind: "geth", Service: poolSide}); err != nil {
						panic(err)
					}
					pw.Raw.SetNode(store.Node{ID: store.NodeID(client.NodeID), Kind: "geth", LastSeen: vsched.Now()})
					for i := 0; i < requests; i++ {
						if resp, _ := pw.Peer(context.Background(), client, 1, ""); resp != nil {
							offered += len(resp.Peers)
						}
					}
					vsched.Sleep(30 * time.Second) // every late answer has arrived by now
					cb.Close()                     // the host hangs up
					vsched.Sleep(time.Second)
					remotes = pw.Pool.NumRemotes()
					agentCalls = ag.Calls
				})
				u.R.Evaluations++
				u.R.States++
				u.R.Transitions += int64(len(s.Trace))
				u.R.Traces++
				u.Observe(fmt.Sprintf("delay=%s requests=%d offered=%d served=%v remotes=%d", delay, requests, offered, served, remotes))
				desc := fmt.Sprintf("host answers vipnode_whitelist after %s (negative: never), %d peer requests (asked %d times, offered %d times), then hangs up", delay, requests, agentCalls, offered)
				switch {
				case s.Panic != nil:
					u.Violate("registry/panic", fmt.Sprintf("%s: %v", desc, s.Panic), nil)
				case !served || remotes != 0:
					u.Violate("registry/hang-up-not-noticed", fmt.Sprintf("%s: the pool's serve loop for the connection ended=%v, hosts still registered=%d; threads left: %v", desc, served, remotes, s.Blocked), nil)
				case delay >= 0 && delay < 5*time.Second && offered != requests:
					u.Violate("registry/live-host-not-called", fmt.Sprintf("%s: a host answering within the pool's time-out was offered %d times", desc, offered), nil)
				}
			}
		}
		u.Sample("host over a real Remote pair answering the whitelist after 0s/4s/6s/20s/never, then closing the connection")
	}}
}

// a host's connection ends while a request of that same host is still being served (its peer
// request waits for another host's slow whitelist answer): the registration goes when the
// connection goes - it does not wait for the request
func c09OwnRequestInFlight() vh.Unit {
	name := "rpc-host-hangs-up-with-own-request-in-flight"
	ids := vh.Identities()
	hostA, hostB := ids[1], ids[2]
	return vh.Unit{Name: name, Run: func(u *vh.U) {
		for _, delay := range []time.Duration{4 * time.Second, 20 * time.Second, -1} {
			remotesSoonAfter, remotesLater, served := -1, -1, false
			s := vsched.Run(vsched.Options{Drain: true, MaxTime: time.Hour}, func() {
				pw := vh.NewPoolWorld(vh.PoolConfig{Driver: vh.Memory, NoManager: true})
				mk := func(agent interface{}) (poolSide, hostSide *jsonrpc2.Remote, hostCodec *vh.MemCodec) {
					ca, cb := vh.NewMemPipe(8)
					poolSide = &jsonrpc2.Remote{Codec: ca, Client: &jsonrpc2.Client{}, Server: &jsonrpc2.Server{}}
					hostSide = &jsonrpc2.Remote{Codec: cb, Client: &jsonrpc2.Client{}, Server: &jsonrpc2.Server{}}
					if err := poolSide.Server.Register("vipnode_", pw.Pool, "connect", "disconnect", "ping", "update", "peer", "client", "host"); err != nil {
						panic(err)
					}
					if err := hostSide.Server.RegisterMethod("vipnode_whitelist", agent, "Whitelist"); err != nil {
						panic(err)
					}
					return poolSide, hostSide, cb
				}
				poolA, sideA, codecA := mk(&C09SlowAgent{})
				poolB, sideB, _ := mk(&C09SlowAgent{Delay: delay})
				vsched.GoNamed("pool-serve-A", func() {
					poolA.Serve()
					served = true
					pw.Pool.CloseRemote(poolA)
				})
				vsched.GoNamed("pool-serve-B", func() { poolB.Serve(); pw.Pool.CloseRemote(poolB) })
				vsched.GoNamed("host-serve-A", func() { sideA.Serve() })
				vsched.GoNamed("host-serve-B", func() { sideB.Serve() })
				send := func(side *jsonrpc2.Remote, c vh.Call) error {
					var raw json.RawMessage
					return side.Call(context.Background(), &raw, c.Endpoint, c.Sig, c.ID, c.Nonce, c.Param)
				}
				now := vsched.Now().UnixNano()
				if err := send(sideA, vh.NewCall("vipnode_connect", hostA, now+1, pool2ConnectHost())); err != nil {
					panic(err)
				}
				if err := send(sideB, vh.NewCall("vipnode_connect", hostB, now+2, pool2ConnectHost())); err != nil {
					panic(err)
				}
				// host A asks for a peer: the pool asks host B, who takes its time
				vsched.GoNamed("a-peer-request", func() {
					send(sideA, vh.NewCall("vipnode_peer", hostA, now+3, vh.DefaultParam("vipnode_peer", "")))
				})
				vsched.Sleep(time.Second)
				codecA.Close() // host A hangs up, its request still in flight
				vsched.Sleep(time.Second)
				remotesSoonAfter = pw.Pool.NumRemotes()
				vsched.Sleep(30 * time.Second)
				remotesLater = pw.Pool.NumRemotes()
			})
			u.R.Evaluations++
			u.R.States++
			u.R.Transitions += int64(len(s.Trace))
			u.R.Traces++
			u.Observe(fmt.Sprintf("delay=%s soon=%d later=%d", delay, remotesSoonAfter, remotesLater))
			desc := fmt.Sprintf("hosts A and B registered over real connections; A sends a peer request, B answers the pool's whitelist request after %s (negative: never); A's connection closes one second into that", delay)
			switch {
			case s.Panic != nil:
				u.Violate("registry/panic", fmt.Sprintf("%s: %v", desc, s.Panic), nil)
			case remotesSoonAfter != 1:
				u.Violate("registry/closed-host-still-registered", fmt.Sprintf("%s: one second after the close %d hosts are registered (A must be gone, B must stay)", desc, remotesSoonAfter), nil)
			case remotesLater != 1 || !served:
				u.Violate("registry/hang-up-not-noticed", fmt.Sprintf("%s: 30 s later %d hosts are registered, serve loop of A's connection ended=%v", desc, remotesLater, served), nil)
			}
		}
		u.Sample("host A's connection closing while A's own peer request waits for host B's slow whitelist answer")
	}}
}

// wire level: the real binary. A host's registration lives exactly as long as its WebSocket:
// server.go must hand the connection that ended to CloseRemote.
func c09Wire() vh.Unit {
	return vh.Unit{Name: "wire/connection-lifecycle", Run: func(u *vh.U) {
		p, err := vh.StartPool()
		if err != nil {
			u.R.Infra = err.Error()
			return
		}
		defer p.Stop()
		ids := vh.Identities()
		host, client := ids[1], ids[0]
		dialHost := func() *vh.HostConn {
			ws, err := p.DialWS()
			if err != nil {
				return nil
			}
			return vh.NewHostConn(ws)
		}
		connectHost := func(h *vh.HostConn) string {
			c := vh.NewCall("vipnode_connect", host, vh.WireNonce(), pool2ConnectHost())
			r, err := h.Call(vh.RequestText(c, 1), 2*time.Minute)
			if err != nil {
				return "error: " + err.Error()
			}
			return r
		}
		cws, err := p.DialWS()
		if err != nil {
			u.Violate("wire/websocket-dial-failed", err.Error(), nil)
			return
		}
		defer cws.Close()
		cc := vh.NewCall("vipnode_connect", client, vh.WireNonce(), vh.DefaultParam("vipnode_connect", ""))
		if r, err := cws.Call(vh.RequestText(cc, 1), 2*time.Minute); err != nil || strings.Contains(r, `"error"`) {
			u.Violate("wire/client-connect-failed", fmt.Sprintf("%s %v", r, err), nil)
			return
		}
		askPeers := func() string {
			c := vh.NewCall("vipnode_peer", client, vh.WireNonce(), vh.DefaultParam("vipnode_peer", ""))
			r, err := cws.Call(vh.RequestText(c, 2), 2*time.Minute)
			if err != nil {
				return "error: " + err.Error()
			}
			return r
		}
		step := func(what string) {
			u.R.Evaluations++
			u.R.States++
			u.R.Transitions++
			u.R.Traces++
			u.Observe(what)
		}
		// 1. host registers on connection 1: a peer request reaches it
		h1 := dialHost()
		if r := connectHost(h1); strings.Contains(r, "error") {
			u.Violate("wire/host-connect-failed", r, nil)
			return
		}
		r := askPeers()
		step("peer-after-connect")
		if !strings.Contains(r, host.NodeID) || len(h1.ReverseCalls()) != 1 {
			u.Violate("wire/live-host-not-called", fmt.Sprintf("peer reply %s; reverse calls on the host connection: %v", r, h1.ReverseCalls()), nil)
			return
		}
		// 2. host reconnects on connection 2, then connection 1 closes: connection 2 must stay registered
		h2 := dialHost()
		if r := connectHost(h2); strings.Contains(r, "error") {
			u.Violate("wire/host-reconnect-failed", r, nil)
			return
		}
		h1.WS.Close()
		time.Sleep(300 * time.Millisecond)
		r = askPeers()
		step("peer-after-old-connection-closed")
		if !strings.Contains(r, host.NodeID) || len(h2.ReverseCalls()) != 1 {
			u.Violate("wire/closing-old-connection-unregistered-new-one", fmt.Sprintf("peer reply %s; reverse calls on the new connection: %v", r, h2.ReverseCalls()), nil)
			return
		}
		// 3. the host's last connection ends - abruptly, or with a close frame of any status: later
		// requests must find no connected host (eventually: the serve loop notices asynchronously)
		cur := h2
		for vi, variant := range []string{"abrupt", "close-1000", "close-1001", "close-1011", "close-4000"} {
			if vi > 0 {
				cur = dialHost()
				if r := connectHost(cur); strings.Contains(r, "error") {
					u.Violate("wire/host-reconnect-failed", r, nil)
					return
				}
				if r := askPeers(); !strings.Contains(r, host.NodeID) {
					u.Violate("wire/live-host-not-called", fmt.Sprintf("after reconnecting (%s): peer reply %s", variant, r), nil)
					return
				}
			}
			if strings.HasPrefix(variant, "close-") {
				var code int
				fmt.Sscanf(variant, "close-%d", &code)
				cur.WS.C.WriteControl(websocket.CloseMessage, websocket.FormatCloseMessage(code, "bye"), time.Now().Add(time.Second))
				time.Sleep(50 * time.Millisecond)
			}
			cur.WS.Close()
			ok := false
			var last string
			for i := 0; i < 300 && !ok; i++ { // "eventually": up to a minute, normally the first round
				time.Sleep(200 * time.Millisecond)
				last = askPeers()
				// the pool's own "no hosts" answer (its text taken from the code under test, so a
				// rewording follows automatically) - not merely "the dead connection failed to answer"
				ok = false
				for n := 0; n <= 3 && !ok; n++ {
					ok = strings.Contains(last, jsonEscaped(pool.NoHostNodesError{NumTried: n}.Error()))
				}
			}
			step("peer-after-last-connection-closed-" + variant)
			if !ok {
				u.Violate("wire/closed-host-still-registered", fmt.Sprintf("a minute after the host's last connection ended (%s) a peer request still answers: %s", variant, last), nil)
				return
			}
		}
		// 4. a host that announces itself in a one-shot HTTP exchange has no connection once the
		// exchange is over: whatever the pool answered, later peer requests find no connected host
		for _, endpoint := range []string{"vipnode_connect", "vipnode_host"} {
			var param interface{} = pool2ConnectHost()
			if endpoint == "vipnode_host" {
				param = vh.DefaultParam("vipnode_host", ids[2].NodeID)
			}
			c := vh.NewCall(endpoint, ids[2], vh.WireNonce(), param)
			code, body, err := p.Post(vh.RequestText(c, 7))
			u.Observe(fmt.Sprintf("http %s -> %d error=%v", endpoint, code, strings.Contains(body, `"error"`)))
			if err != nil {
				u.Violate("wire/http-post-failed", err.Error(), nil)
				return
			}
			ok := false
			var last string
			for i := 0; i < 300 && !ok; i++ {
				last = askPeers()
				for n := 0; n <= 3 && !ok; n++ {
					ok = strings.Contains(last, jsonEscaped(pool.NoHostNodesError{NumTried: n}.Error()))
				}
				if !ok {
					time.Sleep(200 * time.Millisecond)
				}
			}
			step("peer-after-http-" + endpoint)
			if !ok {
				u.Violate("wire/host-without-connection-registered", fmt.Sprintf("a host announced itself with %s in a one-shot HTTP POST (reply %d %s); with no connection left, a peer request still answers: %s", endpoint, code, abbreviate(body), last), nil)
				return
			}
		}
		u.Sample("real binary: host on ws1 -> peer request -> host reconnects on ws2 -> ws1 closes -> peer request -> ws2 closes -> peer request")
	}}
}

func pool2ConnectHost() interface{} {
	c := vh.DefaultParam("vipnode_connect", "").(pool.ConnectRequest)
	c.NodeInfo.IsFullNode = true
	return c
}

// jsonEscaped returns s as it appears inside a JSON string.
func jsonEscaped(s string) string {
	b, _ := json.Marshal(s)
	return string(b[1 : len(b)-1])
}
