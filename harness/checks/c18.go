//go:build go1.21

package checks

import (
	"context"
	"errors"
	"fmt"
	"net"
	"sort"
	"strings"
	"sync"
	"time"

	"github.com/ethereum/go-ethereum/accounts/abi/bind"
	"github.com/ethereum/go-ethereum/rpc"
	"github.com/vipnode/vipnode/v2/agent"
	"github.com/vipnode/vipnode/v2/ethnode"
	"github.com/vipnode/vipnode/v2/internal/verif/vh"
	"github.com/vipnode/vipnode/v2/internal/verif/vsched"
	"github.com/vipnode/vipnode/v2/jsonrpc2"
	"github.com/vipnode/vipnode/v2/pool"
	"github.com/vipnode/vipnode/v2/pool/store"
)

// C18 — the agent makes its node's peers match what the pool says.

// recNode is a recording ethnode.EthNode.
type recNode struct {
	kind    ethnode.NodeKind
	full    bool
	id      string
	peers   []ethnode.PeerInfo
	calls   []string // mutating calls in order: "untrust:<id>", "disconnect:<id>", "connect:<uri>", "trust:<id>"
	fail    string   // "untrust" / "disconnect": calls of that kind are attempted (recorded) and fail
	enodeOK bool
	// slow: every call to the node takes this long (virtual time, controlled executions only) and,
	// like a real RPC client, fails once its context has ended
	slow time.Duration
	mu   sync.Mutex // (the node may be served over RPC to a real agent process)
}

func (n *recNode) rpcDelay(ctx context.Context) error {
	if n.slow > 0 && vsched.Active() {
		vsched.Sleep(n.slow)
		if err := ctx.Err(); err != nil {
			return err
		}
	}
	return nil
}

func (n *recNode) NodeRPC() *rpc.Client                  { return nil }
func (n *recNode) ContractBackend() bind.ContractBackend { return nil }
func (n *recNode) Kind() ethnode.NodeKind                { return n.kind }
func (n *recNode) UserAgent() ethnode.UserAgent {
	return ethnode.UserAgent{Version: "verif", Kind: n.kind, IsFullNode: n.full, Network: 1}
}
func (n *recNode) Enode(ctx context.Context) (string, error) { return "enode://" + n.id + "@", nil }
func (n *recNode) AddTrustedPeer(ctx context.Context, id string) error {
	if err := n.rpcDelay(ctx); err != nil {
		return err
	}
	n.mu.Lock()
	n.calls = append(n.calls, "trust:"+id)
	n.mu.Unlock()
	return nil
}
func (n *recNode) RemoveTrustedPeer(ctx context.Context, id string) error {
	if err := n.rpcDelay(ctx); err != nil {
		return err
	}
	n.mu.Lock()
	n.calls = append(n.calls, "untrust:"+id)
	n.mu.Unlock()
	if n.fail == "untrust" {
		return errors.New("the node refuses to un-trust this peer (injected)")
	}
	return nil
}
func (n *recNode) ConnectPeer(ctx context.Context, uri string) error {
	if err := n.rpcDelay(ctx); err != nil {
		return err
	}
	n.mu.Lock()
	defer n.mu.Unlock()
	n.calls = append(n.calls, "connect:"+uri)
	if id, host, ok := c18Parse(uri); ok {
		p := ethnode.PeerInfo{ID: id}
		p.Network.RemoteAddress = host
		n.peers = append(n.peers, p)
	}
	return nil
}
func (n *recNode) DisconnectPeer(ctx context.Context, id string) error {
	if err := n.rpcDelay(ctx); err != nil {
		return err
	}
	n.mu.Lock()
	defer n.mu.Unlock()
	n.calls = append(n.calls, "disconnect:"+id)
	if n.fail == "disconnect" {
		return errors.New("the node refuses to disconnect this peer (injected)")
	}
	var keep []ethnode.PeerInfo
	for _, p := range n.peers {
		if p.EnodeID() != id {
			keep = append(keep, p)
		}
	}
	n.peers = keep
	return nil
}
func (n *recNode) Peers(ctx context.Context) ([]ethnode.PeerInfo, error) {
	if err := n.rpcDelay(ctx); err != nil {
		return nil, err
	}
	n.mu.Lock()
	defer n.mu.Unlock()
	return append([]ethnode.PeerInfo{}, n.peers...), nil
}
func (n *recNode) BlockNumber(ctx context.Context) (uint64, error) { return 42, nil }

// scriptPool is a scripted pool.Pool.
type scriptPool struct {
	update    *pool.UpdateResponse
	updateErr error
	peerHosts []store.Node
	peerErr   error
	updates   []pool.UpdateRequest
	peerReqs  []pool.PeerRequest
	connects  int
	connErr   error
	// latency: how long (virtual time, controlled executions only) the pool takes to answer a
	// keep-alive
	latency time.Duration
}

func (p *scriptPool) Host(ctx context.Context, r pool.HostRequest) (*pool.HostResponse, error) {
	return &pool.HostResponse{}, nil
}
func (p *scriptPool) Client(ctx context.Context, r pool.ClientRequest) (*pool.ClientResponse, error) {
	return &pool.ClientResponse{}, nil
}
func (p *scriptPool) Connect(ctx context.Context, r pool.ConnectRequest) (*pool.ConnectResponse, error) {
	p.connects++
	if p.connErr != nil {
		return nil, p.connErr
	}
	return &pool.ConnectResponse{PoolVersion: "verif"}, nil
}
func (p *scriptPool) Update(ctx context.Context, r pool.UpdateRequest) (*pool.UpdateResponse, error) {
	p.updates = append(p.updates, r)
	if p.updateErr != nil {
		return nil, p.updateErr
	}
	if p.latency > 0 && vsched.Active() {
		vsched.Sleep(p.latency)
	}
	cp := *p.update
	cp.InvalidPeers = append([]string{}, p.update.InvalidPeers...)
	cp.ActivePeers = append([]string{}, p.update.ActivePeers...)
	return &cp, nil
}
func (p *scriptPool) Peer(ctx context.Context, r pool.PeerRequest) (*pool.PeerResponse, error) {
	p.peerReqs = append(p.peerReqs, r)
	if p.peerErr != nil {
		return nil, p.peerErr
	}
	return &pool.PeerResponse{Peers: p.peerHosts}, nil
}
func (p *scriptPool) Withdraw(ctx context.Context) error { return nil }

// c18Parse is the harness' own parser for the restricted URI grammar:
// "<id>" | "enode://<id>" | "enode://<id>@" | "enode://<id>@<host>[:<port>]"; returns id and the
// host the agent compares (empty for no address, loopback, unspecified, localhost).
func c18Parse(s string) (id, hostport string, ok bool) {
	s = strings.TrimPrefix(s, "enode://")
	at := strings.Index(s, "@")
	if at < 0 {
		return s, "", s != ""
	}
	return s[:at], s[at+1:], s[:at] != ""
}

func c18Host(hostport string) string {
	if hostport == "" {
		return ""
	}
	h := hostport
	if hh, _, err := net.SplitHostPort(hostport); err == nil {
		h = hh
	}
	h = strings.Trim(h, "[]")
	if h == "localhost" {
		return ""
	}
	if ip := net.ParseIP(h); ip != nil && (ip.IsLoopback() || ip.IsUnspecified()) {
		return ""
	}
	return h
}

type c18Peer struct {
	id   string
	addr string // local remote address ("" = none)
}

var c18Ids = func() []string {
	var r []string
	for i := 1; i <= 6; i++ {
		r = append(r, fmt.Sprintf("%0128x", 0xa0+i))
	}
	return r
}()

// per-peer situation: is it a local peer, and how does the pool list it as active
var c18States = map[int][]string{
	0: {"absent", "local", "local+same", "local+otherhost", "local+otherport", "local+noport", "local+noaddr", "local+bare", "listed-only"},
	1: {"absent", "local", "local+same", "local+otherhost", "local+otherport", "local+noport", "local+bare", "listed-only"},
	2: {"absent", "local", "local+same", "local+noaddr"},
	3: {"absent", "local", "local+bare", "local+otherhost"},
}

var c18Addrs = []string{"1.2.3.4:30303", "[2001:db8::1]:30303", "127.0.0.1:30303", ""}

func c18ActiveEntry(i int, state string) string {
	id := c18Ids[i]
	switch {
	case strings.HasSuffix(state, "+same") || state == "listed-only":
		return "enode://" + id + "@" + c18Addrs[i]
	case strings.HasSuffix(state, "+otherhost"):
		return "enode://" + id + "@9.9.9.9:30303"
	case strings.HasSuffix(state, "+otherport"):
		hp := strings.Replace(c18Addrs[i], ":30303", ":1234", 1)
		return "enode://" + id + "@" + hp
	case strings.HasSuffix(state, "+noport"):
		hp := strings.Replace(c18Addrs[i], ":30303", "", 1)
		return "enode://" + id + "@" + hp
	case strings.HasSuffix(state, "+noaddr"):
		return "enode://" + id + "@"
	case strings.HasSuffix(state, "+bare"):
		return id
	}
	return ""
}

type c18Round struct {
	states  [4]string
	invalid []string // entries as the pool sends them
	strict  bool
	target  int
	kind    ethnode.NodeKind
	full    bool
	nHosts  int // hosts the pool returns on a peer request
	peerErr string
	// what the node reports in the peers' own "enode" field (geth >= 1.9 does): 0 nothing, 1 the
	// address they are connected through, 2 the unspecified address, 3 some other address. The
	// host a peer is connected through is network.remoteAddress, whatever it advertises.
	enodeForm int
	// peer 0 connected from / listed under explicit addresses instead of the table's (private
	// networks, other address families)
	localAddr0, activeEntry0 string
	nodeFail                 string // the node refuses every call of this kind ("untrust" / "disconnect")
	driver                   string // "": the agent talks to the recording node directly; "rpc": through ethnode.RemoteNode
}

func (r c18Round) String() string {
	s := fmt.Sprintf("peers=%v invalid=%v strict=%v target=%d node=%s/full=%v pool-returns=%d peer-error=%q advertised-enode-form=%d", r.states, shortIDs(r.invalid), r.strict, r.target, r.kind, r.full, r.nHosts, r.peerErr, r.enodeForm)
	if r.nodeFail != "" {
		s += " node-refuses=" + r.nodeFail
	}
	if r.localAddr0 != "" {
		s += fmt.Sprintf(" peer0-connected-from=%s listed-as=%s", r.localAddr0, strings.TrimPrefix(r.activeEntry0, "enode://"+c18Ids[0]))
	}
	if r.driver == "binary" {
		s += " (agent binary)"
	} else if r.driver != "" {
		s += " through-the-real-" + r.kind.String() + "-driver"
	}
	return s
}

func shortIDs(l []string) []string {
	var r []string
	for _, s := range l {
		id, hp, _ := c18Parse(s)
		if len(id) > 6 {
			id = "…" + id[len(id)-2:]
		}
		if strings.Contains(s, "@") {
			r = append(r, id+"@"+hp)
		} else {
			r = append(r, id)
		}
	}
	return r
}

// c18Run executes one round on the real agent and judges it.
func c18Run(u *vh.U, r c18Round, node *recNode, first bool, a *agent.Agent, sp *scriptPool) (ok bool) {
	return c18RunExec(u, r, node, sp, func() error { return a.UpdatePeers(context.Background(), sp) })
}

// c18RunExec: the round is carried out by exec (the in-process agent's UpdatePeers, or the agent
// binary started against a served node and pool) and judged on what node and pool recorded.
func c18RunExec(u *vh.U, r c18Round, node *recNode, sp *scriptPool, exec func() error) (ok bool) {
	// expected sets (model)
	local := map[string]string{} // id -> compared host
	for _, p := range node.peers {
		local[p.EnodeID()] = c18Host(p.Network.RemoteAddress)
	}
	active := map[string]string{}
	nActive := 0
	for _, e := range sp.update.ActivePeers {
		id, hp, ok := c18Parse(e)
		if ok {
			active[id] = c18Host(hp)
		}
		nActive++
	}
	expected := map[string]bool{}
	for _, e := range sp.update.InvalidPeers {
		id, _, _ := c18Parse(e)
		expected[id] = true
	}
	if r.strict {
		for id, h := range local {
			if ah, listed := active[id]; !listed || ah != h {
				expected[id] = true
			}
		}
	}
	node.calls = nil
	sp.peerReqs = nil
	var err error
	if p := vh.Recover(func() { err = exec() }); p != "" {
		u.Violate("agent/panic", fmt.Sprintf("%s: %s", r, p), nil)
		return false
	}
	untrusted, disconnected := map[string]int{}, map[string]int{}
	var connected []string
	for _, c := range node.calls {
		switch {
		case strings.HasPrefix(c, "untrust:"):
			untrusted[c[8:]]++
		case strings.HasPrefix(c, "disconnect:"):
			disconnected[c[11:]]++
		case strings.HasPrefix(c, "connect:"):
			connected = append(connected, c[8:])
		}
	}
	desc := r.String()
	for id := range expected {
		if untrusted[id] == 0 || disconnected[id] == 0 {
			cls := "declared-invalid-peer-kept"
			if _, isLocal := local[id]; isLocal && r.strict {
				if !contains(idsOfEntries(sp.update.InvalidPeers), id) {
					cls = "strict-mismatch-kept"
				}
			}
			u.Violate("agent/"+cls, fmt.Sprintf("%s: peer …%s should have been un-trusted and disconnected; node calls %v", desc, id[len(id)-2:], abbrevCalls(node.calls)), nil)
			return false
		}
	}
	for id := range untrusted {
		if !expected[id] {
			u.Violate("agent/valid-peer-dropped", fmt.Sprintf("%s: peer …%s was un-trusted although the pool did not declare it invalid; node calls %v", desc, id[len(id)-2:], abbrevCalls(node.calls)), nil)
			return false
		}
	}
	for id := range disconnected {
		if !expected[id] {
			u.Violate("agent/valid-peer-dropped", fmt.Sprintf("%s: peer …%s was disconnected although the pool did not declare it invalid; node calls %v", desc, id[len(id)-2:], abbrevCalls(node.calls)), nil)
			return false
		}
	}
	// peer request: exactly the shortfall, of the own kind iff light client
	short := r.target - nActive
	if short > 0 {
		if len(sp.peerReqs) != 1 {
			u.Violate("agent/shortfall-not-requested", fmt.Sprintf("%s: %d active peers, target %d, %d peer requests", desc, nActive, r.target, len(sp.peerReqs)), nil)
			return false
		}
		wantKind := ""
		if !r.full {
			wantKind = r.kind.String()
		}
		if sp.peerReqs[0].Num != short || sp.peerReqs[0].Kind != wantKind {
			u.Violate("agent/wrong-peer-request", fmt.Sprintf("%s: requested %+v, expected Num=%d Kind=%q", desc, sp.peerReqs[0], short, wantKind), nil)
			return false
		}
		if r.peerErr == "" {
			var want []string
			for _, h := range sp.peerHosts {
				want = append(want, h.URI)
			}
			if strings.Join(connected, ",") != strings.Join(want, ",") {
				u.Violate("agent/returned-host-not-connected", fmt.Sprintf("%s: pool returned %v, node was told to connect to %v", desc, shortIDs(want), shortIDs(connected)), nil)
				return false
			}
		}
	} else if len(sp.peerReqs) != 0 || len(connected) != 0 {
		u.Violate("agent/needless-peer-request", fmt.Sprintf("%s: %d active peers, target %d, yet %d peer requests / %d connects", desc, nActive, r.target, len(sp.peerReqs), len(connected)), nil)
		return false
	}
	if err != nil && r.peerErr != "transport" && r.nodeFail == "" {
		u.Violate("agent/round-failed", fmt.Sprintf("%s: UpdatePeers returned %v", desc, err), nil)
		return false
	}
	return true
}

func contains(l []string, s string) bool {
	for _, x := range l {
		if x == s {
			return true
		}
	}
	return false
}

func idsOfEntries(l []string) []string {
	var r []string
	for _, e := range l {
		id, _, _ := c18Parse(e)
		r = append(r, id)
	}
	return r
}

func abbrevCalls(calls []string) []string {
	var r []string
	for _, c := range calls {
		i := strings.Index(c, ":")
		arg := c[i+1:]
		if len(arg) > 8 && !strings.Contains(arg, "@") {
			arg = "…" + arg[len(arg)-2:]
		}
		r = append(r, c[:i+1]+arg)
	}
	return r
}

func c18Setup(r c18Round) (*recNode, *scriptPool, *agent.Agent) {
	node := &recNode{kind: r.kind, full: r.full, id: c18Ids[5]}
	sp := &scriptPool{update: &pool.UpdateResponse{}}
	for i := 0; i < 4; i++ {
		st := r.states[i]
		if strings.HasPrefix(st, "local") {
			p := ethnode.PeerInfo{ID: c18Ids[i]}
			p.Network.RemoteAddress = c18Addrs[i]
			if i == 0 && r.localAddr0 != "" {
				p.Network.RemoteAddress = r.localAddr0
			}
			switch r.enodeForm {
			case 1:
				p.Enode = "enode://" + c18Ids[i] + "@" + c18Addrs[i]
			case 2:
				p.Enode = "enode://" + c18Ids[i] + "@[::]:30303"
			case 3:
				p.Enode = "enode://" + c18Ids[i] + "@203.0.113.99:30303"
			}
			node.peers = append(node.peers, p)
		}
		if e := c18ActiveEntry(i, st); e != "" {
			if i == 0 && r.activeEntry0 != "" {
				e = r.activeEntry0
			}
			sp.update.ActivePeers = append(sp.update.ActivePeers, e)
		}
	}
	sp.update.InvalidPeers = append([]string{}, r.invalid...)
	for i := 0; i < r.nHosts; i++ {
		id := fmt.Sprintf("%0128x", 0xf0+i)
		sp.peerHosts = append(sp.peerHosts, store.Node{ID: store.NodeID(id), URI: "enode://" + id + "@8.8.8." + fmt.Sprint(i) + ":30303", IsHost: true})
	}
	switch r.peerErr {
	case "no-available":
		sp.peerErr = &jsonrpc2.ErrResponse{Code: jsonrpc2.ErrCodeInternal, Message: "no available host nodes found after trying 0 nodes"}
	case "internal":
		sp.peerErr = &jsonrpc2.ErrResponse{Code: jsonrpc2.ErrCodeInternal, Message: "something else"}
	case "transport":
		sp.peerErr = errors.New("connection reset")
	}
	a := &agent.Agent{EthNode: node, NumHosts: r.target, StrictPeers: r.strict, UpdateInterval: 24 * time.Hour}
	return node, sp, a
}

// c18Start: Start caches the node kind; it runs one round with an empty pool reply first.
func c18Start(a *agent.Agent, sp *scriptPool, r c18Round) error {
	saved, savedT := sp.update, a.NumHosts
	sp.update = &pool.UpdateResponse{}
	a.NumHosts = 0
	strict := a.StrictPeers
	a.StrictPeers = false
	err := a.Start(sp)
	sp.update, a.NumHosts, a.StrictPeers = saved, savedT, strict
	sp.updates, sp.peerReqs = nil, nil
	return err
}

func c18Single(shard, nshards int) vh.Unit {
	name := fmt.Sprintf("single-round/%d", shard)
	return vh.Unit{Name: name, Run: func(u *vh.U) {
		vsched.SetVirtualClock(false)
		invalids := [][]string{nil, {c18Ids[0]}, {"enode://" + c18Ids[0] + "@1.2.3.4:30303"}, {c18Ids[4]}, {c18Ids[1], "enode://" + c18Ids[4] + "@5.5.5.5:1"}}
		idx := 0
		for _, s0 := range c18States[0] {
			for _, s1 := range c18States[1] {
				for _, s2 := range c18States[2] {
					for _, s3 := range c18States[3] {
						for _, inv := range invalids {
							for _, strict := range []bool{false, true} {
								for _, target := range []int{0, 1, 3} {
									for ki, kf := range []struct {
										k ethnode.NodeKind
										f bool
									}{{ethnode.Geth, false}, {ethnode.Parity, false}, {ethnode.Geth, true}} {
										for nh := 0; nh <= 2; nh++ {
											idx++
											if idx%nshards != shard {
												continue
											}
											if !u.Thorough() && (ki+nh+target+len(inv))%3 != 0 {
												continue
											}
											if u.Expired() {
												return
											}
											efs := []int{(idx / nshards) % 4}
											if u.Thorough() {
												efs = []int{0, 1, 2, 3}
											}
											for _, ef := range efs {
												r := c18Round{states: [4]string{s0, s1, s2, s3}, invalid: inv, strict: strict, target: target, kind: kf.k, full: kf.f, nHosts: nh, enodeForm: ef}
												node, sp, a := c18Setup(r)
												if err := c18Start(a, sp, r); err != nil {
													u.Violate("agent/start-failed", err.Error(), nil)
													return
												}
												u.R.Evaluations++
												u.R.States++
												u.R.Transitions++
												u.R.Traces++
												okRound := c18Run(u, r, node, true, a, sp)
												a.Stop()
												u.Observe(fmt.Sprintf("%v %v %d %d %v", strict, len(inv), target, len(node.calls), okRound))
												if len(u.R.Samples) < 2 && strict && len(inv) > 0 {
													u.Sample(r.String())
												}
											}
										}
									}
								}
							}
						}
					}
				}
			}
		}
	}}
}

// a pool that answers slowly (but answers) and a node whose RPCs take time and honour their
// context: the round is still carried out completely - no deadline meant for one call may cut
// short the rest of the round
func c18SlowRound() vh.Unit {
	return vh.Unit{Name: "slow-pool-and-node", Run: func(u *vh.U) {
		for _, strict := range []bool{false, true} {
			for _, latency := range []time.Duration{0, 9 * time.Second, 40 * time.Second} {
				for _, nodeSlow := range []time.Duration{0, time.Second, 4 * time.Second} {
					r := c18Round{states: [4]string{"local+same", "local", "local", "absent"}, invalid: []string{c18Ids[1], c18Ids[2]}, strict: strict, target: 3, kind: ethnode.Geth, nHosts: 2}
					var ok bool
					s := vsched.Run(vsched.Options{Drain: false, MaxTime: 24 * time.Hour}, func() {
						node, sp, a := c18Setup(r)
						if err := c18Start(a, sp, r); err != nil {
							u.Violate("agent/start-failed", err.Error(), nil)
							return
						}
						sp.latency, node.slow = latency, nodeSlow
						ok = c18Run(u, r, node, true, a, sp)
						sp.latency, node.slow = 0, 0
						a.Stop()
					})
					u.R.Evaluations++
					u.R.States++
					u.R.Transitions += int64(len(s.Trace))
					u.R.Traces++
					u.Observe(fmt.Sprintf("slow strict=%v pool=%s node=%s ok=%v", strict, latency, nodeSlow, ok))
					if s.Panic != nil {
						u.Violate("agent/panic", fmt.Sprintf("pool answering in %s, node calls taking %s: %v", latency, nodeSlow, s.Panic), nil)
					}
					if s.Deadlock {
						u.Violate("agent/hang", fmt.Sprintf("pool answering in %s, node calls taking %s: round never finished; %v", latency, nodeSlow, s.Blocked), nil)
					}
				}
			}
		}
		u.Sample("keep-alive rounds against a pool that takes 0/9/40 s to answer and a node whose RPCs take 0/1/4 s and honour their context")
	}}
}

// pool errors at each step, and multi-round histories
func c18ErrorsAndHistories() vh.Unit {
	return vh.Unit{Name: "errors-and-histories", Run: func(u *vh.U) {
		vsched.SetVirtualClock(false)
		base := c18Round{states: [4]string{"local+same", "local", "absent", "absent"}, invalid: []string{c18Ids[1]}, target: 3, kind: ethnode.Geth, nHosts: 2}
		// a failed keep-alive changes nothing on the node
		for _, strict := range []bool{false, true} {
			r := base
			r.strict = strict
			node, sp, a := c18Setup(r)
			if err := c18Start(a, sp, r); err != nil {
				u.Violate("agent/start-failed", err.Error(), nil)
				return
			}
			sp.updateErr = errors.New("pool unreachable")
			node.calls = nil
			err := a.UpdatePeers(context.Background(), sp)
			a.Stop()
			u.R.Evaluations++
			u.R.States++
			u.R.Transitions++
			u.Observe(fmt.Sprint("failed-update ", strict, len(node.calls)))
			if err == nil || len(node.calls) != 0 || len(sp.peerReqs) != 0 {
				u.Violate("agent/failed-keepalive-touched-node", fmt.Sprintf("strict=%v: update failed, UpdatePeers returned %v, node calls %v, peer requests %d", strict, err, abbrevCalls(node.calls), len(sp.peerReqs)), nil)
			}
		}
		for _, pe := range []string{"no-available", "internal", "transport"} {
			r := base
			r.peerErr = pe
			node, sp, a := c18Setup(r)
			c18Start(a, sp, r)
			u.R.Evaluations++
			u.R.States++
			u.R.Transitions++
			c18Run(u, r, node, true, a, sp)
			a.Stop()
			u.Observe("peer-error " + pe)
		}
		// three-round histories: round i+1 starts from the node state round i produced
		templates := []func(node *recNode) (active, invalid []string){
			func(n *recNode) ([]string, []string) { return nil, nil },
			func(n *recNode) ([]string, []string) { // everything local is active under its own address
				var a []string
				for _, p := range n.peers {
					a = append(a, p.EnodeURI())
				}
				return a, nil
			},
			func(n *recNode) ([]string, []string) { // first local peer declared invalid, rest active
				var a, inv []string
				for i, p := range n.peers {
					if i == 0 {
						inv = append(inv, p.EnodeID())
					} else {
						a = append(a, p.EnodeURI())
					}
				}
				return a, inv
			},
			func(n *recNode) ([]string, []string) { // active under another host
				var a []string
				for _, p := range n.peers {
					a = append(a, "enode://"+p.EnodeID()+"@7.7.7.7:30303")
				}
				return a, []string{c18Ids[4]}
			},
		}
		for _, strict := range []bool{false, true} {
			for t0 := range templates {
				for t1 := range templates {
					for t2 := range templates {
						r := c18Round{states: [4]string{"local", "local", "absent", "local"}, strict: strict, target: 2, kind: ethnode.Parity, nHosts: 1}
						node, sp, a := c18Setup(r)
						c18Start(a, sp, r)
						for round, ti := range []int{t0, t1, t2} {
							act, inv := templates[ti](node)
							sp.update = &pool.UpdateResponse{ActivePeers: act, InvalidPeers: inv}
							// fresh host ids per round
							sp.peerHosts = nil
							id := fmt.Sprintf("%0128x", 0xe0+round*4+ti)
							sp.peerHosts = append(sp.peerHosts, store.Node{ID: store.NodeID(id), URI: "enode://" + id + "@6.6.6.6:30303"})
							rr := r
							rr.invalid = inv
							rr.states = [4]string{fmt.Sprint("round", round, "/template", ti), "", "", ""}
							u.R.Evaluations++
							u.R.States++
							u.R.Transitions++
							u.R.Traces++
							if !c18Run(u, rr, node, false, a, sp) {
								a.Stop()
								return
							}
							u.Observe(fmt.Sprint(strict, round, ti, len(node.peers)))
						}
						a.Stop()
					}
				}
			}
		}
		// the same host comes and goes: in every round the pool offers it, declares it invalid (by id
		// or by URI), or says nothing about it - all 4-round histories. What an earlier round did with
		// the host (dialled it, dropped it) must not change what this round has to do.
		hostX := fmt.Sprintf("%0128x", 0xd1)
		uriX := "enode://" + hostX + "@6.6.6.6:30303"
		actions := []string{"offer", "invalid-id", "invalid-uri", "quiet"}
		for _, strict := range []bool{false, true} {
			for h := 0; h < 256; h++ {
				r := c18Round{states: [4]string{"local", "absent", "absent", "absent"}, strict: strict, target: 2, kind: ethnode.Geth, nHosts: 0}
				node, sp, a := c18Setup(r)
				c18Start(a, sp, r)
				var hist []string
				for round, x := 0, h; round < 4; round, x = round+1, x/4 {
					act := actions[x%4]
					hist = append(hist, act)
					var active, inv []string
					for _, p := range node.peers {
						if p.EnodeID() == hostX && act != "offer" && act != "quiet" {
							continue
						}
						active = append(active, p.EnodeURI())
					}
					sp.peerHosts = nil
					switch act {
					case "offer":
						sp.peerHosts = []store.Node{{ID: store.NodeID(hostX), URI: uriX, IsHost: true}}
					case "invalid-id":
						inv = []string{hostX}
					case "invalid-uri":
						inv = []string{uriX}
					}
					sp.update = &pool.UpdateResponse{ActivePeers: active, InvalidPeers: inv}
					rr := r
					rr.invalid = inv
					rr.states = [4]string{fmt.Sprintf("same-host history %v", hist), "", "", ""}
					u.R.Evaluations++
					u.R.States++
					u.R.Transitions++
					u.R.Traces++
					if !c18Run(u, rr, node, false, a, sp) {
						a.Stop()
						return
					}
				}
				u.Observe(fmt.Sprint("same-host ", strict, len(node.peers)))
				a.Stop()
			}
		}
		u.Sample("3-round histories over 4 pool-reply templates x strict on/off; pool errors at Update and Peer; 4-round histories of one host being offered / declared invalid / left alone")
	}}
}

func init() {
	vh.Register(&vh.Check{
		ID: "C18", Level: "model_checking",
		Technique:   "bounded-exhaustive enumeration of keep-alive rounds (per-peer situation x pool invalid list x strict x target x node kind x hosts returned) and of 3-round histories on the real Agent.UpdatePeers / AddPeers with a recording EthNode and a scripted pool, against an agent model with its own URI parser",
		Rule:        "4 peers (IPv4, IPv6, loopback, no address) each in every situation {absent, local only, local and listed as active under the same host / another host / another port / no address / bare id, listed only} x 5 invalid lists (bare id, enode URI, id not connected locally) x strict x target ∈ {0,1,3} x {geth-light, parity-light, geth-full} x 0-2 returned hosts; after each round: set un-trusted == set disconnected == model set; peer request iff shortfall with Num = shortfall and Kind = own kind iff light; every returned host connected; failed update => no node call; 128 three-round histories; ~1700 rounds through the real ethnode.RemoteNode geth / parity drivers over an in-process RPC server; nodes refusing every un-trust or every disconnect call",
		Assumptions: []string{"node-side failures (ConnectPeer / DisconnectPeer errors) are outside the property"},
		Units: func(tier string) []vh.Unit {
			var us []vh.Unit
			n := 8
			for s := 0; s < n; s++ {
				us = append(us, c18Single(s, n))
			}
			us = append(us, c18ErrorsAndHistories(), c18SlowRound(), c18NodeFaults(), c18AddressFamilies(), c18FailedPeriodicKeepAlive(), c18AgentBinary())
			for s := 0; s < 4; s++ {
				us = append(us, c18Drivers(s, 4))
			}
			return us
		},
	})
}

var _ = sort.Strings
