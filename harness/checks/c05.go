//go:build go1.21

package checks

import (
	"context"
	"fmt"
	"math/big"
	"os"
	"sort"
	"strings"
	"time"

	"github.com/vipnode/vipnode/v2/internal/verif/vh"
	"github.com/vipnode/vipnode/v2/internal/verif/vsched"
	"github.com/vipnode/vipnode/v2/pool"
	"github.com/vipnode/vipnode/v2/pool/store"
)

// C05 — a signed request is honoured at most once; nonces only move forward.

const nonceWindow = 15 * time.Minute

// nonce kinds: values relative to the virtual clock at the moment of submission, or absolute.
var c05Kinds = []string{"n", "n+1", "n-1", "n.5", "stale", "fresh", "far"}

func c05Nonce(kind string) int64 {
	now := vsched.Now().UnixNano()
	n0 := vsched.Base().UnixNano() + int64(time.Second) // absolute anchor, fresh at t=0
	switch kind {
	case "n":
		return n0
	case "n+1":
		return n0 + 1
	case "n-1":
		return n0 - 1
	case "n.5": // not on a whole second (the persistent driver's records expire on whole seconds)
		return n0 + int64(500*time.Millisecond)
	case "stale": // just outside the window
		return now - int64(nonceWindow) - 1
	case "fresh": // just inside the window
		return now - int64(nonceWindow) + 1
	case "far":
		return now + int64(time.Hour)
	}
	panic("kind " + kind)
}

type nonceModel struct{ hwm map[string]int64 }

func (m *nonceModel) accept(id string, nonce int64) bool {
	now := vsched.Now().UnixNano()
	if nonce <= now-int64(nonceWindow) {
		return false
	}
	if h, ok := m.hwm[id]; ok && nonce <= h {
		return false
	}
	m.hwm[id] = nonce
	return true
}

func (m *nonceModel) key() string {
	var ks []string
	for k, v := range m.hwm {
		ks = append(ks, fmt.Sprintf("%s=%d", k, v))
	}
	sort.Strings(ks)
	return strings.Join(ks, ",")
}

type c05World struct {
	st    store.Store
	model *nonceModel
}

func c05StoreBFS(driver string, ids []string, depth, shard, nshards int) vh.Unit {
	name := fmt.Sprintf("store-bfs/%s/d%d/%d", driver, depth, shard)
	return vh.Unit{Name: name, Run: func(u *vh.U) {
		vsched.SetVirtualClock(true)
		spec := vh.BFSSpec{
			Name:     name,
			MaxDepth: depth, Shard: shard, NShards: nshards,
			New: func() interface{} {
				vsched.ResetClock(0)
				return &c05World{st: vh.NewStore(driver), model: &nonceModel{hwm: map[string]int64{}}}
			},
			Events: func(w interface{}) []string {
				var evs []string
				for _, id := range ids {
					for _, k := range c05Kinds {
						evs = append(evs, "nonce "+id+" "+k)
					}
				}
				return append(evs, "tick 1s", "tick 15m", "tick 15m1.2s", "tick 16m")
			},
			Apply: func(wi interface{}, ev string, judge bool, hist []string) {
				w := wi.(*c05World)
				f := strings.Fields(ev)
				switch f[0] {
				case "tick":
					d, _ := time.ParseDuration(f[1])
					vsched.Advance(d)
				case "nonce":
					n := c05Nonce(f[2])
					want := w.model.accept(f[1], n)
					err := w.st.CheckAndSaveNonce(f[1], n)
					got := err == nil
					if judge {
						u.Observe(fmt.Sprintf("%s %v", f[2], got))
						if got != want {
							cls := "accepted-should-reject"
							if want {
								cls = "rejected-should-accept"
							}
							u.Violate("store-nonce/"+driver+"/"+cls,
								fmt.Sprintf("history %v: CheckAndSaveNonce(%s,%s) returned %v, reference model says accept=%v", hist, f[1], f[2], err, want),
								vh.BFSReplay(name, hist))
						}
					}
				}
			},
			Key: func(wi interface{}) string {
				w := wi.(*c05World)
				return fmt.Sprintf("%d|%s|%s", vsched.Elapsed(), w.model.key(), vh.StateKey(w.st))
			},
		}
		vh.RunBFS(u, spec)
	}}
}

// reopen: the persistent driver must keep its high-water marks across close / reopen.
func c05Reopen(k1, k2 string) vh.Unit {
	name := "reopen/" + k1 + "/" + k2
	return vh.Unit{Name: name, Run: func(u *vh.U) {
		vsched.SetVirtualClock(true)
		vsched.ResetClock(0)
		dir := vh.Scratch("c05-")
		defer os.RemoveAll(dir)
		m := &nonceModel{hwm: map[string]int64{}}
		st, err := vh.OpenBadgerDir(dir)
		if err != nil {
			u.R.Infra = err.Error()
			return
		}
		n1 := c05Nonce(k1)
		w1 := m.accept("A", n1)
		g1 := st.CheckAndSaveNonce("A", n1) == nil
		st.CheckAndSaveNonce("B", c05Nonce("n"))
		m.accept("B", c05Nonce("n"))
		st.Close()
		st, err = vh.OpenBadgerDir(dir)
		if err != nil {
			u.Violate("reopen/open-failed", fmt.Sprintf("reopen after %s failed: %v", k1, err), nil)
			return
		}
		defer st.Close()
		n2 := c05Nonce(k2)
		w2 := m.accept("A", n2)
		g2 := st.CheckAndSaveNonce("A", n2) == nil
		wb := m.accept("B", c05Nonce("n"))
		gb := st.CheckAndSaveNonce("B", c05Nonce("n")) == nil
		u.R.States += 3
		u.R.Transitions += 4
		u.R.Traces++
		u.Observe(fmt.Sprintf("%v %v %v", g1, g2, gb))
		u.Sample([]string{"nonce A " + k1, "close", "reopen", "nonce A " + k2, "nonce B n (replay)"})
		if g1 != w1 || g2 != w2 || gb != wb {
			u.Violate("reopen/nonce-state-lost", fmt.Sprintf("A:%s close reopen A:%s B:n(replay): got %v,%v,%v want %v,%v,%v", k1, k2, g1, g2, gb, w1, w2, wb), nil)
		}
	}}
}

// concurrent submissions against a store under the controlled scheduler.
func c05StoreRace(driver string, kinds []string, bound int) vh.Unit {
	name := fmt.Sprintf("store-race/%s/%s", driver, strings.Join(kinds, "_"))
	return vh.Unit{Name: name, Run: func(u *vh.U) {
		vsched.SetVirtualClock(true)
		res := make([]error, len(kinds))
		var final error
		nonces := make([]int64, len(kinds))
		body := func() {
			st := vh.NewStore(driver)
			for i := range res {
				res[i] = fmt.Errorf("not run")
			}
			var fns []func()
			for i, k := range kinds {
				i := i
				nonces[i] = c05Nonce(k)
				fns = append(fns, func() { res[i] = st.CheckAndSaveNonce("A", nonces[i]) })
			}
			vh.Par(kinds, fns...)
			// the highest accepted nonce must now be refused whatever happened
			max := int64(-1)
			for i, n := range nonces {
				if res[i] == nil && n > max {
					max = n
				}
			}
			final = fmt.Errorf("nothing accepted")
			if max >= 0 {
				final = st.CheckAndSaveNonce("A", max)
			}
		}
		spec := vh.DFSSpec{
			Name: name, Bound: bound,
			Run:  vsched.Options{YieldFiles: []string{"memory.go", "badger.go", "helpers.go"}},
			Body: body,
			Obs: func(s *vsched.Sched) string {
				return fmt.Sprint(errs(res), final != nil)
			},
			Check: func(s *vsched.Sched) (string, string) {
				// serial reference: some permutation must explain the accept set
				acc := []int{}
				for i, e := range res {
					if e == nil {
						acc = append(acc, i)
					}
				}
				// accepted nonces must be pairwise distinct and, ordered by value, each a valid
				// strictly increasing chain: at most one acceptance per nonce value.
				seen := map[int64]bool{}
				for _, i := range acc {
					if seen[nonces[i]] {
						return "store-race/" + driver + "/duplicate-accepted", fmt.Sprintf("nonces %v: results %v — the same nonce was accepted twice", kinds, errs(res))
					}
					seen[nonces[i]] = true
				}
				if len(acc) == 0 {
					return "store-race/" + driver + "/none-accepted", fmt.Sprintf("nonces %v: results %v — no submission accepted", kinds, errs(res))
				}
				if driver == vh.Memory {
					// no conflict errors in the memory driver: the maximum must have been accepted
					maxI := 0
					for i := range nonces {
						if nonces[i] > nonces[maxI] {
							maxI = i
						}
					}
					okMax := false
					for _, i := range acc {
						if nonces[i] == nonces[maxI] {
							okMax = true
						}
					}
					if !okMax {
						return "store-race/" + driver + "/max-rejected", fmt.Sprintf("nonces %v: results %v — highest nonce rejected", kinds, errs(res))
					}
				}
				if final == nil {
					return "store-race/" + driver + "/hwm-lost", fmt.Sprintf("nonces %v: results %v — after the race the highest nonce was accepted again (high-water mark lost)", kinds, errs(res))
				}
				return "", ""
			},
		}
		vh.RunDFS(u, spec)
	}}
}

// nonces of one identity never affect another identity - also when both are submitted at once
func c05StoreRaceIdentities(driver string, bound int) vh.Unit {
	name := fmt.Sprintf("store-race-identities/%s", driver)
	return vh.Unit{Name: name, Run: func(u *vh.U) {
		vsched.SetVirtualClock(true)
		var res [2]error
		var after [4]error
		body := func() {
			st := vh.NewStore(driver)
			nA, nB := c05Nonce("n"), c05Nonce("n")+5
			vh.Par([]string{"A", "B"},
				func() { res[0] = st.CheckAndSaveNonce("A", nA) },
				func() { res[1] = st.CheckAndSaveNonce("B", nB) })
			after[0] = st.CheckAndSaveNonce("A", nA)   // replay: refused
			after[1] = st.CheckAndSaveNonce("A", nA+1) // next: accepted
			after[2] = st.CheckAndSaveNonce("B", nB)   // replay: refused
			after[3] = st.CheckAndSaveNonce("B", nB+1) // next: accepted
		}
		vh.RunDFS(u, vh.DFSSpec{
			Name: name, Bound: bound,
			Run:  vsched.Options{YieldFiles: []string{"memory.go", "badger.go", "helpers.go"}},
			Body: body,
			Obs:  func(s *vsched.Sched) string { return fmt.Sprint(errs(res[:]), errs(after[:])) },
			Check: func(s *vsched.Sched) (string, string) {
				if res[0] != nil || res[1] != nil {
					return "store-race/" + driver + "/identities/fresh-refused", fmt.Sprintf("two identities submitting their first nonces at once: %v", res)
				}
				if after[0] == nil || after[2] == nil || after[1] != nil || after[3] != nil {
					return "store-race/" + driver + "/identities/records-mixed-up", fmt.Sprintf("A:n and B:n+5 accepted at once; afterwards A:n again -> %v (want refusal), A:n+1 -> %v (want ok), B:n+5 again -> %v (want refusal), B:n+6 -> %v (want ok)", after[0], after[1], after[2], after[3])
				}
				return "", ""
			},
		})
	}}
}

func errs(es []error) []string {
	r := make([]string, len(es))
	for i, e := range es {
		if e == nil {
			r[i] = "ok"
		} else {
			r[i] = "err"
		}
	}
	return r
}

// pool level: the same signed vipnode_update / pool_addNode submitted again is refused.
func c05PoolBFS(driver string, depth int) vh.Unit {
	name := fmt.Sprintf("pool-bfs/%s/d%d", driver, depth)
	return vh.Unit{Name: name, Run: func(u *vh.U) {
		vsched.SetVirtualClock(true)
		type captured struct {
			sig   string
			nonce int64
			req   pool.UpdateRequest
		}
		type world struct {
			pw    *vh.PoolWorld
			model *nonceModel
			last  *captured // the last vipnode_update of A that was honoured
		}
		ids := vh.Identities()
		A, B, W := ids[0], ids[1], ids[4]
		spec := vh.BFSSpec{
			Name: name, MaxDepth: depth,
			New: func() interface{} {
				vsched.ResetClock(0)
				pw := vh.NewPoolWorld(vh.PoolConfig{Driver: driver})
				// register both nodes directly in the store (registration is not under test here)
				pw.Store.SetNode(store.Node{ID: store.NodeID(A.NodeID), LastSeen: vsched.Now()})
				pw.Store.SetNode(store.Node{ID: store.NodeID(B.NodeID), LastSeen: vsched.Now(), IsHost: true})
				return &world{pw: pw, model: &nonceModel{hwm: map[string]int64{}}}
			},
			Events: func(w interface{}) []string {
				var evs []string
				for _, k := range c05Kinds {
					evs = append(evs, "update A "+k, "update B "+k, "addnode W "+k, "withdraw W "+k, "updold A "+k)
					if k == "n" || k == "n+1" || k == "n-1" {
						evs = append(evs, "peer A "+k, "connect A "+k) // the node's other endpoints
					}
				}
				// the captured request submitted again with the identity spelled differently
				evs = append(evs, "respelled A upper", "respelled A 0x", "respelled A mixed")
				// ... and with the nonce field moved on while the signature stays (what a replay that
				// wants to get past the high-water mark has to do)
				evs = append(evs, "bumped A 1", "bumped A 2", "bumped A 255", "bumped A 1000000")
				return append(evs, "tick 15m", "tick 16m")
			},
			Apply: func(wi interface{}, ev string, judge bool, hist []string) {
				w := wi.(*world)
				f := strings.Fields(ev)
				if f[0] == "tick" {
					d, _ := time.ParseDuration(f[1])
					vsched.Advance(d)
					return
				}
				if f[0] == "bumped" {
					if w.last == nil {
						return
					}
					var d int64
					fmt.Sscanf(f[2], "%d", &d)
					_, err := w.pw.Pool.Update(context.Background(), w.last.sig, A.NodeID, w.last.nonce+d, w.last.req)
					if !vh.IsRefused(err) && judge {
						u.Observe("bumped honoured")
						u.Violate("pool-nonce/update/replay-honoured-with-bumped-nonce",
							fmt.Sprintf("history %v: the honoured vipnode_update of A (nonce %d), submitted again with the same signature and nonce+%d, passed verification (err=%v)", hist, w.last.nonce, d, err), vh.BFSReplay(name, hist))
					} else if judge {
						u.Observe("bumped refused")
					}
					return
				}
				if f[0] == "respelled" {
					if w.last == nil {
						return
					}
					id := A.NodeID
					switch f[2] {
					case "upper":
						id = strings.ToUpper(id)
					case "0x":
						id = "0x" + id
					case "mixed":
						id = strings.ToUpper(id[:1]) + id[1:len(id)-1] + strings.ToUpper(id[len(id)-1:])
					}
					if id == A.NodeID {
						return
					}
					_, err := w.pw.Pool.Update(context.Background(), w.last.sig, id, w.last.nonce, w.last.req)
					if refused := vh.IsRefused(err); !refused && judge {
						u.Observe("respelled honoured")
						u.Violate("pool-nonce/update/replay-honoured-under-respelled-identity",
							fmt.Sprintf("history %v: the honoured vipnode_update of A, submitted again with its node id spelled %q..., passed verification (err=%v)", hist, id[:6], err), vh.BFSReplay(name, hist))
					} else if judge {
						u.Observe("respelled refused")
					}
					return
				}
				n := c05Nonce(f[2])
				var err error
				var idname string
				switch f[0] {
				case "update":
					id := A
					if f[1] == "B" {
						id = B
					}
					idname = id.NodeID
					req := pool.UpdateRequest{}
					sig := id.SignNode("vipnode_update", n, req)
					_, err = w.pw.Pool.Update(context.Background(), sig, id.NodeID, n, req)
					if refused := vh.IsRefused(err); !refused && id == A {
						w.last = &captured{sig, n, req}
					}
				case "peer", "connect": // the node's other endpoints share its high-water mark
					idname = A.NodeID
					endpoint := "vipnode_" + f[0]
					_, err = vh.NewCall(endpoint, A, n, vh.DefaultParam(endpoint, "")).Invoke(w.pw, context.Background())
				case "updold": // signed in the deprecated format (old agents)
					idname = A.NodeID
					req := pool.UpdateRequest{Peers: []string{}, BlockNumber: 3}
					_, err = vh.NewLegacyUpdateCall(A, n, req).Invoke(w.pw, context.Background())
				case "addnode":
					idname = W.Wallet
					err = w.pw.Payment.AddNode(context.Background(), W.SignWallet("pool_addNode", n, A.NodeID), W.Wallet, n, A.NodeID)
				case "withdraw":
					idname = W.Wallet
					err = w.pw.Payment.Withdraw(context.Background(), W.SignWallet("pool_withdraw", n), W.Wallet, n)
				}
				want := w.model.accept(idname, n)
				refused := vh.IsRefused(err)
				got := !refused
				if judge {
					u.Observe(fmt.Sprintf("%s %s %v", f[0], f[2], got))
					if got != want {
						cls := "replay-honoured"
						if want {
							cls = "fresh-refused"
						}
						u.Violate("pool-nonce/"+f[0]+"/"+cls,
							fmt.Sprintf("history %v: %s got err=%v, model says verification accepts=%v", hist, ev, err, want), vh.BFSReplay(name, hist))
					}
				}
			},
			Key: func(wi interface{}) string {
				w := wi.(*world)
				return fmt.Sprintf("%d|%s|%s", vsched.Elapsed(), w.model.key(), vh.StateKey(w.pw.Raw))
			},
		}
		vh.RunBFS(u, spec)
	}}
}

// two copies of one captured signed update racing each other through the pool.
func c05PoolRace(driver string, copies, bound int) vh.Unit {
	name := fmt.Sprintf("pool-race/%s/x%d", driver, copies)
	return vh.Unit{Name: name, Run: func(u *vh.U) {
		vsched.SetVirtualClock(true)
		A := vh.Identities()[0]
		res := make([]error, copies)
		body := func() {
			pw := vh.NewPoolWorld(vh.PoolConfig{Driver: driver})
			pw.Store.SetNode(store.Node{ID: store.NodeID(A.NodeID), LastSeen: vsched.Now()})
			n := c05Nonce("n")
			req := pool.UpdateRequest{}
			sig := A.SignNode("vipnode_update", n, req)
			var fns []func()
			for i := 0; i < copies; i++ {
				i := i
				fns = append(fns, func() { _, res[i] = pw.Pool.Update(context.Background(), sig, A.NodeID, n, req) })
			}
			vh.Par(nil, fns...)
		}
		vh.RunDFS(u, vh.DFSSpec{
			Name: name, Bound: bound,
			Run:  vsched.Options{YieldFiles: []string{"memory.go", "badger.go", "helpers.go", "service.go"}},
			Body: body,
			Obs:  func(s *vsched.Sched) string { return fmt.Sprint(errs(res)) },
			Check: func(s *vsched.Sched) (string, string) {
				honoured := 0
				for _, e := range res {
					if refused := vh.IsRefused(e); !refused {
						honoured++
					}
				}
				if honoured > 1 {
					return "pool-race/" + driver + "/duplicate-honoured", fmt.Sprintf("%d racing copies of one signed vipnode_update: %d passed verification (%v)", copies, honoured, res)
				}
				return "", ""
			},
		})
	}}
}

// copies of one captured signed pool_withdraw racing each other (a dashboard re-sending while the
// settlement is pending): the request is honoured once
func c05WalletRace(driver string, copies, bound int) vh.Unit {
	name := fmt.Sprintf("wallet-race/%s/x%d", driver, copies)
	return vh.Unit{Name: name, Run: func(u *vh.U) {
		vsched.SetVirtualClock(true)
		W := vh.Identities()[4]
		res := make([]error, copies)
		var pw *vh.PoolWorld
		body := func() {
			pw = vh.NewPoolWorld(vh.PoolConfig{Driver: driver})
			pw.Store.AddAccountBalance(store.Account(W.Wallet), big.NewInt(900))
			pw.YieldPoints = true
			n := c05Nonce("n")
			sig := W.SignWallet("pool_withdraw", n)
			var fns []func()
			for i := 0; i < copies; i++ {
				i := i
				fns = append(fns, func() { res[i] = pw.Payment.Withdraw(context.Background(), sig, W.Wallet, n) })
			}
			vh.Par(nil, fns...)
		}
		vh.RunDFS(u, vh.DFSSpec{
			Name: name, Bound: bound,
			Run:  vsched.Options{YieldFiles: []string{"memory.go", "badger.go", "helpers.go", "service.go"}},
			Body: body,
			Obs:  func(s *vsched.Sched) string { return fmt.Sprint(errs(res), len(pw.Settles)) },
			Check: func(s *vsched.Sched) (string, string) {
				honoured := 0
				for _, e := range res {
					if !vh.IsRefused(e) {
						honoured++
					}
				}
				if honoured > 1 || len(pw.Settles) > 1 {
					return "wallet-race/" + driver + "/duplicate-honoured", fmt.Sprintf("%d racing copies of one signed pool_withdraw: %d passed verification, %d settlements (%v)", copies, honoured, len(pw.Settles), res)
				}
				return "", ""
			},
		})
	}}
}

func init() {
	vh.Register(&vh.Check{
		ID: "C05", Level: "model_checking",
		Technique: "explicit-state BFS of nonce histories on both real drivers against a high-water-mark model + schedule DFS (preemption-bounded) of racing duplicates",
		Rule:      "BFS: every sequence of (identity, nonce kind) submissions and clock ticks up to the depth bound, states de-duplicated on (clock, model high-water marks); DFS: every interleaving of 2-3 concurrent submissions within the preemption bound; a case is distinct by (nonce kind, accepted?) resp. by per-thread outcome vector",
		Assumptions: []string{
			"equality exactly at the 15-minute boundary is not judged (alphabet uses boundary±1ns)",
			"virtual clock: time.Now in vipnode packages is redirected by build overlay; the two places where the badger library reads the wall clock for record expiry (Entry.WithTTL, isDeletedOrExpired) follow the same virtual clock, so the expiry of nonce records is part of the explored histories",
		},
		Units: func(tier string) []vh.Unit {
			var us []vh.Unit
			ids3 := []string{"A", "B", "W"}
			if tier == "thorough" {
				for s := 0; s < 40; s++ {
					us = append(us, c05StoreBFS(vh.Memory, ids3, 6, s, 40))
				}
				for s := 0; s < 40; s++ {
					us = append(us, c05StoreBFS(vh.Badger, []string{"A", "B"}, 5, s, 40))
				}
			} else {
				for s := 0; s < 4; s++ {
					us = append(us, c05StoreBFS(vh.Memory, ids3, 4, s, 4))
				}
				for s := 0; s < 7; s++ {
					us = append(us, c05StoreBFS(vh.Badger, []string{"A", "B"}, 3, s, 7))
				}
			}
			for _, k1 := range c05Kinds {
				for _, k2 := range c05Kinds {
					if tier != "thorough" && !(k1 == "n" || k2 == "n" || k1 == k2) {
						continue
					}
					us = append(us, c05Reopen(k1, k2))
				}
			}
			bound := 2
			if tier == "thorough" {
				bound = 3
			}
			for _, d := range vh.Drivers {
				us = append(us, c05StoreRace(d, []string{"n", "n"}, bound), c05StoreRaceIdentities(d, bound))
				us = append(us, c05StoreRace(d, []string{"n", "n+1"}, bound))
				us = append(us, c05StoreRace(d, []string{"n", "n", "n"}, bound-1))
				us = append(us, c05StoreRace(d, []string{"n-1", "n", "n+1"}, bound-1))
				us = append(us, c05PoolRace(d, 2, bound-1), c05WalletRace(d, 2, bound-1))
				pd := 3
				if tier == "thorough" {
					pd = 4
				}
				us = append(us, c05PoolBFS(d, pd))
			}
			// ... and across a kill and restart of the real binary on its data directory
			us = append(us, c13BinaryRestart())
			return us
		},
	})
}
