//go:build go1.21

package checks

import (
	"context"
	"errors"
	"fmt"
	"sort"
	"strings"
	"time"

	"github.com/vipnode/vipnode/v2/internal/verif/vh"
	"github.com/vipnode/vipnode/v2/internal/verif/vsched"
	"github.com/vipnode/vipnode/v2/jsonrpc2"
	"github.com/vipnode/vipnode/v2/pool"
	"github.com/vipnode/vipnode/v2/pool/store"
)

// C08 — peer requests return only eligible hosts that already whitelisted the requester.

// node variants of a population
type c08Var struct {
	name      string
	host      bool
	kind      string
	fresh     bool
	connected bool
	peer      bool // already tracked as a peer of the requester
	// peerAged: the requester listed this peer when the peer's last check-in was almost two
	// minutes old; the peer has checked in again since (still a tracked, active peer: skip it)
	peerAged bool
	// moved: the host re-registered on a second connection, then its first one closed
	moved bool
}

var c08Vars = []c08Var{
	{"hgfc", true, "geth", true, true, false, false, false},
	{"hgfcP", true, "geth", true, true, true, false, false},
	{"hgfu", true, "geth", true, false, false, false, false},
	{"hgsc", true, "geth", false, true, false, false, false},
	{"hpfc", true, "parity", true, true, false, false, false},
	{"clf", false, "geth", true, false, false, false, false},
	{"h?fc", true, "", true, true, false, false, false}, // a host of a kind the pool does not know (stored as "")
	{"hgfcPaged", true, "geth", true, true, true, true, false},
	{"hgfcMoved", true, "geth", true, true, false, false, true},
}

type c08Cfg struct {
	pop     []int // indices into c08Vars, one per population node (ids[1..])
	reqHost bool
	kind    string
	k       int
	max     int
	modes   []int // per population node: HostAck/HostErr/HostSilent (only meaningful for connected hosts)
	legacy  bool  // use vipnode_client (NumHosts = k, 0 = absent)
	driver  string
}

func (c c08Cfg) String() string {
	var ps []string
	for i, v := range c.pop {
		m := ""
		if i < len(c.modes) {
			m = []string{"ack", "err", "silent"}[c.modes[i]]
		}
		ps = append(ps, c08Vars[v].name+":"+m)
	}
	ep := "vipnode_peer"
	if c.legacy {
		ep = "vipnode_client"
	}
	return fmt.Sprintf("%s driver=%s population=[%s] requester-is-host=%v kind=%q k=%d max=%d", ep, c.driver, strings.Join(ps, " "), c.reqHost, c.kind, c.k, c.max)
}

type c08World struct {
	pw    *vh.PoolWorld
	req   *vh.Ident
	nodes []*vh.Ident
}

// c08Setup builds the population (pass-through or controlled mode).
func c08Setup(c c08Cfg) *c08World {
	pw := vh.NewPoolWorld(vh.PoolConfig{Driver: c.driver, NoManager: true, MaxRequestHosts: c.max})
	ids := vh.Identities()
	w := &c08World{pw: pw, req: ids[0]}
	now := vsched.Now()
	var peers, agedPeers []string
	for i, vi := range c.pop {
		v := c08Vars[vi]
		var id *vh.Ident
		if 1+i < len(ids) {
			id = ids[1+i]
		} else {
			id = vh.ExtraIdentity(i)
		}
		w.nodes = append(w.nodes, id)
		h := pw.Host(id.Name)
		if i < len(c.modes) {
			h.Mode = c.modes[i]
		}
		if v.connected {
			if _, err := pw.Connect(id, vh.ConnectOpts{Host: true, Kind: v.kind}); err != nil {
				panic(fmt.Sprint("c08 setup connect: ", err))
			}
		}
		if v.moved {
			// the host registers again on a second connection (same behaviour), then the first closes
			h2 := pw.Host(id.Name + "-2")
			h2.Mode = h.Mode
			if _, err := pw.Connect(id, vh.ConnectOpts{Host: true, Kind: v.kind, Service: h2.Service()}); err != nil {
				panic(fmt.Sprint("c08 setup reconnect: ", err))
			}
			pw.Pool.CloseRemote(h.Service())
		}
		n := store.Node{ID: store.NodeID(id.NodeID), Kind: v.kind, IsHost: v.host, LastSeen: now, URI: "enode://" + id.NodeID + "@192.0.2.7:30303"}
		if !v.fresh {
			n.LastSeen = now.Add(-store.ExpireInterval - time.Second)
		}
		if v.peerAged {
			agedPeers = append(agedPeers, id.NodeID)
		}
		pw.Raw.SetNode(n)
		if v.peer && !v.peerAged {
			peers = append(peers, id.NodeID)
		}
	}
	pw.Raw.SetNode(store.Node{ID: store.NodeID(w.req.NodeID), Kind: "geth", IsHost: c.reqHost, LastSeen: now})
	if len(agedPeers) > 0 {
		// 118 s ago these peers had last checked in; the requester listed them; they have checked in
		// again since and the requester's own keep-alive is 2 s old
		for _, p := range agedPeers {
			n, _ := pw.Raw.GetNode(store.NodeID(p))
			old := *n
			old.LastSeen = now.Add(-118 * time.Second)
			pw.Raw.SetNode(old)
		}
		pw.Raw.UpdateNodePeers(store.NodeID(w.req.NodeID), append(append([]string{}, peers...), agedPeers...), 1)
		for _, p := range agedPeers {
			n, _ := pw.Raw.GetNode(store.NodeID(p))
			fresh := *n
			fresh.LastSeen = now
			pw.Raw.SetNode(fresh)
		}
		vsched.Advance(3 * time.Second)
	} else if len(peers) > 0 {
		pw.Raw.UpdateNodePeers(store.NodeID(w.req.NodeID), peers, 1)
	}
	return w
}

type c08Result struct {
	hosts  []string
	err    error
	acked  map[string]bool // whitelist(requester) completed successfully at the moment the reply was returned
	called map[string]bool
	// hosts that were asked on a connection that had been closed
	deadCalled []string
}

func c08Call(w *c08World, c c08Cfg) c08Result {
	var r c08Result
	var nodes []store.Node
	if c.legacy {
		req := pool.ClientRequest{Kind: c.kind, NumHosts: c.k}
		n := vsched.Now().UnixNano() + 77
		resp, err := w.pw.Pool.Client(context.Background(), w.req.SignNode("vipnode_client", n, req), w.req.NodeID, n, req)
		r.err = err
		if resp != nil {
			nodes = resp.Hosts
		}
	} else {
		resp, err := w.pw.Peer(context.Background(), w.req, c.k, c.kind)
		r.err = err
		if resp != nil {
			nodes = resp.Peers
		}
	}
	for _, n := range nodes {
		r.hosts = append(r.hosts, string(n.ID))
	}
	r.acked, r.called = map[string]bool{}, map[string]bool{}
	for i, id := range w.nodes {
		conn := id.Name
		if c08Vars[c.pop[i]].moved {
			// (the connection the host is registered on now; a call on the closed one acknowledges nothing)
			conn = id.Name + "-2"
			for _, call := range w.pw.Host(id.Name).Calls {
				if call.Method == "vipnode_whitelist" {
					r.deadCalled = append(r.deadCalled, id.Name)
				}
			}
		}
		for _, call := range w.pw.Host(conn).Calls {
			if call.Method == "vipnode_whitelist" && call.Arg == w.req.NodeID {
				r.called[id.NodeID] = true
				if call.Done && !call.Err {
					r.acked[id.NodeID] = true
				}
			}
		}
	}
	return r
}

// c08Judge evaluates the property on one reply.
func c08Judge(c c08Cfg, w *c08World, r c08Result) (string, string) {
	limit := c.k
	if c.legacy && c.k <= 0 {
		limit = 3 // documented default
	}
	if c.max > 0 && limit > c.max {
		limit = c.max
	}
	byID := map[string]int{}
	for i, id := range w.nodes {
		byID[id.NodeID] = i
	}
	seen := map[string]bool{}
	for _, h := range r.hosts {
		i, ok := byID[h]
		if !ok {
			return "returned-unknown-node", fmt.Sprintf("reply contains %s", vh.Short(h))
		}
		if seen[h] {
			return "returned-duplicate", fmt.Sprintf("reply contains %s twice", vh.Short(h))
		}
		seen[h] = true
		v := c08Vars[c.pop[i]]
		switch {
		case !v.host:
			return "returned-non-host", v.name
		case c.kind != "" && v.kind != c.kind:
			return "returned-wrong-kind", v.name
		case !v.fresh:
			return "returned-stale-host", v.name
		case v.peer:
			return "returned-existing-peer", v.name
		case !v.connected:
			return "returned-unconnected-host", v.name
		case i < len(c.modes) && c.modes[i] != vh.HostAck:
			return "returned-host-that-did-not-ack", v.name + " answered " + []string{"ack", "err", "silent"}[c.modes[i]]
		case !r.acked[h]:
			return "returned-before-ack", v.name + " had not completed vipnode_whitelist(requester) when the reply was sent"
		}
	}
	if h := w.req.NodeID; seen[h] {
		return "returned-requester", ""
	}
	if len(r.deadCalled) > 0 {
		return "closed-connection-called", fmt.Sprintf("hosts %v were asked on the connection that had closed, not on the one they are registered on", r.deadCalled)
	}
	if limit <= 0 && len(r.hosts) > 0 {
		return "hosts-for-nonpositive-request", fmt.Sprintf("%d hosts returned", len(r.hosts))
	}
	if limit > 0 && len(r.hosts) > limit {
		cls := "more-than-requested"
		if c.max > 0 && len(r.hosts) > c.max {
			cls = "more-than-maximum"
		}
		return cls, fmt.Sprintf("%d hosts returned, limit %d", len(r.hosts), limit)
	}
	if r.err != nil && len(r.hosts) > 0 {
		return "error-with-hosts", r.err.Error()
	}
	if r.err != nil && limit > 0 {
		// an error is returned only when no host could be provided: if an eligible host completed
		// the whitelist for the requester, the request must not fail
		for h := range r.acked {
			if i, ok := byID[h]; ok {
				v := c08Vars[c.pop[i]]
				if v.host && v.fresh && v.connected && !v.peer && (c.kind == "" || v.kind == c.kind) {
					return "error-although-host-acknowledged", fmt.Sprintf("%s acknowledged the whitelist, yet the request failed: %v", v.name, r.err)
				}
			}
		}
	}
	// "an error is returned only when no host could be provided": if the only thing that makes any
	// active host of the kind ineligible is that it already is the requester's peer, and at least
	// one other exists (all of them connected and acknowledging), a host can be provided
	if r.err != nil && limit > 0 {
		others, clean := 0, true
		for i, vi := range c.pop {
			v := c08Vars[vi]
			if !v.host || !v.fresh || (c.kind != "" && v.kind != c.kind) || v.peer {
				continue
			}
			others++
			if !v.connected || (i < len(c.modes) && c.modes[i] != vh.HostAck) {
				clean = false
			}
		}
		if others > 0 && clean {
			return "error-although-hosts-available", fmt.Sprintf("%d active hosts of the kind that are not yet peers are connected and acknowledge, yet the request failed: %v", others, r.err)
		}
	}
	// completeness: every active host of the kind is eligible and acks
	supply, allEligible := 0, true
	for i, vi := range c.pop {
		v := c08Vars[vi]
		if !v.host || !v.fresh || (c.kind != "" && v.kind != c.kind) {
			continue
		}
		supply++
		if v.peer || !v.connected || (i < len(c.modes) && c.modes[i] != vh.HostAck) {
			allEligible = false
		}
	}
	if allEligible && limit > 0 {
		want := limit
		if supply < want {
			want = supply
		}
		if len(r.hosts) != want {
			return "fewer-than-available", fmt.Sprintf("%d hosts returned (err=%v); all %d active hosts of the kind are eligible and acknowledge, limit %d", len(r.hosts), r.err, supply, limit)
		}
		if want > 0 && r.err != nil {
			return "error-although-hosts-available", r.err.Error()
		}
	}
	return "", ""
}

// enumerate multisets of variants of size n
func c08Pops(n int) [][]int {
	var out [][]int
	var rec func(start int, cur []int)
	rec = func(start int, cur []int) {
		if len(cur) == n {
			out = append(out, append([]int{}, cur...))
			return
		}
		for v := start; v < len(c08Vars); v++ {
			rec(v, append(cur, v))
		}
	}
	rec(0, nil)
	return out
}

func c08Populations(driver string, maxPop, shard, nshards int) vh.Unit {
	name := fmt.Sprintf("populations/%s/%d", driver, shard)
	return vh.Unit{Name: name, Run: func(u *vh.U) {
		idx := 0
		for n := 0; n <= maxPop; n++ {
			for _, pop := range c08Pops(n) {
				// behaviours for connected hosts: all assignments
				var conn []int
				for i, v := range pop {
					if c08Vars[v].connected {
						conn = append(conn, i)
					}
				}
				nb := 1
				for range conn {
					nb *= 3
				}
				for b := 0; b < nb; b++ {
					modes := make([]int, len(pop))
					x := b
					for _, i := range conn {
						modes[i] = x % 3
						x /= 3
					}
					for _, reqHost := range []bool{false, true} {
						// "besu": a kind the pool does not know; "Geth": a known kind spelled differently
						for _, kind := range []string{"", "geth", "parity", "besu", "Geth"} {
							for _, k := range []int{-3, -1, 0, 1, 2, 5} {
								for _, max := range []int{0, 1, 2} {
									for _, legacy := range []bool{false, true} {
										if legacy && (reqHost || k < 0 || k == 5 || max == 1) {
											continue
										}
										if (kind == "besu" || kind == "Geth") && (k < 1 || k == 2 || max == 1 || reqHost) {
											continue
										}
										idx++
										if idx%nshards != shard {
											continue
										}
										if !u.Thorough() && (b%3 == 2 && n >= 3 || (max == 1 && kind == "parity")) {
											continue
										}
										if u.Expired() {
											return
										}
										c := c08Cfg{pop: pop, reqHost: reqHost, kind: kind, k: k, max: max, modes: modes, legacy: legacy, driver: driver}
										var w *c08World
										var r c08Result
										var leaked []string
										s := vsched.Run(vsched.Options{MaxTime: time.Hour, Drain: true}, func() {
											w = c08Setup(c)
											r = c08Call(w, c)
										})
										leaked = s.Blocked
										u.R.Evaluations++
										u.R.States++
										u.R.Transitions += int64(len(s.Trace))
										u.R.Traces++
										u.Observe(fmt.Sprintf("%d %v %v", len(r.hosts), r.err != nil, len(pop)))
										if len(u.R.Samples) < 2 && len(r.hosts) > 1 {
											u.Sample(c.String() + fmt.Sprintf(" -> %d hosts", len(r.hosts)))
										}
										switch {
										case s.Panic != nil:
											u.Violate("peers/panic", fmt.Sprintf("%s: panic: %v", c, s.Panic), nil)
										case s.Deadlock || s.Horizon:
											u.Violate("peers/deadlock", fmt.Sprintf("%s: request never returned; threads %v", c, s.Blocked), nil)
										case len(leaked) > 0:
											u.Violate("peers/goroutine-left-blocked", fmt.Sprintf("%s: after the reply: %v", c, leaked), nil)
										default:
											if cls, txt := c08Judge(c, w, r); cls != "" {
												u.Violate("peers/"+cls, fmt.Sprintf("%s: %s (reply %v err=%v)", c, txt, shortAll(r.hosts), r.err), nil)
											}
										}
									}
								}
							}
						}
					}
				}
			}
		}
	}}
}

// schedule exploration: all orders of acknowledgement arrival and the time-out firing at any point
func c08Orders(driver string, modes []int, k, bound int) vh.Unit {
	ms := ""
	for _, m := range modes {
		ms += []string{"a", "e", "s"}[m]
	}
	name := fmt.Sprintf("ack-orders/%s/%s/k%d", driver, ms, k)
	pop := make([]int, len(modes))
	c := c08Cfg{pop: pop, kind: "", k: k, modes: modes, driver: driver}
	var w *c08World
	var r c08Result
	body := func() {
		w = c08Setup(c)
		r = c08Call(w, c)
	}
	return vh.Unit{Name: name, Run: func(u *vh.U) {
		vh.RunDFS(u, vh.DFSSpec{
			Name: name, Bound: bound,
			Run:  vsched.Options{TimerAlt: true, MaxTime: time.Hour, Drain: true, YieldFiles: []string{"service.go"}},
			Body: body,
			Obs: func(s *vsched.Sched) string {
				hs := append([]string{}, r.hosts...)
				sort.Strings(hs)
				// acknowledgement order as logged by the fake hosts
				type ev struct {
					step int
					n    string
				}
				var evs []ev
				for _, id := range w.nodes {
					for _, call := range w.pw.Host(id.Name).Calls {
						if call.Done {
							evs = append(evs, ev{call.Step, id.Name})
						}
					}
				}
				sort.Slice(evs, func(i, j int) bool { return evs[i].step < evs[j].step })
				var order []string
				for _, e := range evs {
					order = append(order, e.n)
				}
				return fmt.Sprint(shortAll(hs), r.err != nil, order)
			},
			Check: func(s *vsched.Sched) (string, string) {
				if len(s.Blocked) > 0 {
					return "peers/goroutine-left-blocked", fmt.Sprintf("%s: after the reply: %v", c, s.Blocked)
				}
				// with early time-outs an acknowledging host may legitimately be left out; only the
				// safety clauses are judged here (completeness is judged in the population sweep)
				cc := c
				cc.modes = nil
				if cls, txt := c08Judge(cc, w, r); cls != "" && cls != "fewer-than-available" && cls != "error-although-hosts-available" {
					return "peers/" + cls, fmt.Sprintf("%s: %s (reply %v err=%v)", c, txt, shortAll(r.hosts), r.err)
				}
				for _, h := range r.hosts {
					if !r.acked[h] {
						return "peers/returned-before-ack", fmt.Sprintf("%s: %s returned without a completed acknowledgement", c, vh.Short(h))
					}
				}
				return "", ""
			},
		})
	}}
}

// hosts behind real connections: every host is a real jsonrpc2.Remote pair over an in-memory wire,
// its agent side answering vipnode_whitelist with a result, with a JSON-RPC error, or not at all.
// (The fake hosts above return Go errors directly; a refusal that travels as an error *reply*
// takes the path through the reply decoding.)
type C08Agent struct {
	mode    int
	arrived []string
}

func (a *C08Agent) Whitelist(ctx context.Context, nodeID string) error {
	a.arrived = append(a.arrived, nodeID)
	switch a.mode {
	case vh.HostErr:
		return errors.New("whitelist refused by the host's node")
	case vh.HostSilent:
		vsched.Recv(make(chan struct{})) // never answers
	}
	return nil
}

func c08RPCHosts(driver string) vh.Unit {
	name := "rpc-hosts/" + driver
	return vh.Unit{Name: name, Run: func(u *vh.U) {
		ids := vh.Identities()
		for nHosts := 1; nHosts <= 3; nHosts++ {
			nb := 1
			for i := 0; i < nHosts; i++ {
				nb *= 3
			}
			for b := 0; b < nb; b++ {
				for _, k := range []int{1, 3} {
					for _, legacy := range []bool{false, true} {
						if u.Expired() {
							return
						}
						modes := make([]int, nHosts)
						x := b
						for i := range modes {
							modes[i] = x % 3
							x /= 3
						}
						var hosts []string
						var err error
						agents := make([]*C08Agent, nHosts)
						s := vsched.Run(vsched.Options{MaxTime: time.Hour, Drain: true}, func() {
							pw := vh.NewPoolWorld(vh.PoolConfig{Driver: driver, NoManager: true})
							req := ids[0]
							pw.Raw.SetNode(store.Node{ID: store.NodeID(req.NodeID), Kind: "geth", LastSeen: vsched.Now()})
							for i := 0; i < nHosts; i++ {
								ca, cb := vh.NewMemPipe(8)
								poolSide := &jsonrpc2.Remote{Codec: ca, Client: &jsonrpc2.Client{}, Server: &jsonrpc2.Server{}}
								hostSide := &jsonrpc2.Remote{Codec: cb, Client: &jsonrpc2.Client{}, Server: &jsonrpc2.Server{}}
								agents[i] = &C08Agent{mode: modes[i]}
								if e := hostSide.Server.RegisterMethod("vipnode_whitelist", agents[i], "Whitelist"); e != nil {
									panic(e)
								}
								vsched.GoNamed("pool-serve", func() { poolSide.Serve() })
								vsched.GoNamed("host-serve", func() { hostSide.Serve() })
								if _, e := pw.Connect(ids[1+i], vh.ConnectOpts{Host: true, Kind: "geth", Service: poolSide}); e != nil {
									panic(e)
								}
							}
							if legacy {
								r := pool.ClientRequest{Kind: "geth", NumHosts: k}
								n := vsched.Now().UnixNano() + 77
								resp, e := pw.Pool.Client(context.Background(), req.SignNode("vipnode_client", n, r), req.NodeID, n, r)
								err = e
								if resp != nil {
									for _, h := range resp.Hosts {
										hosts = append(hosts, string(h.ID))
									}
								}
							} else {
								resp, e := pw.Peer(context.Background(), req, k, "geth")
								err = e
								if resp != nil {
									for _, h := range resp.Peers {
										hosts = append(hosts, string(h.ID))
									}
								}
							}
						})
						u.R.Evaluations++
						u.R.States++
						u.R.Transitions += int64(len(s.Trace))
						u.R.Traces++
						u.Observe(fmt.Sprintf("%v k=%d -> %d err=%v", modes, k, len(hosts), err != nil))
						desc := fmt.Sprintf("%d hosts on real connections answering %v (0 ack, 1 error reply, 2 silent), request for %d (legacy=%v)", nHosts, modes, k, legacy)
						if s.Panic != nil {
							u.Violate("peers/panic", fmt.Sprintf("%s: %v", desc, s.Panic), nil)
							continue
						}
						if s.Deadlock || s.Horizon {
							u.Violate("peers/deadlock", fmt.Sprintf("%s: the request never returned; threads %v", desc, s.Blocked), nil)
							continue
						}
						nAck := 0
						for i, h := range ids[1 : 1+nHosts] {
							returned := false
							for _, x := range hosts {
								if x == h.NodeID {
									returned = true
								}
							}
							if modes[i] == vh.HostAck {
								nAck++
							}
							if returned && modes[i] != vh.HostAck {
								u.Violate("peers/returned-host-that-did-not-ack", fmt.Sprintf("%s: host %d was returned (reply %v err=%v)", desc, i, shortAll(hosts), err), nil)
							}
							if returned && len(agents[i].arrived) == 0 {
								u.Violate("peers/returned-before-ack", fmt.Sprintf("%s: host %d was returned without having received vipnode_whitelist", desc, i), nil)
							}
						}
						want := nAck
						if k < want {
							want = k
						}
						if nAck == nHosts && len(hosts) != want {
							u.Violate("peers/fewer-than-available", fmt.Sprintf("%s: %d hosts returned, expected %d (err=%v)", desc, len(hosts), want, err), nil)
						}
						if len(hosts) > k {
							u.Violate("peers/more-than-requested", fmt.Sprintf("%s: %d hosts returned", desc, len(hosts)), nil)
						}
						if err != nil && len(hosts) > 0 {
							u.Violate("peers/error-with-hosts", fmt.Sprintf("%s: %v with %v", desc, err, shortAll(hosts)), nil)
						}
					}
				}
			}
		}
		u.Sample("1-3 hosts, each a real Remote pair over an in-memory wire, whitelist answered by result / error reply / silence")
	}}
}

// a big pool: dozens of nodes of every variant, answering in every way; the reply still holds only
// eligible hosts that acknowledged, never more than asked for or allowed
// a node that registers again in the other role (full-node host <-> light client) while its
// connection stays open: after every registration it is handed out iff its *latest* registration
// was as a full-node host
func c08RoleChanges() vh.Unit {
	return vh.Unit{Name: "role-changes", Run: func(u *vh.U) {
		cast := vh.StdCast()
		x, other, asker := cast.ByName["H1"], cast.ByName["H2"], cast.ByName["C1"]
		for _, driver := range vh.Drivers {
			for mask := 0; mask < 32; mask++ { // five registrations, each as host (1) or client (0)
				vsched.ResetClock(0)
				pw := vh.NewPoolWorld(vh.PoolConfig{Driver: driver, NoManager: true})
				if _, err := pw.Connect(other, vh.ConnectOpts{Host: true}); err != nil {
					u.Violate("peers/setup", err.Error(), nil)
					return
				}
				if _, err := pw.Connect(asker, vh.ConnectOpts{}); err != nil {
					u.Violate("peers/setup", err.Error(), nil)
					return
				}
				var roles []string
				for step := 0; step < 5; step++ {
					host := mask&(1<<step) != 0
					roles = append(roles, map[bool]string{true: "host", false: "client"}[host])
					vsched.Advance(time.Second)
					// (always over the same, open connection)
					if _, err := pw.Connect(x, vh.ConnectOpts{Host: host, Service: pw.Host(x.Name).Service(), NodeURI: "enode://" + x.NodeID + "@192.0.2.7:30303"}); err != nil {
						u.Violate("peers/role-change-refused", fmt.Sprintf("%s registrations %v: %v", driver, roles, err), nil)
						return
					}
					resp, err := pw.Peer(vh.CtxWith(pw.Host("asker").Service()), asker, 3, "")
					u.R.Evaluations++
					u.R.States++
					u.R.Transitions++
					u.R.Traces++
					handed := false
					if resp != nil {
						for _, n := range resp.Peers {
							if string(n.ID) == x.NodeID {
								handed = true
							}
						}
					}
					u.Observe(fmt.Sprintf("role %v handed=%v", host, handed))
					if handed != host {
						cls := "non-host-returned"
						if host {
							cls = "registered-host-not-returned"
						}
						u.Violate("peers/"+cls, fmt.Sprintf("driver %s: node registered as %v over one open connection; after the last registration a request for 3 hosts returned it: %v (err=%v)", driver, roles, handed, err), nil)
						return
					}
				}
			}
		}
		u.Sample("all 32 role sequences of five registrations of one node over one connection, both drivers")
	}}
}

// a client that lost its peers and says so (keep-alives with an empty list): once the old peers'
// entries have aged out they are candidates again - a fresh, connected, acknowledging host must be
// offered, on both drivers
func c08LostPeers() vh.Unit {
	return vh.Unit{Name: "lost-peers-are-offered-again", Run: func(u *vh.U) {
		cast := vh.StdCast()
		for _, driver := range vh.Drivers {
			for _, reports := range []string{"-", "H2"} { // what the client reports meanwhile: nothing / its other peer
				for _, rounds := range []int{1, 2, 3, 4} {
					vsched.ResetClock(0)
					pw := vh.NewPoolWorld(vh.PoolConfig{Driver: driver, NoManager: true})
					for _, e := range []string{"conn H1", "conn H2", "conn C1", "upd C1 H1,H2"} {
						if err := vh.PoolEvent(pw, cast, e); err != nil {
							u.Violate("peers/setup", err.Error(), nil)
							return
						}
					}
					for i := 0; i < rounds; i++ {
						vsched.Advance(45 * time.Second)
						for _, e := range []string{"upd H1 -", "upd H2 -", "upd C1 " + reports} {
							vh.PoolEvent(pw, cast, e)
						}
					}
					resp, err := pw.Peer(vh.CtxWith(pw.Host("asker").Service()), cast.ByName["C1"], 2, "")
					u.R.Evaluations++
					u.R.States++
					u.R.Transitions++
					u.R.Traces++
					got := map[string]bool{}
					if resp != nil {
						for _, n := range resp.Peers {
							got[string(n.ID)] = true
						}
					}
					// H1 was last reported at t=0: its entry is gone once 120 s have passed
					wantH1 := time.Duration(rounds)*45*time.Second > 120*time.Second
					u.Observe(fmt.Sprintf("lost-peers %s reports=%s rounds=%d offered=%v", driver, reports, rounds, got[cast.ByName["H1"].NodeID]))
					if got[cast.ByName["H1"].NodeID] != wantH1 {
						cls := "tracked-peer-returned"
						if wantH1 {
							cls = "error-although-hosts-available"
						}
						u.Violate("peers/"+cls, fmt.Sprintf("driver %s: the client reported host H1 at t=0 and then %d keep-alives (every 45 s) reporting %q while H1 kept checking in; a request for 2 hosts returned H1: %v (err=%v), expected %v", driver, rounds, reports, got[cast.ByName["H1"].NodeID], err, wantH1), nil)
						return
					}
				}
			}
		}
		u.Sample("a client that stops reporting a host: after 45/90/135/180 s of keep-alives without it the host is (not yet / again) offered, both drivers")
	}}
}

func c08Wide(driver string, n int) vh.Unit {
	name := fmt.Sprintf("wide-population/%s/x%d", driver, n)
	return vh.Unit{Name: name, Run: func(u *vh.U) {
		for _, k := range []int{1, 5, 25, 1000} {
			for _, max := range []int{0, 3, 40} {
				for _, kind := range []string{"", "geth"} {
					for _, legacy := range []bool{false, true} {
						for rot := 0; rot < 3; rot++ {
							if u.Expired() {
								return
							}
							pop := make([]int, n)
							modes := make([]int, n)
							for i := range pop {
								pop[i] = (i + rot) % len(c08Vars)
								modes[i] = (i/len(c08Vars) + rot) % 3
							}
							c := c08Cfg{pop: pop, kind: kind, k: k, max: max, modes: modes, legacy: legacy, driver: driver}
							var w *c08World
							var r c08Result
							s := vsched.Run(vsched.Options{MaxTime: time.Hour, Drain: true, MaxSteps: 2000000}, func() {
								w = c08Setup(c)
								r = c08Call(w, c)
							})
							u.R.Evaluations++
							u.R.States++
							u.R.Transitions += int64(len(s.Trace))
							u.R.Traces++
							u.Observe(fmt.Sprintf("wide %d k=%d max=%d -> %d err=%v", n, k, max, len(r.hosts), r.err != nil))
							desc := fmt.Sprintf("population of %d nodes (all variants, every third acknowledging / failing / silent), request for %d of kind %q, maximum %d, legacy=%v", n, k, kind, max, legacy)
							switch {
							case s.Panic != nil:
								u.Violate("peers/panic", fmt.Sprintf("%s: %v", desc, s.Panic), nil)
							case s.Deadlock || s.Horizon:
								u.Violate("peers/deadlock", fmt.Sprintf("%s: request never returned", desc), nil)
							case len(s.Blocked) > 0:
								u.Violate("peers/goroutine-left-blocked", fmt.Sprintf("%s: %v", desc, s.Blocked[:1]), nil)
							default:
								if cls, txt := c08Judge(c, w, r); cls != "" && cls != "fewer-than-available" {
									u.Violate("peers/"+cls, fmt.Sprintf("%s: %s (%d hosts returned, err=%v)", desc, txt, len(r.hosts), r.err), nil)
								}
							}
						}
					}
				}
			}
		}
		u.Sample(fmt.Sprintf("%d nodes, requests for 1/5/25/1000 hosts with maxima 0/3/40", n))
	}}
}

func init() {
	vh.Register(&vh.Check{
		ID: "C08", Level: "model_checking",
		Technique: "exhaustive enumeration of pool populations x request parameters x host behaviours on the real Peer/Client -> requestHosts (goroutines, channels, select and the 5 s time-out run under the controlled scheduler on a virtual clock) + schedule DFS over all acknowledgement orders and early time-outs",
		Rule:      "all multisets of up to 3 (quick) / 4 (thorough) nodes over 6 variants (host kind, fresh/stale, connected or not, already peered, client) x requester client/host x kind x k ∈ {-3,-1,0,1,2,5} x maximum ∈ {0,1,2} x every ack/error/silent assignment of the connected hosts x vipnode_peer / legacy vipnode_client; DFS: 3 hosts with mixed behaviours, every interleaving within the deviation bound incl. the time-out firing early; distinct = (reply size, error?, population size) resp. (reply, ack order)",
		Assumptions: []string{
			"which hosts are chosen when supply exceeds demand is not judged (map iteration is made deterministic by the overlay)",
			"a negative NumHosts in the legacy client request is treated like an absent one (default 3), which the statement leaves open",
		},
		Units: func(tier string) []vh.Unit {
			var us []vh.Unit
			maxPop, n := 3, 12
			if tier == "thorough" {
				maxPop, n = 4, 40
			}
			for s := 0; s < n; s++ {
				us = append(us, c08Populations(vh.Memory, maxPop, s, n))
			}
			for s := 0; s < 4; s++ {
				us = append(us, c08Populations(vh.Badger, 2, s, 4))
			}
			bound := 1
			if tier == "thorough" {
				bound = 2
			}
			A, E, S := vh.HostAck, vh.HostErr, vh.HostSilent
			for _, m := range [][]int{{A, A, A}, {A, E, A}, {A, S, E}, {S, S, S}} {
				us = append(us, c08Orders(vh.Memory, m, 2, bound), c08Orders(vh.Memory, m, 5, bound))
			}
			us = append(us, c08Orders(vh.Memory, []int{A, A}, 5, bound+1), c08Orders(vh.Memory, []int{A, S}, 5, bound+1))
			us = append(us, c08Orders(vh.Badger, []int{A, S, A}, 2, bound))
			us = append(us, c08RPCHosts(vh.Memory), c08Wide(vh.Memory, 24), c08Wide(vh.Badger, 24))
			if tier == "thorough" {
				us = append(us, c08Wide(vh.Memory, 96))
			}
			us = append(us, c08BinaryMaxHosts(), c08RoleChanges(), c08LostPeers())
			return us
		},
	})
}
