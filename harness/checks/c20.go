//go:build go1.21

package checks

import (
	"context"
	"encoding/hex"
	"encoding/json"
	"errors"
	"fmt"
	"net"
	"net/http"
	"os"
	"os/exec"
	"path/filepath"
	"strings"
	"sync"
	"syscall"
	"time"

	"github.com/ethereum/go-ethereum/crypto"
	"github.com/gorilla/websocket"
	"github.com/vipnode/vipnode/v2/agent"
	"github.com/vipnode/vipnode/v2/ethnode"
	"github.com/vipnode/vipnode/v2/internal/verif/vh"
	"github.com/vipnode/vipnode/v2/internal/verif/vsched"
	"github.com/vipnode/vipnode/v2/pool"
	"github.com/vipnode/vipnode/v2/pool/store"
)

// C20 — an agent runs one keep-alive loop that can always be stopped and restarted.

const c20Interval = 30 * time.Second

type c20World struct {
	a        *agent.Agent
	node     *recNode
	sp       *scriptPool
	running  bool          // model: a loop is running
	ended    bool          // model: a loop ended and its result has not been collected by Wait yet
	endErr   bool          // model: that loop ended with an error
	failNext bool          // the next keep-alive fails
	interval time.Duration // the keep-alive interval the agent is configured with right now
}

// c20Latency is how long the scripted pool takes to answer a keep-alive in the worlds built next
// (0: at once; 12 s: longer than the agent's internal 10 s time-outs, shorter than the interval).
var c20Latency time.Duration

func c20New() *c20World {
	node := &recNode{kind: ethnode.Geth, id: c18Ids[5]}
	sp := &scriptPool{update: &pool.UpdateResponse{}, latency: c20Latency}
	return &c20World{a: &agent.Agent{EthNode: node, UpdateInterval: c20Interval}, node: node, sp: sp, interval: c20Interval}
}

func c20Settle() { vsched.Sleep(time.Millisecond) }

// apply runs one lifecycle event on the real agent (inside a controlled execution) and judges it.
func (w *c20World) apply(ev string) (cls, detail string) {
	updatesBefore, connectsBefore := len(w.sp.updates), w.sp.connects
	switch ev {
	case "start":
		err := w.a.Start(w.sp)
		c20Settle()
		switch {
		case w.running && err != agent.ErrAlreadyStarted:
			return "second-start-not-refused", fmt.Sprintf("Start while running returned %v", err)
		case w.running && (w.sp.connects != connectsBefore):
			return "second-start-registered-again", "Start while running called the pool"
		case !w.running && w.sp.connErr != nil:
			if err == nil {
				return "failed-start-reported-success", "the pool refused the connect, Start returned nil"
			}
		case !w.running && err != nil:
			return "start-refused", fmt.Sprintf("Start on a stopped agent returned %v", err)
		case !w.running:
			w.running = true
			if w.sp.connects != connectsBefore+1 || len(w.sp.updates) != updatesBefore+1 {
				return "start-did-not-register", fmt.Sprintf("Start made %d connects and %d updates", w.sp.connects-connectsBefore, len(w.sp.updates)-updatesBefore)
			}
		}
	case "stop":
		w.a.Stop()
		c20Settle()
		w.running, w.ended, w.endErr = false, true, false
	case "wait":
		err := w.a.Wait()
		if (err != nil) != w.endErr {
			return "wait-result", fmt.Sprintf("Wait returned %v, loop had ended with error=%v", err, w.endErr)
		}
		w.ended = false
	case "update":
		err := w.a.UpdatePeers(context.Background(), w.sp)
		if err != nil {
			return "forced-update-failed", err.Error()
		}
		// (with a slow pool the loop's own keep-alive may fall into the time the forced one takes)
		if n := len(w.sp.updates) - updatesBefore; n < 1 || (n > 1 && w.sp.latency == 0) || n > 2 {
			return "forced-update-count", fmt.Sprintf("%d updates sent", n)
		}
	case "tick":
		if w.failNext && w.running {
			w.sp.updateErr = errors.New("pool keep-alive failure (injected)")
		}
		vsched.Sleep(w.interval)
		c20Settle()
		w.sp.updateErr = nil
		want := 0
		if w.running {
			want = 1
		}
		if got := len(w.sp.updates) - updatesBefore; got != want {
			return "keepalive-cadence", fmt.Sprintf("one interval elapsed with running=%v: %d keep-alives sent, expected %d", w.running, got, want)
		}
		if w.failNext && w.running {
			w.running, w.ended, w.endErr, w.failNext = false, true, true, false
		}
	case "failconnect":
		w.sp.connErr = errors.New("pool refuses (injected)")
		err := w.a.Start(w.sp)
		c20Settle()
		w.sp.connErr = nil
		if w.running {
			if err != agent.ErrAlreadyStarted {
				return "second-start-not-refused", fmt.Sprintf("Start while running returned %v", err)
			}
		} else if err == nil {
			return "failed-start-reported-success", "the pool refused the connect, Start returned nil"
		}
	case "failfirstupdate":
		// the pool accepts the connect but rejects the first keep-alive of the start
		w.sp.updateErr = errors.New("pool rejects the first update (injected)")
		err := w.a.Start(w.sp)
		c20Settle()
		w.sp.updateErr = nil
		if w.running {
			if err != agent.ErrAlreadyStarted {
				return "second-start-not-refused", fmt.Sprintf("Start while running returned %v", err)
			}
		} else if err == nil {
			return "failed-start-reported-success", "the first keep-alive was rejected, Start returned nil"
		}
	case "failkeepalive":
		w.failNext = true
	case "reconfigure":
		// the operator changes the interval of a stopped agent (30 s -> 20 s -> 70 s -> 30 s; all longer than the slowest pool answers): the next run
		// keeps the new cadence
		switch w.interval {
		case c20Interval:
			w.interval = 20 * time.Second
		case 20 * time.Second:
			w.interval = 70 * time.Second
		default:
			w.interval = c20Interval
		}
		w.a.UpdateInterval = w.interval
	}
	want := 0
	if w.running {
		want = 1
	}
	if got := c20Loops(); got != want {
		cls := "loop-count"
		if got > want {
			cls = "extra-loop-running"
		}
		return cls, fmt.Sprintf("after %q: %d keep-alive loops alive, expected %d", ev, got, want)
	}
	return "", ""
}

// c20Loops counts the keep-alive loops still serving: alive spawned threads except those that have
// left the loop and only wait for somebody to collect their result with Wait.
func c20Loops() int {
	n := 0
	for _, site := range vsched.AliveDaemonSites() {
		if site != "send-wait" && site != "send" {
			n++
		}
	}
	return n
}

func (w *c20World) events() []string {
	evs := []string{"start", "update", "tick", "failconnect", "failfirstupdate"}
	if w.running {
		evs = append(evs, "stop")
		if !w.failNext {
			evs = append(evs, "failkeepalive")
		}
	}
	if w.ended {
		evs = append(evs, "wait")
	}
	if !w.running {
		evs = append(evs, "reconfigure")
	}
	return evs
}

func (w *c20World) key() string {
	return fmt.Sprintf("%v %v %v %v %s", w.running, w.ended, w.endErr, w.failNext, w.interval)
}

// all histories up to depth; each history is one controlled execution (default schedule, virtual time)
func c20Histories(depth int, latency time.Duration) vh.Unit {
	name := fmt.Sprintf("lifecycle-histories/d%d", depth)
	if latency > 0 {
		name = fmt.Sprintf("lifecycle-histories/pool-answers-in-%s/d%d", latency, depth)
	}
	return vh.Unit{Name: name, Run: func(u *vh.U) {
		c20Latency = latency
		defer func() { c20Latency = 0 }()
		type item struct{ hist []string }
		frontier := []item{{nil}}
		seen := map[string]bool{}
		for d := 0; d <= depth && len(frontier) > 0; d++ {
			var next []item
			for _, it := range frontier {
				if u.Expired() {
					return
				}
				var w *c20World
				var cls, detail, last string
				var evs []string
				s := vsched.Run(vsched.Options{MaxTime: 24 * time.Hour, MaxSteps: 200000}, func() {
					w = c20New()
					for _, ev := range it.hist {
						last = ev
						if cls, detail = w.apply(ev); cls != "" {
							return
						}
					}
					evs = w.events()
				})
				u.R.Transitions++
				u.R.Traces++
				u.R.Evaluations++
				if s.Panic != nil {
					u.Violate("lifecycle/panic", fmt.Sprintf("history %v: %v", it.hist, s.Panic), nil)
					return
				}
				if s.Deadlock || s.Horizon {
					u.Violate("lifecycle/hang", fmt.Sprintf("history %v: event %q never returned; threads %v", it.hist, last, s.Blocked), nil)
					return
				}
				if cls != "" {
					u.Violate("lifecycle/"+cls, fmt.Sprintf("history %v: %s", it.hist, detail), nil)
					return
				}
				u.Observe(w.key() + " " + last)
				k := fmt.Sprintf("%d|%s", len(it.hist), w.key())
				_ = k
				sk := w.key() + fmt.Sprint(len(w.sp.updates) > 0)
				if seen[sk] && d > 2 {
					// the lifecycle state was reached before by a shorter or equal history
					continue
				}
				seen[sk] = true
				u.R.States++
				if d == depth {
					if len(u.R.Samples) < 2 {
						u.Sample(it.hist)
					}
					continue
				}
				for _, ev := range evs {
					next = append(next, item{append(append([]string{}, it.hist...), ev)})
				}
			}
			frontier = next
		}
		u.R.Bounds["depth"] = depth
	}}
}

// concurrent lifecycle calls under the controlled scheduler
func c20Race(scen string, bound int) vh.Unit {
	name := "lifecycle-race/" + scen
	var w *c20World
	var res []error
	var overlap string
	var newestBefore []int
	threads := map[string][]string{
		"start-start":      {"start", "start"},
		"start-start-stop": {"start", "start"},
		"stop-vs-tick":     {"stop", "tick"},
		"wait-vs-stop":     {"wait", "stop"},
		"stop-vs-update":   {"stop", "update"},
		"stop-vs-start":    {"stop", "start"},
	}[scen]
	body := func() {
		w = c20New()
		res = make([]error, len(threads))
		if scen != "start-start" && scen != "start-start-stop" {
			w.a.Start(w.sp)
		}
		var fns []func()
		overlap = ""
		newestBefore = make([]int, len(threads))
		for i, t := range threads {
			i, t := i, t
			fns = append(fns, func() {
				// ids are handed out in spawn order: everything spawned before this call is "older"
				newestBefore[i] = 1 << 30
				if t == "start" {
					max := -1
					for id := range vsched.AliveDaemonInfo() {
						if id > max {
							max = id
						}
					}
					newestBefore[i] = max + 1
				}
				switch t {
				case "start":
					res[i] = w.a.Start(w.sp)
					if res[i] == nil {
						// an accepted Start must not find an older loop still idling in its select
						// (threads that already left the loop are somewhere else)
						for id, site := range vsched.AliveDaemonInfo() {
							if id < newestBefore[i] && (site == "select-wait" || site == "select") {
								overlap = fmt.Sprintf("Start returned nil while an older keep-alive loop (thread %d) was still serving", id)
							}
						}
					}
				case "stop":
					w.a.Stop()
				case "wait":
					res[i] = w.a.Wait()
				case "tick":
					vsched.Sleep(c20Interval)
				case "update":
					res[i] = w.a.UpdatePeers(context.Background(), w.sp)
				}
			})
		}
		vh.Par(threads, fns...)
		c20Settle()
		if scen == "start-start-stop" {
			// whatever happened, one Stop + Wait must leave nothing running
			w.a.Stop()
			w.a.Wait()
			c20Settle()
		}
	}
	return vh.Unit{Name: name, Run: func(u *vh.U) {
		var alive, aliveAfter int
		var followErr error
		vh.RunDFS(u, vh.DFSSpec{
			Name: name, Bound: bound,
			Run: vsched.Options{YieldFiles: []string{"agent.go"}, MaxTime: time.Hour, Delay: true},
			Body: func() {
				body()
				alive = c20Loops()
				// follow-up: the agent's own idea of "running" must match the loops that are alive
				followErr = w.a.Start(w.sp)
				c20Settle()
				aliveAfter = c20Loops()
			},
			Obs: func(s *vsched.Sched) string { return fmt.Sprint(res, alive, len(w.sp.updates), w.sp.connects) },
			Check: func(s *vsched.Sched) (string, string) {
				if overlap != "" {
					return "lifecycle-race/start-accepted-while-running", fmt.Sprintf("%s: %s (results %v)", scen, overlap, res)
				}
				if alive >= 1 && (followErr != agent.ErrAlreadyStarted || aliveAfter != alive) {
					return "lifecycle-race/running-agent-started-again", fmt.Sprintf("%s: %d loop(s) alive after the race (results %v), yet a further Start returned %v and %d loops are alive now", scen, alive, res, followErr, aliveAfter)
				}
				if alive == 0 && (followErr != nil || aliveAfter != 1) {
					return "lifecycle-race/stopped-agent-cannot-restart", fmt.Sprintf("%s: no loop alive after the race (results %v), a further Start returned %v, %d loops alive now", scen, res, followErr, aliveAfter)
				}
				switch scen {
				case "start-start":
					ok, refused := 0, 0
					for _, e := range res {
						if e == nil {
							ok++
						} else if e == agent.ErrAlreadyStarted {
							refused++
						}
					}
					if alive != 1 || ok != 1 || refused != 1 {
						return "lifecycle-race/two-loops", fmt.Sprintf("two concurrent Start calls returned %v; %d keep-alive loops alive, pool saw %d connects", res, alive, w.sp.connects)
					}
				case "stop-vs-start":
					// a Start racing the Stop of a running agent: either it is refused and nothing runs
					// any more, or it comes after the stop and exactly one loop runs
					want := 0
					if res[1] == nil {
						want = 1
					} else if res[1] != agent.ErrAlreadyStarted {
						return "lifecycle-race/start-during-stop", fmt.Sprintf("Start racing Stop returned %v", res[1])
					}
					if alive != want {
						return "lifecycle-race/two-loops", fmt.Sprintf("Start racing Stop returned %v; %d keep-alive loops alive afterwards, expected %d (pool saw %d connects)", res[1], alive, want, w.sp.connects)
					}
				case "start-start-stop", "stop-vs-tick", "wait-vs-stop", "stop-vs-update":
					if alive != 0 {
						return "lifecycle-race/loop-survived-stop", fmt.Sprintf("%s: after Stop %d keep-alive loops alive (results %v)", scen, alive, res)
					}
				}
				return "", ""
			},
		})
	}}
}

// the command line: the real binary accepts an update interval only below the expiry window
func c20CLI() vh.Unit {
	return vh.Unit{Name: "wire/update-interval-flag", Run: func(u *vh.U) {
		bin := vh.VipnodeBin()
		if bin == "" {
			u.R.Infra = "VERIF_VIPNODE_BIN not set"
			return
		}
		dir := vh.Scratch("c20-")
		defer os.RemoveAll(dir)
		id := vh.Identities()[0]
		keyfile := filepath.Join(dir, "nodekey")
		os.WriteFile(keyfile, []byte(hex.EncodeToString(crypto.FromECDSA(id.Key))), 0600)
		type tc struct {
			s      string
			accept string // "yes", "no", "open"
		}
		cases := []tc{{"0s", "no"}, {"5s", "open"}, {"5.000000001s", "yes"}, {"60s", "yes"}, {"119.999999999s", "yes"}, {"120s", "no"}, {"121s", "no"}, {"1h", "no"}, {"x", "no"}, {"", "no"}, {"-60s", "no"}, {"2m", "no"}, {"1m59s", "yes"}}
		type result struct {
			tc
			alive bool
			out   string
		}
		results := make([]result, len(cases))
		done := make(chan int, len(cases))
		for i, c := range cases {
			go func(i int, c tc) {
				cmd := exec.Command(bin, "-vv", "agent", "--rpc", "fakenode://"+id.NodeID+"@x", "--nodekey", keyfile, "--update-interval="+c.s, ":memory:")
				cmd.Env = append(os.Environ(), "HOME="+dir)
				cmd.SysProcAttr = &syscall.SysProcAttr{Setpgid: true, Pdeathsig: syscall.SIGKILL}
				var out lockedBuf
				cmd.Stdout, cmd.Stderr = &out, &out
				cmd.Start()
				exited := make(chan struct{})
				go func() { cmd.Wait(); close(exited) }()
				// a refused interval makes the process exit; an accepted one makes it register with
				// the (in-process) pool and say so. No verdict from mere slowness: wait for either.
				// (fast path: the agent's own log line; slow path, independent of any wording: a
				// process that has not exited after 90 s was not refused - refusal happens right
				// after flag parsing)
				alive := false
				for waited := 0; ; waited++ {
					select {
					case <-exited:
					case <-time.After(100 * time.Millisecond):
						if s := out.String(); strings.Contains(s, "Registered on pool") || strings.Contains(s, "Pool update") || waited >= 900 {
							alive = true
						} else {
							continue
						}
					}
					break
				}
				select {
				case <-exited:
				default:
					syscall.Kill(-cmd.Process.Pid, syscall.SIGKILL)
					<-exited
				}
				results[i] = result{c, alive, out.String()}
				done <- i
			}(i, c)
		}
		for range cases {
			<-done
		}
		for _, r := range results {
			u.R.Evaluations++
			u.R.States++
			u.R.Transitions++
			u.R.Traces++
			accepted := r.alive || strings.Contains(r.out, "Registered on pool") || strings.Contains(r.out, "Pool update")
			u.Observe(fmt.Sprintf("%s %v", r.s, accepted))
			d, perr := time.ParseDuration(r.s)
			switch {
			case accepted && (perr != nil || d >= store.ExpireInterval):
				u.Violate("cli/interval-not-below-expiry-accepted", fmt.Sprintf("--update-interval=%q was accepted (expiry window %s); output: %s", r.s, store.ExpireInterval, firstN(r.out, 400)), nil)
			case !accepted && r.accept == "yes":
				u.Violate("cli/valid-interval-rejected", fmt.Sprintf("--update-interval=%q was rejected; output: %s", r.s, firstN(r.out, 400)), nil)
			}
		}
		u.Sample("vipnode agent --rpc fakenode://… --update-interval=<s> :memory: for 13 interval strings")
	}}
}

func init() {
	vh.Register(&vh.Check{
		ID: "C20", Level: "model_checking",
		Technique: "explicit-state search over lifecycle event histories on the real Agent (Start/Stop/Wait/UpdatePeers/serveUpdates with its ticker, channels and mutex under the controlled scheduler on a virtual clock; live keep-alive loops counted by the scheduler's thread accounting) + delay-bounded schedule DFS of concurrent lifecycle calls + the real binary for the interval flag",
		Rule:      "all histories over {start, stop (while running), wait (after a loop ended), forced update, one interval elapsing, start against a refusing pool, next keep-alive failing} up to the depth bound, pruned on the lifecycle model state; after every event: number of live loops == model, second start refused without touching the pool, exactly one keep-alive per interval per running loop, Wait returns the loop's result, restart works; races: start‖start, stop‖tick, wait‖stop, stop‖forced update within the delay bound; CLI: 13 interval strings",
		Assumptions: []string{
			"Stop on an agent with no running loop is not exercised (the statement speaks of stopping a running agent)",
			"exactly 5s (the lower bound) is not judged",
		},
		Units: func(tier string) []vh.Unit {
			depth, bound := 6, 2
			if tier == "thorough" {
				depth, bound = 10, 4
			}
			us := []vh.Unit{c20Histories(depth, 0), c20Histories(depth-1, 12*time.Second), c20CLI(), c20BinaryCadence()}
			for _, sc := range []string{"start-start", "start-start-stop", "stop-vs-tick", "wait-vs-stop", "stop-vs-update", "stop-vs-start"} {
				us = append(us, c20Race(sc, bound))
			}
			return us
		},
	})
}

// lockedBuf is a concurrency-safe output buffer for a child process.
type lockedBuf struct {
	mu sync.Mutex
	b  strings.Builder
}

func (l *lockedBuf) Write(p []byte) (int, error) {
	l.mu.Lock()
	defer l.mu.Unlock()
	return l.b.Write(p)
}

func (l *lockedBuf) String() string {
	l.mu.Lock()
	defer l.mu.Unlock()
	return l.b.String()
}

// the agent binary keeps the cadence its --update-interval flag asks for: against a pool the
// harness serves, `--update-interval=6s` produces keep-alives neither much faster (at most one per
// full interval elapsed since the process started, plus the one at start-up) nor much slower (the
// fourth within 100 s - the default of 60 s would need three minutes)
func c20BinaryCadence() vh.Unit {
	return vh.Unit{Name: "wire/agent-binary-cadence", Run: func(u *vh.U) {
		bin := vh.VipnodeBin()
		if bin == "" {
			u.R.Infra = "VERIF_VIPNODE_BIN not set"
			return
		}
		dir := vh.Scratch("c20bin-")
		defer os.RemoveAll(dir)
		id := vh.Identities()[0]
		keyfile := filepath.Join(dir, "nodekey")
		os.WriteFile(keyfile, []byte(hex.EncodeToString(crypto.FromECDSA(id.Key))), 0600)
		ln, err := net.Listen("tcp", "127.0.0.1:0")
		if err != nil {
			u.R.Infra = err.Error()
			return
		}
		defer ln.Close()
		var mu sync.Mutex
		var arrivals []time.Time
		up := websocket.Upgrader{CheckOrigin: func(*http.Request) bool { return true }}
		srv := &http.Server{Handler: http.HandlerFunc(func(w http.ResponseWriter, r *http.Request) {
			conn, err := up.Upgrade(w, r, nil)
			if err != nil {
				return
			}
			defer conn.Close()
			for {
				_, data, err := conn.ReadMessage()
				if err != nil {
					return
				}
				var m struct {
					ID     json.RawMessage `json:"id"`
					Method string          `json:"method"`
				}
				if json.Unmarshal(data, &m) != nil || m.Method == "" {
					continue
				}
				if m.Method == "vipnode_update" {
					mu.Lock()
					arrivals = append(arrivals, time.Now())
					mu.Unlock()
				}
				result := `{}`
				if m.Method == "vipnode_connect" {
					result = `{"pool_version":"verif"}`
				}
				if conn.WriteMessage(websocket.TextMessage, []byte(fmt.Sprintf(`{"jsonrpc":"2.0","id":%s,"result":%s}`, string(m.ID), result))) != nil {
					return
				}
			}
		})}
		go srv.Serve(ln)
		defer srv.Close()
		const interval = 6 * time.Second
		started := time.Now()
		cmd := exec.Command(bin, "-vv", "agent", "--rpc", "fakenode://"+id.NodeID+"@x", "--nodekey", keyfile, "--update-interval=6s", "ws://"+ln.Addr().String())
		cmd.Env = append(os.Environ(), "HOME="+dir)
		cmd.SysProcAttr = &syscall.SysProcAttr{Setpgid: true, Pdeathsig: syscall.SIGKILL}
		var out lockedBuf
		cmd.Stdout, cmd.Stderr = &out, &out
		if err := cmd.Start(); err != nil {
			u.R.Infra = err.Error()
			return
		}
		exited := make(chan struct{})
		go func() { cmd.Wait(); close(exited) }()
		defer func() {
			syscall.Kill(-cmd.Process.Pid, syscall.SIGKILL)
			<-exited
		}()
		count := func() int {
			mu.Lock()
			defer mu.Unlock()
			return len(arrivals)
		}
		deadline := time.Now().Add(100 * time.Second)
		for count() < 4 && time.Now().Before(deadline) {
			select {
			case <-exited:
				u.Violate("cli/agent-exited", "the agent exited: "+firstN(out.String(), 500), nil)
				return
			case <-time.After(100 * time.Millisecond):
			}
		}
		n := count()
		elapsed := time.Since(started)
		u.R.Evaluations++
		u.R.States++
		u.R.Transitions += int64(n)
		u.R.Traces++
		u.Observe(fmt.Sprintf("cadence: 4 keep-alives reached=%v", n >= 4))
		if n < 4 {
			u.Violate("cli/keepalives-slower-than-configured", fmt.Sprintf("vipnode agent --update-interval=6s: %d keep-alives in %s (the fourth is due after 18 s)", n, elapsed.Round(time.Second)), nil)
			return
		}
		// let two more intervals pass, then count: never more than one per full interval since the
		// process was started, plus the one sent at start-up
		time.Sleep(2 * interval)
		n = count()
		elapsed = time.Since(started)
		max := int(elapsed/interval) + 1
		u.Observe(fmt.Sprintf("cadence: within bound=%v", n <= max))
		if n > max {
			u.Violate("cli/keepalives-faster-than-configured", fmt.Sprintf("vipnode agent --update-interval=6s: %d keep-alives within %s of the process starting, at most %d can be due", n, elapsed.Round(time.Millisecond), max), nil)
		}
		u.Sample(fmt.Sprintf("agent binary with --update-interval=6s against a served pool: %d keep-alives in %s", n, elapsed.Round(time.Second)))
	}}
}
