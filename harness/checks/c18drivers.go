//go:build go1.21

package checks

import (
	"context"
	"encoding/hex"
	"encoding/json"
	"errors"
	"fmt"
	"net"
	"net/http"
	"os"
	"os/exec"
	"path/filepath"
	"strings"
	"sync"
	"syscall"
	"time"

	"github.com/ethereum/go-ethereum/crypto"
	"github.com/gorilla/websocket"
	"github.com/vipnode/vipnode/v2/pool"

	"github.com/ethereum/go-ethereum/rpc"
	"github.com/vipnode/vipnode/v2/ethnode"
	"github.com/vipnode/vipnode/v2/internal/verif/vh"
	"github.com/vipnode/vipnode/v2/internal/verif/vsched"
)

// The node drivers: the agent reaches its Ethereum node through ethnode.RemoteNode, which detects
// the client and translates each EthNode call into that client's JSON-RPC dialect (admin_* for
// geth, parity_* for Parity, whose peer list has its own shape). c18RPCNode serves those dialects
// from a real go-ethereum RPC server, in process, on top of the recording node: every round of the
// rounds below then runs agent -> real driver -> RPC -> recording node, and is judged as before.

type c18Web3 struct{ n *recNode }

func (s *c18Web3) ClientVersion() string {
	switch s.n.kind {
	case ethnode.Parity:
		return "Parity-Ethereum//v2.5.0-beta-b52ac20-20190408/x86_64-linux-gnu/rustc1.33.0"
	case ethnode.Pantheon:
		return "pantheon/v1.1.0/linux-x86_64/oracle-java-1.8"
	}
	return "Geth/v1.9.0-stable/linux-amd64/go1.12"
}

type c18Eth struct{ n *recNode }

func (s *c18Eth) ProtocolVersion() string {
	switch {
	case s.n.full:
		return "63"
	case s.n.kind == ethnode.Parity:
		return "1"
	}
	return "10002"
}
func (s *c18Eth) BlockNumber() string { return "0x2a" }

type c18Net struct{}

func (c18Net) Version() string { return "1" }

type c18Admin struct{ n *recNode }

func c18IDOf(uri string) string {
	id, _, _ := c18Parse(uri)
	return id
}

func (s *c18Admin) AddPeer(uri string) (bool, error) {
	return true, s.n.ConnectPeer(context.Background(), uri)
}
func (s *c18Admin) RemovePeer(uri string) (bool, error) {
	return true, s.n.DisconnectPeer(context.Background(), c18IDOf(uri))
}
func (s *c18Admin) AddTrustedPeer(uri string) (bool, error) {
	return true, s.n.AddTrustedPeer(context.Background(), c18IDOf(uri))
}
func (s *c18Admin) RemoveTrustedPeer(uri string) (bool, error) {
	return true, s.n.RemoveTrustedPeer(context.Background(), c18IDOf(uri))
}
func (s *c18Admin) Peers() []ethnode.PeerInfo {
	ps, _ := s.n.Peers(context.Background())
	for i := range ps {
		if ps[i].Protocols == nil {
			ps[i].Protocols = map[string]json.RawMessage{"eth": json.RawMessage(`{"version":63}`)}
		}
	}
	return ps
}
func (s *c18Admin) NodeInfo() map[string]string {
	return map[string]string{"enode": "enode://" + s.n.id + "@203.0.113.1:30303", "id": s.n.id}
}

type c18ParityAPI struct{ n *recNode }

func (s *c18ParityAPI) Enode() string { return "enode://" + s.n.id + "@203.0.113.1:30303" }
func (s *c18ParityAPI) AddReservedPeer(uri string) (bool, error) {
	if uri == "" {
		return false, errors.New("Invalid node address format given for a boot node:")
	}
	return true, s.n.ConnectPeer(context.Background(), uri)
}

// (Parity has one call for "no longer reserved" and "drop": the driver uses it for both)
func (s *c18ParityAPI) RemoveReservedPeer(uri string) (bool, error) {
	id := c18IDOf(uri)
	if err := s.n.RemoveTrustedPeer(context.Background(), id); err != nil {
		return false, err
	}
	return true, s.n.DisconnectPeer(context.Background(), id)
}
func (s *c18ParityAPI) NetPeers() json.RawMessage {
	ps, _ := s.n.Peers(context.Background())
	var items []string
	for i, p := range ps {
		// both shapes of the name Parity versions report
		name := `"Parity/v1.8.0-beta-9882902-20171015/x86_64-linux-gnu/rustc1.21.0"`
		if i%2 == 0 {
			name = `{"ParityClient":{"can_handle_large_requests":true,"compiler":"rustc1.33.0","identity":null,"name":"Parity-Ethereum","os":"x86_64-linux-gnu","semver":"2.5.0-beta-b52ac20-20190408"}}`
		}
		items = append(items, fmt.Sprintf(`{"id":%q,"name":%s,"caps":["eth/62","eth/63","par/1","pip/1"],"network":{"localAddress":"10.0.0.2:41980","remoteAddress":%q},"protocols":{"eth":{"version":63},"pip":null}}`, p.EnodeID(), name, p.Network.RemoteAddress))
	}
	// a peer still in its handshake (no protocols yet) is not a peer
	items = append(items, `{"id":null,"name":"","caps":[],"network":{"localAddress":"10.0.0.2:41981","remoteAddress":"Handshake"},"protocols":{}}`)
	return json.RawMessage(fmt.Sprintf(`{"active":%d,"connected":%d,"max":25,"peers":[%s]}`, len(ps), len(ps), strings.Join(items, ",")))
}

// c18RPCNode returns the real driver for the recording node's kind, and a function releasing it.
func c18RPCNode(n *recNode) (ethnode.EthNode, func(), error) {
	srv := rpc.NewServer()
	for ns, svc := range map[string]interface{}{"web3": &c18Web3{n}, "eth": &c18Eth{n}, "net": c18Net{}, "admin": &c18Admin{n}, "parity": &c18ParityAPI{n}} {
		if n.kind == ethnode.Parity && ns == "admin" || n.kind != ethnode.Parity && ns == "parity" {
			continue
		}
		if err := srv.RegisterName(ns, svc); err != nil {
			return nil, nil, err
		}
	}
	client := rpc.DialInProc(srv)
	node, err := ethnode.RemoteNode(client)
	if err != nil {
		client.Close()
		srv.Stop()
		return nil, nil, err
	}
	n.calls = nil // (the compatibility probe)
	return node, func() { client.Close(); srv.Stop() }, nil
}

// rounds through the real drivers
func c18Drivers(shard, nshards int) vh.Unit {
	name := fmt.Sprintf("node-drivers/%d", shard)
	return vh.Unit{Name: name, Run: func(u *vh.U) {
		vsched.SetVirtualClock(false)
		invalids := [][]string{nil, {c18Ids[0]}, {"enode://" + c18Ids[0] + "@1.2.3.4:30303"}, {c18Ids[1], "enode://" + c18Ids[4] + "@5.5.5.5:1"}}
		idx := 0
		for _, s0 := range c18States[0] {
			for _, s1 := range []string{"absent", "local+same", "local+otherhost", "listed-only"} {
				for _, s2 := range []string{"absent", "local", "local+same"} {
					for _, inv := range invalids {
						for _, strict := range []bool{false, true} {
							for _, kf := range []struct {
								k ethnode.NodeKind
								f bool
							}{{ethnode.Geth, false}, {ethnode.Geth, true}, {ethnode.Parity, false}, {ethnode.Parity, true}} {
								for _, target := range []int{0, 3} {
									idx++
									if idx%nshards != shard {
										continue
									}
									if !u.Thorough() && (idx/nshards)%2 != 0 {
										continue
									}
									if u.Expired() {
										return
									}
									ef := 0
									if kf.k == ethnode.Geth {
										ef = (idx / nshards) % 4
									}
									r := c18Round{states: [4]string{s0, s1, s2, "absent"}, invalid: inv, strict: strict, target: target, kind: kf.k, full: kf.f, nHosts: 2, enodeForm: ef, driver: "rpc"}
									node, sp, a := c18Setup(r)
									driver, release, err := c18RPCNode(node)
									if err != nil {
										u.Violate("agent/driver-setup-failed", fmt.Sprintf("%s: %v", r, err), nil)
										return
									}
									a.EthNode = driver
									if ua := driver.UserAgent(); ua.Kind != kf.k || ua.IsFullNode != kf.f {
										release()
										u.Violate("agent/driver-misdetected-node", fmt.Sprintf("%s: detected %+v", r, ua), nil)
										return
									}
									if err := c18Start(a, sp, r); err != nil {
										release()
										u.Violate("agent/start-failed", fmt.Sprintf("%s: %v", r, err), nil)
										return
									}
									u.R.Evaluations++
									u.R.States++
									u.R.Transitions++
									u.R.Traces++
									ok := c18Run(u, r, node, true, a, sp)
									a.Stop()
									release()
									u.Observe(fmt.Sprintf("driver %s full=%v strict=%v %d %d %v", kf.k, kf.f, strict, len(inv), len(node.calls), ok))
									if !ok {
										return
									}
								}
							}
						}
					}
				}
			}
		}
		u.Sample("agent -> ethnode.RemoteNode (geth / parity dialect) -> in-process go-ethereum RPC server -> recording node")
	}}
}

// a node that refuses one kind of call (a geth without admin_removeTrustedPeer, a node that will
// not un-trust a peer it never trusted ...): the other half of the job is still done for every peer
func c18NodeFaults() vh.Unit {
	return vh.Unit{Name: "node-call-failures", Run: func(u *vh.U) {
		vsched.SetVirtualClock(false)
		invalids := [][]string{{c18Ids[0]}, {"enode://" + c18Ids[0] + "@1.2.3.4:30303"}, {c18Ids[1], c18Ids[0]}, {c18Ids[1], "enode://" + c18Ids[4] + "@5.5.5.5:1"}, nil}
		for _, fail := range []string{"untrust", "disconnect"} {
			for _, s0 := range []string{"local", "local+same", "local+otherhost", "absent"} {
				for _, s1 := range []string{"local", "local+same", "absent"} {
					for _, inv := range invalids {
						for _, strict := range []bool{false, true} {
							for _, driver := range []string{"", "rpc"} {
								r := c18Round{states: [4]string{s0, s1, "local+same", "absent"}, invalid: inv, strict: strict, target: 0, kind: ethnode.Geth, full: false, nodeFail: fail, driver: driver}
								node, sp, a := c18Setup(r)
								release := func() {}
								if driver == "rpc" {
									d, rel, err := c18RPCNode(node)
									if err != nil {
										u.Violate("agent/driver-setup-failed", fmt.Sprintf("%s: %v", r, err), nil)
										return
									}
									a.EthNode, release = d, rel
								}
								if err := c18Start(a, sp, r); err != nil {
									release()
									u.Violate("agent/start-failed", fmt.Sprintf("%s: %v", r, err), nil)
									return
								}
								node.fail = fail
								u.R.Evaluations++
								u.R.States++
								u.R.Transitions++
								u.R.Traces++
								ok := c18Run(u, r, node, true, a, sp)
								node.fail = ""
								a.Stop()
								release()
								u.Observe(fmt.Sprintf("node refuses %s strict=%v %d %d %v", fail, strict, len(inv), len(node.calls), ok))
								if !ok {
									return
								}
							}
						}
					}
				}
			}
		}
		u.Sample("rounds on a node whose un-trust (or disconnect) calls all fail: every declared-invalid peer still gets the other call")
	}}
}

// strict peering across address families: a peer connected from address A and listed by the pool
// under address B is kept iff A and B are the same host - for private, carrier-grade, link-local,
// unique-local and public addresses alike (ports never matter)
func c18AddressFamilies() vh.Unit {
	return vh.Unit{Name: "address-families", Run: func(u *vh.U) {
		vsched.SetVirtualClock(false)
		hosts := []string{"10.0.0.9", "10.0.0.5", "192.168.1.4", "172.16.5.5", "100.64.0.7", "169.254.3.3", "8.8.4.4", "[fd00::1]", "[fd00::2]", "[fe80::1]", "[2001:db8::7]",
			// names, and the addresses that mean "no particular host"
			"node-a.example.org", "node-b.example.org", "localhost", "127.0.0.1", "[::1]", "0.0.0.0"}
		for _, a := range hosts {
			for _, b := range hosts {
				for _, ports := range [][2]string{{"30303", "30303"}, {"30303", "1234"}} {
					for _, strict := range []bool{true, false} {
						r := c18Round{states: [4]string{"local+same", "absent", "absent", "absent"}, strict: strict, target: 0, kind: ethnode.Geth,
							localAddr0: a + ":" + ports[0], activeEntry0: "enode://" + c18Ids[0] + "@" + b + ":" + ports[1]}
						node, sp, ag := c18Setup(r)
						if err := c18Start(ag, sp, r); err != nil {
							u.Violate("agent/start-failed", err.Error(), nil)
							return
						}
						u.R.Evaluations++
						u.R.States++
						u.R.Transitions++
						u.R.Traces++
						ok := c18Run(u, r, node, true, ag, sp)
						ag.Stop()
						u.Observe(fmt.Sprintf("families %s %s strict=%v dropped=%v", a, b, strict, len(node.calls) > 0))
						if !ok {
							return
						}
					}
				}
			}
		}
		u.Sample("17 x 17 host pairs (address families, DNS names, loopback / unspecified) x same/other port x strict on/off")
	}}
}

// The agent *binary*: `vipnode agent --rpc <node> --nodekey <key> [--strict-peers] --min-peers N
// <pool>` against a node and a pool the harness serves - the recording node behind a real geth-
// dialect RPC endpoint (HTTP), the scripted pool behind a WebSocket. The first keep-alive round of
// the started process is judged exactly like the in-process rounds, so the wiring of the flags
// (strict mode, target, node key) into the agent is part of what is checked.
func c18AgentBinary() vh.Unit {
	return vh.Unit{Name: "wire/agent-binary-rounds", Run: func(u *vh.U) {
		bin := vh.VipnodeBin()
		if bin == "" {
			u.R.Infra = "VERIF_VIPNODE_BIN not set"
			return
		}
		dir := vh.Scratch("c18bin-")
		defer os.RemoveAll(dir)
		self := vh.Identities()[0]
		keyfile := filepath.Join(dir, "nodekey")
		os.WriteFile(keyfile, []byte(hex.EncodeToString(crypto.FromECDSA(self.Key))), 0600)
		invalids := [][]string{nil, {c18Ids[0]}, {c18Ids[1], "enode://" + c18Ids[4] + "@5.5.5.5:1"}}
		for _, strict := range []bool{false, true} {
			for _, target := range []int{0, 3} {
				for ii, inv := range invalids {
					states := [4]string{"local+same", "local+otherhost", "local", "absent"}
					if ii == 2 {
						states = [4]string{"local", "local+same", "absent", "local+bare"}
					}
					r := c18Round{states: states, invalid: inv, strict: strict, target: target, kind: ethnode.Geth, full: false, nHosts: 2, driver: "binary"}
					if infra := c18AgentBinaryRound(u, bin, dir, keyfile, self, r); infra != "" {
						u.R.Infra = infra
						return
					}
					if u.NViolations() > 0 {
						return
					}
				}
			}
		}
		u.Sample("vipnode agent binary against a served geth-dialect node and a scripted WebSocket pool: strict on/off x min-peers 0/3 x 3 invalid lists")
	}}
}

func c18AgentBinaryRound(u *vh.U, bin, dir, keyfile string, self *vh.Ident, r c18Round) (infra string) {
	node, sp, _ := c18Setup(r)
	node.id = self.NodeID
	var spMu sync.Mutex
	firstUpdateAnswered := make(chan struct{})
	var once sync.Once
	// the node: geth dialect over HTTP
	rpcSrv := rpc.NewServer()
	defer rpcSrv.Stop()
	for ns, svc := range map[string]interface{}{"web3": &c18Web3{node}, "eth": &c18Eth{node}, "net": c18Net{}, "admin": &c18Admin{node}} {
		if err := rpcSrv.RegisterName(ns, svc); err != nil {
			return err.Error()
		}
	}
	nodeLn, err := net.Listen("tcp", "127.0.0.1:0")
	if err != nil {
		return err.Error()
	}
	nodeHTTP := &http.Server{Handler: rpcSrv}
	go nodeHTTP.Serve(nodeLn)
	defer nodeHTTP.Close()
	// the pool: scripted, over WebSocket
	poolLn, err := net.Listen("tcp", "127.0.0.1:0")
	if err != nil {
		return err.Error()
	}
	up := websocket.Upgrader{CheckOrigin: func(*http.Request) bool { return true }}
	poolHTTP := &http.Server{Handler: http.HandlerFunc(func(w http.ResponseWriter, req *http.Request) {
		conn, err := up.Upgrade(w, req, nil)
		if err != nil {
			return
		}
		defer conn.Close()
		for {
			_, data, err := conn.ReadMessage()
			if err != nil {
				return
			}
			var m struct {
				ID     json.RawMessage   `json:"id"`
				Method string            `json:"method"`
				Params []json.RawMessage `json:"params"`
			}
			if json.Unmarshal(data, &m) != nil || m.Method == "" {
				continue
			}
			var result interface{} = struct{}{}
			var rerr error
			spMu.Lock()
			switch m.Method {
			case "vipnode_connect":
				result, rerr = sp.Connect(context.Background(), pool.ConnectRequest{})
			case "vipnode_update":
				var q pool.UpdateRequest
				if len(m.Params) == 4 {
					json.Unmarshal(m.Params[3], &q)
				}
				result, rerr = sp.Update(context.Background(), q)
			case "vipnode_peer":
				var q pool.PeerRequest
				if len(m.Params) == 4 {
					json.Unmarshal(m.Params[3], &q)
				}
				result, rerr = sp.Peer(context.Background(), q)
			}
			spMu.Unlock()
			var reply []byte
			if rerr != nil {
				reply, _ = json.Marshal(map[string]interface{}{"jsonrpc": "2.0", "id": m.ID, "error": map[string]interface{}{"code": -32603, "message": rerr.Error()}})
			} else {
				reply, _ = json.Marshal(map[string]interface{}{"jsonrpc": "2.0", "id": m.ID, "result": result})
			}
			if conn.WriteMessage(websocket.TextMessage, reply) != nil {
				return
			}
			if m.Method == "vipnode_update" {
				once.Do(func() { close(firstUpdateAnswered) })
			}
		}
	})}
	go poolHTTP.Serve(poolLn)
	defer poolHTTP.Close()

	// when is the round complete (the verdict itself is c18RunExec's)
	expected := map[string]bool{}
	for _, e := range sp.update.InvalidPeers {
		id, _, _ := c18Parse(e)
		expected[id] = true
	}
	nActive := len(sp.update.ActivePeers)
	complete := func() bool {
		node.mu.Lock()
		calls := append([]string{}, node.calls...)
		node.mu.Unlock()
		spMu.Lock()
		nReq := len(sp.peerReqs)
		spMu.Unlock()
		seen := map[string]bool{}
		connects := 0
		for _, c := range calls {
			seen[c] = true
			if strings.HasPrefix(c, "connect:") {
				connects++
			}
		}
		for id := range expected {
			if !seen["untrust:"+id] || !seen["disconnect:"+id] {
				return false
			}
		}
		if r.target-nActive > 0 && (nReq == 0 || connects < r.nHosts) {
			return false
		}
		return true
	}
	run := func() error {
		args := []string{"-vv", "agent", "--rpc", "http://" + nodeLn.Addr().String(), "--nodekey", keyfile, "--update-interval=100s", fmt.Sprintf("--min-peers=%d", r.target)}
		if r.strict {
			args = append(args, "--strict-peers")
		}
		args = append(args, "ws://"+poolLn.Addr().String())
		cmd := exec.Command(bin, args...)
		cmd.Env = append(os.Environ(), "HOME="+dir)
		cmd.SysProcAttr = &syscall.SysProcAttr{Setpgid: true, Pdeathsig: syscall.SIGKILL}
		var out lockedBuf
		cmd.Stdout, cmd.Stderr = &out, &out
		if err := cmd.Start(); err != nil {
			return err
		}
		exited := make(chan struct{})
		go func() { cmd.Wait(); close(exited) }()
		defer func() {
			syscall.Kill(-cmd.Process.Pid, syscall.SIGKILL)
			<-exited
		}()
		select {
		case <-firstUpdateAnswered:
		case <-exited:
			return fmt.Errorf("the agent exited before its first keep-alive: %s", firstN(out.String(), 500))
		case <-time.After(3 * time.Minute):
			return fmt.Errorf("no keep-alive from the agent within 3 minutes: %s", firstN(out.String(), 500))
		}
		// up to 90 s for what must happen, then a moment more for what must not
		for i := 0; i < 900 && !complete(); i++ {
			time.Sleep(100 * time.Millisecond)
		}
		time.Sleep(700 * time.Millisecond)
		return nil
	}
	u.R.Evaluations++
	u.R.States++
	u.R.Transitions++
	u.R.Traces++
	ok := c18RunExec(u, r, node, sp, run)
	u.Observe(fmt.Sprintf("binary strict=%v target=%d invalid=%d ok=%v", r.strict, r.target, len(r.invalid), ok))
	return ""
}

// "a failed keep-alive call changes nothing on the node" - also when the failing keep-alive is one
// of the agent's own periodic ones (the loop ends with that error): the running agent under the
// controlled scheduler, the pool failing the n-th periodic keep-alive
func c18FailedPeriodicKeepAlive() vh.Unit {
	return vh.Unit{Name: "failed-periodic-keep-alive", Run: func(u *vh.U) {
		for _, strict := range []bool{false, true} {
			for failAt := 1; failAt <= 3; failAt++ {
				var calls []string
				var peersLeft int
				var waitErr error
				s := vsched.Run(vsched.Options{Drain: false, MaxTime: 24 * time.Hour}, func() {
					w := c20New()
					w.a.StrictPeers = strict
					for i := 0; i < 3; i++ {
						p := ethnode.PeerInfo{ID: c18Ids[i]}
						p.Network.RemoteAddress = c18Addrs[0]
						w.node.peers = append(w.node.peers, p)
						w.sp.update.ActivePeers = append(w.sp.update.ActivePeers, "enode://"+c18Ids[i]+"@"+c18Addrs[0])
					}
					if cls, detail := w.apply("start"); cls != "" {
						panic(cls + ": " + detail)
					}
					for i := 1; i < failAt; i++ {
						w.apply("tick")
					}
					w.node.calls = nil
					w.apply("failkeepalive")
					w.apply("tick")
					waitErr = w.a.Wait()
					calls = append([]string{}, w.node.calls...)
					peersLeft = len(w.node.peers)
				})
				u.R.Evaluations++
				u.R.States++
				u.R.Transitions += int64(len(s.Trace))
				u.R.Traces++
				u.Observe(fmt.Sprintf("failed periodic strict=%v at=%d calls=%d", strict, failAt, len(calls)))
				desc := fmt.Sprintf("running agent (strict=%v) with 3 peers the pool lists as active; the pool fails periodic keep-alive %d", strict, failAt)
				switch {
				case s.Panic != nil:
					u.Violate("agent/panic", fmt.Sprintf("%s: %v", desc, s.Panic), nil)
				case len(calls) != 0 || peersLeft != 3:
					u.Violate("agent/failed-keepalive-touched-node", fmt.Sprintf("%s: node calls %v, peers left %d (loop result: %v)", desc, abbrevCalls(calls), peersLeft, waitErr), nil)
				case waitErr == nil:
					u.Violate("agent/failed-keepalive-not-reported", desc+": Wait returned nil", nil)
				}
			}
		}
		u.Sample("the agent's loop under the controlled scheduler, the pool failing periodic keep-alive 1 / 2 / 3")
	}}
}
