//go:build go1.21

package checks

import (
	"context"
	"encoding/json"
	"fmt"
	"net/http/httptest"
	"reflect"
	"sort"
	"strings"
	"time"
	"unicode"

	"github.com/vipnode/vipnode/v2/internal/verif/vh"
	"github.com/vipnode/vipnode/v2/jsonrpc2"
	"github.com/vipnode/vipnode/v2/pool"
	"github.com/vipnode/vipnode/v2/pool/payment"
	"github.com/vipnode/vipnode/v2/pool/status"
)

// C16 — only registered RPC names are callable, with exactly their declared parameters.

// ToyInner's methods are promoted into ToyService's method set.
type ToyInner struct{ Calls map[string]int }

func (t *ToyInner) Deep(x int) int { t.Calls["Deep"]++; return x }

// ToyService is an instrumented receiver: every method counts its invocations.
type ToyService struct {
	*ToyInner
}

type ToyArg struct {
	A string `json:"a"`
	B int    `json:"b"`
}

func (t *ToyService) Foo(ctx context.Context, s string, n int) (string, error) {
	t.Calls["Foo"]++
	return s, nil
}
func (t *ToyService) Bar() error { t.Calls["Bar"]++; return nil }
func (t *ToyService) Opt(s string, p *int) error {
	t.Calls["Opt"]++
	return nil
}
func (t *ToyService) Obj(a ToyArg, list []string, f float64, b bool) (int, error) {
	t.Calls["Obj"]++
	return len(list), nil
}

// free-form JSON values: a parameter of interface type is a parameter like any other
func (t *ToyService) Any(v interface{}, n int) (string, error) {
	t.Calls["Any"]++
	return fmt.Sprint(v, n), nil
}
func (t *ToyService) CtxAny(ctx context.Context, v interface{}) (string, error) {
	t.Calls["CtxAny"]++
	return fmt.Sprint(v), nil
}
func (t *ToyService) URL() string    { t.Calls["URL"]++; return "u" }
func (t *ToyService) secret() string { t.Calls["secret"]++; return "s" }

type unexportedArg struct{ X int }

// Hidden takes an unexported argument type: not RPC-able.
func (t *ToyService) Hidden(a unexportedArg) error { t.Calls["Hidden"]++; return nil }

// OtherService: names of another receiver must not leak.
// BadService cannot be registered: one of its methods has a return layout the library does not
// support. A refused registration must leave nothing of the object callable.
type BadService struct{ Calls map[string]int }

func (b *BadService) Alpha() error           { b.Calls["Alpha"]++; return nil }
func (b *BadService) Beta() error            { b.Calls["Beta"]++; return nil }
func (b *BadService) Gamma() (string, error) { b.Calls["Gamma"]++; return "", nil }
func (b *BadService) Delta() error           { b.Calls["Delta"]++; return nil }
func (b *BadService) Epsilon() error         { b.Calls["Epsilon"]++; return nil }
func (b *BadService) Void()                  { b.Calls["Void"]++ }
func (b *BadService) Two() (int, int)        { b.Calls["Two"]++; return 0, 0 }

type OtherService struct{ Calls map[string]int }

func (o *OtherService) Quux() error { o.Calls["Quux"]++; return nil }

func lcfirst(s string) string {
	if s == "" {
		return s
	}
	r := []rune(s)
	r[0] = unicode.ToLower(r[0])
	return string(r)
}

var toyRPCable = []string{"Foo", "Bar", "Opt", "Obj", "URL", "Deep", "Any", "CtxAny"}

func c16Toy() vh.Unit {
	return vh.Unit{Name: "toy/names-and-allow-lists", Run: func(u *vh.U) {
		allowLists := [][]string{nil, {"foo"}, {"foo", "bar", "deep"}, {"nosuch"}, {"Foo"}, {"FOO"}, {"foo", "nosuch", "secret", "hidden"}, {"uRL"}, {"quux"}}
		for _, prefix := range []string{"", "toy_", "x."} {
			for _, allow := range allowLists {
				calls := map[string]int{}
				svc := &ToyService{ToyInner: &ToyInner{Calls: calls}}
				srv := &jsonrpc2.Server{}
				if err := srv.Register(prefix, svc, allow...); err != nil {
					u.Violate("toy/register-failed", fmt.Sprintf("Register(%q, allow=%v): %v", prefix, allow, err), nil)
					continue
				}
				expected := map[string]string{}
				for _, m := range toyRPCable {
					lc := lcfirst(m)
					ok := allow == nil
					for _, a := range allow {
						if a == lc {
							ok = true
						}
					}
					if ok {
						expected[prefix+lc] = m
					}
				}
				var cands []string
				for _, m := range append(append([]string{}, toyRPCable...), "secret", "Secret", "Hidden", "hidden", "Quux", "quux", "Calls", "ToyInner", "") {
					for _, p := range []string{prefix, "", "toy_", "other_"} {
						for _, v := range []string{m, lcfirst(m), strings.ToLower(m), strings.ToUpper(m)} {
							cands = append(cands, p+v)
						}
					}
				}
				sort.Strings(cands)
				for i, name := range cands {
					if i > 0 && cands[i-1] == name {
						continue
					}
					before := fmt.Sprint(calls)
					msg, _ := vh.ParseMessage(fmt.Sprintf(`{"jsonrpc":"2.0","id":1,"method":%q,"params":[]}`, name))
					var resp *jsonrpc2.Message
					if p := vh.Recover(func() { resp = srv.Handle(context.Background(), msg) }); p != "" {
						u.Violate("toy/panic", fmt.Sprintf("prefix %q allow %v name %q: %s", prefix, allow, name, p), nil)
						continue
					}
					u.R.Evaluations++
					u.R.States++
					u.R.Transitions++
					u.R.Traces++
					code := 0
					if resp.Response != nil && resp.Error != nil {
						code = resp.Error.Code
					}
					_, want := expected[name]
					callable := code != jsonrpc2.ErrCodeMethodNotFound
					u.Observe(fmt.Sprintf("%v %v %d", len(allow), want, code))
					if callable != want {
						cls := "unregistered-name-callable"
						if want {
							cls = "registered-name-not-found"
						}
						u.Violate("toy/"+cls, fmt.Sprintf("Register(%q, allow=%v): calling %q answered code %d; registered names: %v", prefix, allow, name, code, keysOf(expected)), nil)
					}
					if !want && fmt.Sprint(calls) != before {
						u.Violate("toy/unregistered-method-ran", fmt.Sprintf("Register(%q, allow=%v): calling %q ran a method: %v", prefix, allow, name, calls), nil)
					}
				}
			}
		}
		// a registration that is refused (on a server that already serves another object, and on an
		// empty one; with and without an allow-list naming the offending method): nothing of the
		// refused object is callable afterwards, the other object still is
		for _, withOther := range []bool{false, true} {
			for _, allow := range [][]string{nil, {"alpha", "void"}, {"void"}, {"alpha", "beta", "gamma", "delta", "epsilon", "two"}} {
				for rep := 0; rep < 6; rep++ { // (registration walks a map: several attempts)
					calls := map[string]int{}
					srv := &jsonrpc2.Server{}
					if withOther {
						if err := srv.Register("x_", &OtherService{Calls: calls}); err != nil {
							u.Violate("toy/register-failed", err.Error(), nil)
							continue
						}
					}
					err := srv.Register("x_", &BadService{Calls: calls}, allow...)
					u.R.Evaluations++
					u.R.States++
					u.R.Transitions++
					u.R.Traces++
					u.Observe(fmt.Sprintf("bad-service other=%v allow=%d refused=%v", withOther, len(allow), err != nil))
					if err == nil {
						continue // accepted as a whole (e.g. the allow-list left the offending methods out): not this case
					}
					for _, m := range []string{"alpha", "beta", "gamma", "delta", "epsilon", "void", "two"} {
						msg, _ := vh.ParseMessage(fmt.Sprintf(`{"jsonrpc":"2.0","id":1,"method":"x_%s","params":[]}`, m))
						var resp *jsonrpc2.Message
						if p := vh.Recover(func() { resp = srv.Handle(context.Background(), msg) }); p != "" {
							u.Violate("toy/panic", fmt.Sprintf("x_%s after a refused registration: %s", m, p), nil)
							continue
						}
						if resp.Response == nil || resp.Error == nil || resp.Error.Code != jsonrpc2.ErrCodeMethodNotFound || len(calls) != 0 {
							u.Violate("toy/refused-registration-left-methods-callable", fmt.Sprintf("Register(\"x_\", BadService, allow=%v) returned %q, yet x_%s answers %s (methods run: %v)", allow, err, m, vh.ShortJSON(resp), calls), nil)
							break
						}
					}
					if withOther {
						msg, _ := vh.ParseMessage(`{"jsonrpc":"2.0","id":1,"method":"x_quux","params":[]}`)
						if resp := srv.Handle(context.Background(), msg); resp.Response == nil || resp.Error != nil {
							u.Violate("toy/registered-name-not-found", fmt.Sprintf("after a refused registration of another object, x_quux answers %s", vh.ShortJSON(resp)), nil)
						}
						delete(calls, "Quux")
					}
				}
			}
		}
		u.Sample("Register(\"toy_\", svc, \"foo\",\"bar\",\"deep\") probed with every case/prefix variant of every method name")
	}}
}

func keysOf(m map[string]string) []string {
	var r []string
	for k := range m {
		r = append(r, k)
	}
	sort.Strings(r)
	return r
}

var jsonKinds = []string{`null`, `true`, `1`, `1.5`, `"s"`, `[]`, `{}`, `["a"]`, `{"a":"x","b":2}`}

// decodable: would encoding/json put value v into a fresh variable of type t?
func decodable(t reflect.Type, v string) bool {
	p := reflect.New(t)
	return json.Unmarshal([]byte(v), p.Interface()) == nil
}

// forms of the params member other than an array
var c16ParamForms = []string{``, `,"params":null`, `,"params":{}`, `,"params":{"a":1}`, `,"params":"x"`, `,"params":7`, `,"params":true`}

func c16Params() vh.Unit {
	return vh.Unit{Name: "toy/arity-and-types", Run: func(u *vh.U) {
		calls := map[string]int{}
		svc := &ToyService{ToyInner: &ToyInner{Calls: calls}}
		srv := &jsonrpc2.Server{}
		if err := srv.Register("", svc); err != nil {
			u.Violate("toy/register-failed", err.Error(), nil)
			return
		}
		methods := map[string][]reflect.Type{
			"foo":    {reflect.TypeOf(""), reflect.TypeOf(0)},
			"bar":    {},
			"opt":    {reflect.TypeOf(""), reflect.TypeOf((*int)(nil))},
			"obj":    {reflect.TypeOf(ToyArg{}), reflect.TypeOf([]string{}), reflect.TypeOf(1.5), reflect.TypeOf(true)},
			"uRL":    {},
			"deep":   {reflect.TypeOf(0)},
			"any":    {reflect.TypeOf((*interface{})(nil)).Elem(), reflect.TypeOf(0)},
			"ctxAny": {reflect.TypeOf((*interface{})(nil)).Elem()},
		}
		goName := map[string]string{"foo": "Foo", "bar": "Bar", "opt": "Opt", "obj": "Obj", "uRL": "URL", "deep": "Deep", "any": "Any", "ctxAny": "CtxAny"}
		for name, types := range methods {
			n := len(types)
			var combos [][]string
			for ar := 0; ar <= n+1; ar++ {
				// all kind combinations for small arities, one-position-at-a-time for 4+
				if ar <= 2 {
					var rec func(cur []string)
					rec = func(cur []string) {
						if len(cur) == ar {
							combos = append(combos, append([]string{}, cur...))
							return
						}
						for _, k := range jsonKinds {
							rec(append(cur, k))
						}
					}
					rec(nil)
				} else {
					valid := []string{`{"a":"x","b":2}`, `["a"]`, `1.5`, `true`, `1`}
					for pos := 0; pos < ar; pos++ {
						for _, k := range jsonKinds {
							c := append([]string{}, valid[:ar]...)
							c[pos] = k
							combos = append(combos, c)
						}
					}
				}
			}
			for _, c := range combos {
				before := calls[goName[name]]
				total := 0
				for _, v := range calls {
					total += v
				}
				text := fmt.Sprintf(`{"jsonrpc":"2.0","id":1,"method":%q,"params":[%s]}`, name, strings.Join(c, ","))
				msg, _ := vh.ParseMessage(text)
				var resp *jsonrpc2.Message
				if p := vh.Recover(func() { resp = srv.Handle(context.Background(), msg) }); p != "" {
					u.Violate("toy/panic", fmt.Sprintf("%s: %s", text, p), nil)
					continue
				}
				u.R.Evaluations++
				u.R.States++
				u.R.Transitions++
				u.R.Traces++
				code := 0
				if resp.Response != nil && resp.Error != nil {
					code = resp.Error.Code
				}
				ran := calls[goName[name]] - before
				total2 := 0
				for _, v := range calls {
					total2 += v
				}
				// expected
				hasNull := false
				ok := len(c) <= n
				for i, v := range c {
					if v == `null` {
						hasNull = true
					}
					if i < n && !decodable(types[i], v) {
						ok = false
					}
				}
				for i := len(c); i < n; i++ {
					if types[i].Kind() != reflect.Ptr {
						ok = false // a required argument is missing
					}
				}
				u.Observe(fmt.Sprintf("%s %d %v %d", name, len(c), ok, code))
				if hasNull {
					u.Count("null_positions_observed_not_judged", 1)
					if total2-total > 1 {
						u.Violate("toy/method-ran-twice", text, nil)
					}
					continue
				}
				switch {
				case !ok && code != jsonrpc2.ErrCodeInvalidParams:
					u.Violate("toy/bad-params-not-rejected", fmt.Sprintf("%s answered code %d, expected -32602", text, code), nil)
				case !ok && total2 != total:
					u.Violate("toy/method-ran-on-bad-params", fmt.Sprintf("%s: a method ran (%v)", text, calls), nil)
				case ok && (code != 0 || ran != 1 || total2-total != 1):
					u.Violate("toy/good-params-not-served", fmt.Sprintf("%s answered code %d, method ran %d times", text, code, ran), nil)
				}
			}
		}
		// the params member itself: absent, null, or not an array
		for name, types := range methods {
			required := 0
			for _, t := range types {
				if t.Kind() != reflect.Ptr {
					required++
				}
			}
			for _, form := range c16ParamForms {
				total := 0
				for _, v := range calls {
					total += v
				}
				text := fmt.Sprintf(`{"jsonrpc":"2.0","id":1,"method":%q%s}`, name, form)
				msg, _ := vh.ParseMessage(text)
				var resp *jsonrpc2.Message
				if p := vh.Recover(func() { resp = srv.Handle(context.Background(), msg) }); p != "" {
					u.Violate("toy/panic", fmt.Sprintf("%s: %s", text, p), nil)
					continue
				}
				u.R.Evaluations++
				u.R.States++
				u.R.Transitions++
				u.R.Traces++
				code := 0
				if resp != nil && resp.Response != nil && resp.Error != nil {
					code = resp.Error.Code
				}
				total2 := 0
				for _, v := range calls {
					total2 += v
				}
				u.Observe(fmt.Sprintf("%s params-form %q %d ran=%d", name, form, code, total2-total))
				if required == 0 {
					continue // nothing is missing: observed, not judged
				}
				if total2 != total {
					u.Violate("toy/method-ran-on-bad-params", fmt.Sprintf("%s: the method needs %d arguments, none were given, and it ran", text, required), nil)
				} else if code != jsonrpc2.ErrCodeInvalidParams {
					u.Violate("toy/bad-params-not-rejected", fmt.Sprintf("%s answered code %d, expected -32602", text, code), nil)
				}
			}
		}
		// over the HTTP server, one request after another: what a request is judged on is its own
		// content, whatever the previous request on that server carried
		hs := &jsonrpc2.HTTPServer{}
		if err := hs.Server.Register("", svc); err != nil {
			u.Violate("toy/register-failed", err.Error(), nil)
			return
		}
		post := func(body string) (int, string) {
			rec := httptest.NewRecorder()
			hs.ServeHTTP(rec, httptest.NewRequest("POST", "/", strings.NewReader(body)))
			r, err := vh.DecodeReply(rec.Body.String())
			if err != nil {
				return -1, rec.Body.String()
			}
			return r.Code(), rec.Body.String()
		}
		valid := map[string]string{"foo": `["x",1]`, "opt": `["x",null]`, "obj": `[{"a":"x","b":2},["a"],1.5,true]`, "deep": `[1]`, "any": `["x",1]`, "ctxAny": `["x"]`}
		for first, firstArgs := range valid {
			for second := range valid {
				for _, form := range c16ParamForms {
					if code, body := post(fmt.Sprintf(`{"jsonrpc":"2.0","id":1,"method":%q,"params":%s}`, first, firstArgs)); code != 0 {
						u.Violate("toy/good-params-not-served", fmt.Sprintf("over HTTP: %s(%s) answered %s", first, firstArgs, body), nil)
						return
					}
					total := 0
					for _, v := range calls {
						total += v
					}
					req := fmt.Sprintf(`{"jsonrpc":"2.0","id":2,"method":%q%s}`, second, form)
					code, body := post(req)
					total2 := 0
					for _, v := range calls {
						total2 += v
					}
					u.R.Evaluations++
					u.R.States++
					u.R.Transitions += 2
					u.R.Traces++
					u.Observe(fmt.Sprintf("http-seq %s then %s %q -> %d", first, second, form, code))
					if total2 != total {
						u.Violate("toy/method-ran-on-bad-params", fmt.Sprintf("over HTTP, after %s(%s): %s ran a method", first, firstArgs, req), nil)
						return
					}
					if code != jsonrpc2.ErrCodeInvalidParams {
						u.Violate("toy/bad-params-not-rejected", fmt.Sprintf("over HTTP, after %s(%s): %s answered %s, expected -32602", first, firstArgs, req, body), nil)
						return
					}
				}
			}
		}
		u.Sample(`{"method":"obj","params":[{"a":"x","b":2},["a"],1.5,true]} with every arity 0..5 and 9 JSON kinds per position`)
	}}
}

// production registration, in process: wrong arity / kinds never run a method (digest unchanged)
func c16Prod() vh.Unit {
	return vh.Unit{Name: "prod/arity-and-types-leave-state-untouched", Run: func(u *vh.U) {
		pw, srv, cast := c15World()
		for _, m := range vh.ProdMethods {
			n := c15Arity[m]
			valid := c15ValidArgs(m, cast)
			for ar := 0; ar <= n+1; ar++ {
				for pos := -1; pos < ar; pos++ {
					for _, k := range jsonKinds {
						if pos < 0 && k != jsonKinds[0] {
							continue
						}
						var c []string
						for i := 0; i < ar; i++ {
							if i < len(valid) {
								c = append(c, valid[i])
							} else {
								c = append(c, `1`)
							}
						}
						if pos >= 0 {
							c[pos] = k
						}
						before := poolDigest(pw, cast)
						text := fmt.Sprintf(`{"jsonrpc":"2.0","id":1,"method":%q,"params":[%s]}`, m, strings.Join(c, ","))
						msg, _ := vh.ParseMessage(text)
						var resp *jsonrpc2.Message
						if p := vh.Recover(func() { resp = srv.Handle(context.Background(), msg) }); p != "" {
							u.Violate("prod/panic", fmt.Sprintf("%s: %s", abbreviate(text), p), nil)
							continue
						}
						u.R.Evaluations++
						u.R.States++
						u.R.Transitions++
						u.R.Traces++
						code := 0
						if resp.Response != nil && resp.Error != nil {
							code = resp.Error.Code
						}
						u.Observe(fmt.Sprintf("%s %d %d", m, ar, code))
						if ar != n && code != jsonrpc2.ErrCodeInvalidParams {
							// fewer args are acceptable only for trailing pointer params; no production method has one
							u.Violate("prod/wrong-arity-not-rejected", fmt.Sprintf("%s answered code %d", abbreviate(text), code), nil)
						}
						if code == jsonrpc2.ErrCodeInvalidParams && poolDigest(pw, cast) != before {
							u.Violate("prod/method-ran-on-bad-params", abbreviate(text), nil)
						}
					}
				}
			}
		}
		for _, m := range vh.ProdMethods {
			if c15Arity[m] == 0 {
				continue
			}
			for _, form := range c16ParamForms {
				before := poolDigest(pw, cast)
				text := fmt.Sprintf(`{"jsonrpc":"2.0","id":1,"method":%q%s}`, m, form)
				msg, _ := vh.ParseMessage(text)
				var resp *jsonrpc2.Message
				if p := vh.Recover(func() { resp = srv.Handle(context.Background(), msg) }); p != "" {
					u.Violate("prod/panic", fmt.Sprintf("%s: %s", text, p), nil)
					continue
				}
				u.R.Evaluations++
				u.R.States++
				u.R.Transitions++
				u.R.Traces++
				code := 0
				if resp != nil && resp.Response != nil && resp.Error != nil {
					code = resp.Error.Code
				}
				u.Observe(fmt.Sprintf("%s params-form %q %d", m, form, code))
				if code != jsonrpc2.ErrCodeInvalidParams {
					u.Violate("prod/wrong-arity-not-rejected", fmt.Sprintf("%s (the method takes %d arguments) answered code %d", text, c15Arity[m], code), nil)
				}
				if poolDigest(pw, cast) != before {
					u.Violate("prod/method-ran-on-bad-params", text, nil)
				}
			}
		}
		u.Sample("vipnode_update with arities 0..5 and 9 JSON kinds per position against the production registration")
	}}
}

// the real binary: exactly the documented names are callable, over HTTP and over WebSocket
func c16Binary() vh.Unit {
	return vh.Unit{Name: "wire/binary-callable-set", Run: func(u *vh.U) {
		p, err := vh.StartPool()
		if err != nil {
			u.R.Infra = err.Error()
			return
		}
		defer p.Stop()
		ws, err := p.DialWS()
		if err != nil {
			u.Violate("wire/websocket-dial-failed", err.Error(), nil)
			return
		}
		defer ws.Close()
		var cands []string
		for _, recv := range []interface{}{&pool.VipnodePool{}, &payment.PaymentService{}, &status.PoolStatus{}} {
			t := reflect.TypeOf(recv)
			for i := 0; i < t.NumMethod(); i++ {
				cands = append(cands, t.Method(i).Name)
			}
		}
		cands = append(cands, "verify", "connect", "requestHosts", "disconnectPeers", "getStatus", "Disconnect", "whitelist", "Whitelist", "modules", "")
		documented := map[string]bool{}
		for _, m := range vh.ProdMethods {
			documented[m] = true
		}
		seen := map[string]bool{}
		callable := map[string]bool{}
		for _, m := range cands {
			for _, prefix := range []string{"vipnode_", "pool_", "", "rpc_"} {
				for _, v := range []string{lcfirst(m), m, strings.ToLower(m), strings.ToUpper(m)} {
					name := prefix + v
					if seen[name] {
						continue
					}
					seen[name] = true
					req := fmt.Sprintf(`{"jsonrpc":"2.0","id":7,"method":%q,"params":[]}`, name)
					_, body, err := p.Post(req)
					if err != nil || !p.Alive() {
						u.Violate("wire/pool-died", fmt.Sprintf("after %s: %v\n%s", req, err, firstN(p.Output(), 1500)), nil)
						return
					}
					r, derr := vh.DecodeReply(body)
					wsBody, werr := ws.Call(req, time.Minute)
					rw, derr2 := vh.DecodeReply(wsBody)
					u.R.Evaluations += 2
					u.R.States++
					u.R.Transitions += 2
					u.R.Traces += 2
					if derr != nil || werr != nil || derr2 != nil {
						u.Violate("wire/undecodable-reply", fmt.Sprintf("%s -> http %q (%v) ws %q (%v %v)", req, body, derr, wsBody, werr, derr2), nil)
						continue
					}
					isCallable := r.Code() != jsonrpc2.ErrCodeMethodNotFound
					u.Observe(fmt.Sprintf("%v %d", documented[name], r.Code()))
					if isCallable {
						callable[name] = true
					}
					if (rw.Code() != jsonrpc2.ErrCodeMethodNotFound) != isCallable {
						u.Violate("wire/http-and-websocket-disagree", fmt.Sprintf("%s: http code %d, websocket code %d", name, r.Code(), rw.Code()), nil)
					}
					if isCallable != documented[name] {
						cls := "undocumented-method-callable"
						if documented[name] {
							cls = "documented-method-missing"
						}
						u.Violate("wire/"+cls, fmt.Sprintf("the pool binary answers %q with code %d (%s)", name, r.Code(), body), nil)
					}
				}
			}
		}
		// wrong arity / kinds over the wire are invalid-params
		for _, m := range vh.ProdMethods {
			n := c15Arity[m]
			for ar := 0; ar <= n+1; ar++ {
				if ar == n {
					continue
				}
				args := make([]string, ar)
				for i := range args {
					args[i] = `"x"`
				}
				req := fmt.Sprintf(`{"jsonrpc":"2.0","id":8,"method":%q,"params":[%s]}`, m, strings.Join(args, ","))
				_, body, _ := p.Post(req)
				r, derr := vh.DecodeReply(body)
				u.R.Evaluations++
				u.R.Transitions++
				if derr != nil || r.Code() != jsonrpc2.ErrCodeInvalidParams {
					u.Violate("wire/wrong-arity-not-rejected", fmt.Sprintf("%s -> %s", req, body), nil)
				}
			}
		}
		for _, m := range vh.ProdMethods {
			if c15Arity[m] == 0 {
				continue
			}
			for _, form := range c16ParamForms {
				req := fmt.Sprintf(`{"jsonrpc":"2.0","id":9,"method":%q%s}`, m, form)
				_, body, _ := p.Post(req)
				r, derr := vh.DecodeReply(body)
				wsBody, werr := ws.Call(req, time.Minute)
				rw, derr2 := vh.DecodeReply(wsBody)
				u.R.Evaluations += 2
				u.R.Transitions += 2
				if derr != nil || r.Code() != jsonrpc2.ErrCodeInvalidParams {
					u.Violate("wire/wrong-arity-not-rejected", fmt.Sprintf("%s -> %s", req, body), nil)
				}
				if werr != nil || derr2 != nil || rw.Code() != jsonrpc2.ErrCodeInvalidParams {
					u.Violate("wire/wrong-arity-not-rejected", fmt.Sprintf("%s over WebSocket -> %s (%v)", req, wsBody, werr), nil)
				}
			}
		}
		u.Sample(fmt.Sprintf("callable over HTTP and WebSocket: %v", keysOfB(callable)))
	}}
}

func keysOfB(m map[string]bool) []string {
	var r []string
	for k := range m {
		r = append(r, k)
	}
	sort.Strings(r)
	return r
}

func init() {
	vh.Register(&vh.Check{
		ID: "C16", Level: "model_checking",
		Technique: "exhaustive enumeration of receivers x allow-lists x candidate names (every case / prefix variant of every method, unexported and promoted methods, other receivers' names) and of arities x JSON kinds per position on instrumented receivers, on the production registration in process, and against the real pool binary over HTTP and WebSocket",
		Rule:      "toy: 3 prefixes x 9 allow-lists x ~150 candidate names; 6 methods x arities 0..n+1 x 9 JSON kinds per position (full product up to arity 2, one position at a time above); production: 10 methods x arities x kinds with a pool digest before/after; binary: every exported method of VipnodePool / PaymentService / PoolStatus and guessed helper names x 4 prefixes x 4 spellings over both transports; distinct = (allow-list size, expected?, code) etc.; the agent binary's reverse-callable set (harness = pool end of its WebSocket; only vipnode_whitelist may answer); receivers with interface-typed parameters",
		Assumptions: []string{
			"a JSON null in a non-pointer parameter position is observed, not judged",
			"'wrongly typed' means encoding/json cannot decode the value into the declared Go type",
		},
		Units: func(tier string) []vh.Unit {
			return []vh.Unit{c16Toy(), c16Params(), c16Prod(), c16Binary(), c16AgentReverse()}
		},
	})
}
