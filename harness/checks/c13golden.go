//go:build go1.21

package checks

import (
	"encoding/json"
	"errors"
	"fmt"
	"math/big"
	"os"
	"os/exec"
	"path/filepath"
	"sort"
	"strings"

	"github.com/vipnode/vipnode/v2/internal/verif/vh"
	"github.com/vipnode/vipnode/v2/internal/verif/vsched"
	"github.com/vipnode/vipnode/v2/pool/store"
)

// A database written by the pinned (repaired) tree and committed under /verif/golden: the tree under
// test must open it - as the current format or through a migration - and read back what was
// acknowledged when it was written, and opening it again must change nothing. (The migration unit
// writes its databases with the driver under test and therefore cannot see a change of the record
// encoding that comes without a migration step.)

var c13GoldenOps = []string{"set a hg", "set b cl", "set c hp", "upd a b,c 7", "upd b a 9", "addnb a 5", "addnb b -3", "link W1 a", "addab W1 12", "link W2 c", "addab W2 -4", "nonce a n", "nonce W1 n+1"}

// errClass names an error by identity, not by wording.
func errClass(err error) string {
	switch {
	case err == nil:
		return "ok"
	case errors.Is(err, store.ErrNotAuthorized):
		return "not-authorized"
	case errors.Is(err, store.ErrUnregisteredNode):
		return "unregistered-node"
	case errors.Is(err, store.ErrInvalidNonce):
		return "invalid-nonce"
	}
	return "error"
}

func c13GoldenView(st store.Store) string {
	var out []string
	add := func(format string, a ...interface{}) {
		for i, x := range a {
			if e, ok := x.(error); ok || x == nil {
				a[i] = errClass(e)
			}
		}
		out = append(out, fmt.Sprintf(format, a...))
	}
	for _, id := range []store.NodeID{"a", "b", "c", "zz"} {
		n, err := st.GetNode(id)
		if err != nil {
			add("GetNode(%s): %s", id, err)
		} else {
			add("GetNode(%s): host=%v kind=%s uri=%s payout=%s block=%d lastSeen=%d", id, n.IsHost, n.Kind, n.URI, n.Payout, n.BlockNumber, n.LastSeen.UnixNano())
		}
		ps, err := st.NodePeers(id)
		var ids []string
		for _, p := range ps {
			ids = append(ids, fmt.Sprintf("%s@%d", p.ID, p.LastSeen.UnixNano()))
		}
		sort.Strings(ids)
		add("NodePeers(%s): %v err=%s", id, ids, err)
		b, err := st.GetNodeBalance(id)
		add("GetNodeBalance(%s): account=%q credit=%s err=%s", id, b.Account, b.Credit.String(), err)
		for _, w := range []store.Account{"W1", "W2"} {
			add("IsAccountNode(%s,%s): %s", w, id, st.IsAccountNode(w, id))
		}
	}
	for _, w := range []store.Account{"W1", "W2", "W3"} {
		b, err := st.GetAccountBalance(w)
		add("GetAccountBalance(%s): account=%q credit=%s err=%s", w, b.Account, b.Credit.String(), err)
		ns, err := st.GetAccountNodes(w)
		var ids []string
		for _, n := range ns {
			ids = append(ids, string(n))
		}
		sort.Strings(ids)
		add("GetAccountNodes(%s): %v err=%s", w, ids, err)
	}
	for _, kind := range []string{"", "geth", "parity"} {
		hs, err := st.ActiveHosts(kind, 10)
		var ids []string
		for _, h := range hs {
			ids = append(ids, string(h.ID))
		}
		sort.Strings(ids)
		add("ActiveHosts(%q): %v err=%s", kind, ids, err)
	}
	stats, err := st.Stats()
	if err != nil {
		add("Stats: %v", err)
	} else {
		add("Stats: hosts=%d/%d clients=%d/%d block=%d credit=%s trial=%d", stats.NumActiveHosts, stats.NumTotalHosts, stats.NumActiveClients, stats.NumTotalClients, stats.LatestBlockNumber, stats.TotalCredit.String(), stats.NumTrialBalances)
	}
	// accepted nonces stay accepted-only-once (probing consumes nothing new: both are refusals)
	add("replay nonce a: refused=%v", st.CheckAndSaveNonce("a", vh.NonceOfKind("n")) != nil)
	add("replay nonce W1: refused=%v", st.CheckAndSaveNonce("W1", vh.NonceOfKind("n+1")) != nil)
	return strings.Join(out, "\n")
}

func c13GoldenDir() string {
	return filepath.Join(os.Getenv("VERIF_ROOT_DIR"), "golden", "badger-v2")
}

func c13Golden() vh.Unit {
	return vh.Unit{Name: "golden-database", Run: func(u *vh.U) {
		vsched.SetVirtualClock(true)
		vsched.ResetClock(0)
		golden := c13GoldenDir()
		if make := os.Getenv("VERIF_MAKE_GOLDEN"); make != "" {
			// (maintenance: regenerate the fixture with the tree at hand; never part of a check run)
			os.RemoveAll(golden)
			os.MkdirAll(filepath.Join(golden, "db"), 0755)
			st, err := vh.OpenBadgerDir(filepath.Join(golden, "db"))
			if err != nil {
				u.R.Infra = err.Error()
				return
			}
			for _, op := range c13GoldenOps {
				if r := vh.ApplyStoreOp(st, op); !strings.HasPrefix(r, "ok") && !strings.HasPrefix(r, "inactive=") {
					u.R.Infra = "golden: " + op + ": " + r
					return
				}
			}
			view := c13GoldenView(st)
			st.Close()
			b, _ := json.MarshalIndent(map[string]interface{}{"ops": c13GoldenOps, "view": strings.Split(view, "\n")}, "", " ")
			os.WriteFile(filepath.Join(golden, "expected.json"), b, 0644)
			u.Note("golden database regenerated in " + golden)
			return
		}
		raw, err := os.ReadFile(filepath.Join(golden, "expected.json"))
		if err != nil {
			u.R.Infra = "golden fixture missing: " + err.Error()
			return
		}
		var exp struct {
			View []string `json:"view"`
		}
		json.Unmarshal(raw, &exp)
		want := strings.Join(exp.View, "\n")
		dir := vh.Scratch("c13gold-")
		defer os.RemoveAll(dir)
		if out, err := exec.Command("cp", "-r", filepath.Join(golden, "db"), filepath.Join(dir, "db")).CombinedOutput(); err != nil {
			u.R.Infra = fmt.Sprintf("copy: %v %s", err, out)
			return
		}
		var firstDump string
		for round := 1; round <= 3; round++ {
			vsched.ResetClock(0)
			st, err := vh.OpenBadgerDir(filepath.Join(dir, "db"))
			u.R.Evaluations++
			u.R.States++
			u.R.Transitions++
			u.R.Traces++
			if err != nil {
				u.Violate("golden/cannot-open", fmt.Sprintf("a database written by the pinned tree cannot be opened (attempt %d): %v", round, err), nil)
				return
			}
			var got string
			if p := vh.Recover(func() { got = c13GoldenView(st) }); p != "" {
				st.Close()
				u.Violate("golden/getter-panicked", p, nil)
				return
			}
			dump := nonNonceDump(st)
			st.Close()
			u.Observe(fmt.Sprintf("golden round %d same=%v", round, got == want))
			if got != want {
				u.Violate("golden/acknowledged-state-read-back-differently", fmt.Sprintf("a database written by the pinned tree (operations %v), opened by this tree (attempt %d), reads back differently:\n%s", c13GoldenOps, round, firstDiff(want, got)), nil)
				return
			}
			if round == 1 {
				firstDump = dump
			} else if dump != firstDump {
				u.Violate("golden/reopening-changed-the-database", fmt.Sprintf("opening the database a %d. time changed its records:\n%s", round, firstDiff(firstDump, dump)), nil)
				return
			}
		}
		u.Sample("golden badger database (13 operations, written by the pinned tree) opened three times: getters and records unchanged")
	}}
}

// nonNonceDump: every record except nonce records (they expire) and the format version.
func nonNonceDump(st store.Store) string {
	var out []string
	for _, l := range strings.Split(vh.BadgerDump(st), "\n") {
		if strings.HasPrefix(l, "vip:nonce:") || strings.HasPrefix(l, "vip:version") {
			continue
		}
		out = append(out, l)
	}
	return strings.Join(out, "\n")
}

func firstDiff(want, got string) string {
	w, g := strings.Split(want, "\n"), strings.Split(got, "\n")
	for i := 0; i < len(w) || i < len(g); i++ {
		a, b := "<nothing>", "<nothing>"
		if i < len(w) {
			a = w[i]
		}
		if i < len(g) {
			b = g[i]
		}
		if a != b {
			return fmt.Sprintf("  expected: %s\n  got:      %s", a, b)
		}
	}
	return ""
}

var _ = big.NewInt
