//go:build go1.21

package checks

import (
	"encoding/json"
	"fmt"
	"os"
	"path/filepath"
	"strings"
	"time"

	"github.com/vipnode/vipnode/v2/internal/verif/vh"
	"github.com/vipnode/vipnode/v2/pool"
)

// The pool binary itself, as an operator runs it (`vipnode pool --store=persist --datadir D`):
// after each prefix of a session of real signed requests the process is SIGKILLed (no Close) and
// started again on the same directory; everything the killed process had acknowledged must be
// there - the linked wallets and their balances, the node counts, and every accepted nonce (the
// very same requests, sent again, are refused).
func c13BinaryRestart() vh.Unit { return c13BinaryRestartMode("datadir") }

// mode "datadir": --datadir given. mode "default-dir": no --datadir, the data directory is the
// binary's default under $HOME (only the longest session). mode "unusable-home": no --datadir and a
// HOME under which nothing can be created: a pool that cannot keep what it acknowledges must not
// serve at all - if it does come up, what it acknowledged must still survive the restart.
func c13BinaryRestartMode(mode string) vh.Unit {
	name := "wire/binary-kill-restart"
	if mode != "datadir" {
		name += "/" + mode
	}
	return vh.Unit{Name: name, Run: func(u *vh.U) {
		ids := vh.Identities()
		client, host, w1, w2 := ids[0], ids[1], ids[3], ids[4]
		type step struct {
			name string
			call func() vh.Call
			ws   bool // sent over the WebSocket (registrations need a connection), else HTTP POST
			gap  time.Duration
		}
		upd := func() vh.Call {
			return vh.NewCall("vipnode_update", client, vh.WireNonce(), vh.DefaultParam("vipnode_update", host.NodeID))
		}
		steps := []step{
			{name: "host registers", ws: true, call: func() vh.Call { return vh.NewCall("vipnode_connect", host, vh.WireNonce(), pool2ConnectHost()) }},
			{name: "client registers", ws: true, call: func() vh.Call {
				return vh.NewCall("vipnode_connect", client, vh.WireNonce(), vh.DefaultParam("vipnode_connect", ""))
			}},
			{name: "client keep-alive reporting the host", ws: true, call: upd},
			{name: "second keep-alive 1.5 s later (bills the span)", ws: true, call: upd, gap: 1500 * time.Millisecond},
			{name: "wallet 1 links the client", call: func() vh.Call { return vh.NewCall("pool_addNode", w1, vh.WireNonce(), client.NodeID) }},
			{name: "wallet 2 links the host", call: func() vh.Call { return vh.NewCall("pool_addNode", w2, vh.WireNonce(), host.NodeID) }},
			{name: "third keep-alive 1.5 s later (bills the wallets)", ws: true, call: upd, gap: 1500 * time.Millisecond},
		}
		first := 1
		if mode != "datadir" {
			first = len(steps)
		}
		for kill := first; kill <= len(steps); kill++ {
			dir := vh.Scratch("c13bin-")
			start := func() (*vh.PoolProc, error) { return vh.StartPoolArgs("--store=persist", "--datadir", dir) }
			switch mode {
			case "default-dir":
				start = func() (*vh.PoolProc, error) { return vh.StartPoolHome(dir, "--store=persist") }
			case "unusable-home":
				notADir := filepath.Join(dir, "file")
				os.WriteFile(notADir, []byte("x"), 0600)
				start = func() (*vh.PoolProc, error) { return vh.StartPoolHome(notADir, "--store=persist") }
			}
			func() {
				defer os.RemoveAll(dir)
				p, err := start()
				if err != nil && mode == "unusable-home" {
					u.Observe("unusable home: the pool refuses to start")
					wireStep(u)
					return
				}
				if err != nil {
					u.R.Infra = err.Error()
					return
				}
				stopped := false
				defer func() {
					if !stopped {
						p.Stop()
					}
				}()
				cws, err1 := p.DialWS()
				hws, err2 := p.DialWS()
				if err1 != nil || err2 != nil {
					u.Violate("wire/websocket-dial-failed", fmt.Sprint(err1, err2), nil)
					return
				}
				hc := vh.NewHostConn(hws)
				var sent []string
				var names []string
				for i := 0; i < kill; i++ {
					st := steps[i]
					time.Sleep(st.gap)
					c := st.call()
					text := vh.RequestText(c, 100+i)
					var body string
					var err error
					switch {
					case !st.ws:
						_, body, err = p.Post(text)
					case c.ID == host.NodeID:
						body, err = hc.Call(text, 2*time.Minute)
					default:
						body, err = cws.Call(text, 2*time.Minute)
					}
					if r, derr := vh.DecodeReply(body); err != nil || derr != nil || r.Code() != 0 {
						u.Violate("wire/session-step-failed", fmt.Sprintf("%s: %v %s", st.name, err, firstN(body, 300)), nil)
						return
					}
					sent = append(sent, text)
					names = append(names, st.name)
				}
				read := func(p *vh.PoolProc) (string, error) {
					var out []string
					for _, w := range []*vh.Ident{w1, w2} {
						_, body, err := p.Post(fmt.Sprintf(`{"jsonrpc":"2.0","id":1,"method":"pool_account","params":[%q]}`, w.Wallet))
						if err != nil {
							return "", err
						}
						r, derr := vh.DecodeReply(body)
						if derr != nil || r.Code() != 0 {
							out = append(out, w.Name+": "+firstN(body, 200))
							continue
						}
						out = append(out, w.Name+": "+string(r.Result))
					}
					_, body, err := p.Post(`{"jsonrpc":"2.0","id":2,"method":"pool_status","params":[]}`)
					if err != nil {
						return "", err
					}
					var st struct {
						Result struct {
							Stats map[string]json.RawMessage `json:"stats"`
						} `json:"result"`
					}
					if err := json.Unmarshal([]byte(body), &st); err != nil {
						return "", fmt.Errorf("pool_status: %v: %s", err, firstN(body, 200))
					}
					for _, k := range []string{"num_total_hosts", "num_total_clients", "total_credit", "num_trial_balances", "latest_block_number"} {
						out = append(out, k+"="+string(st.Result.Stats[k]))
					}
					return strings.Join(out, "\n"), nil
				}
				before, err := read(p)
				if err != nil {
					u.Violate("wire/read-failed", err.Error(), nil)
					return
				}
				cws.Close()
				hws.Close()
				p.Stop() // SIGKILL of the process group: no Close, no flush
				stopped = true
				p2, err := start()
				if err != nil {
					u.Violate("wire/restart-failed", fmt.Sprintf("killed after %q: the pool does not come up again on its data directory: %v", names[len(names)-1], err), nil)
					return
				}
				defer p2.Stop()
				after, err := read(p2)
				u.R.Evaluations++
				u.R.States++
				u.R.Transitions += int64(kill)
				u.R.Traces++
				u.Observe(fmt.Sprintf("kill-after=%d same=%v", kill, before == after))
				if err != nil {
					u.Violate("wire/read-failed", err.Error(), nil)
					return
				}
				if before != after {
					u.Violate("wire/acknowledged-state-lost-by-restart", fmt.Sprintf("session %v, pool killed and restarted on the same --datadir:\n before: %s\n after:  %s", names, strings.ReplaceAll(before, "\n", " | "), strings.ReplaceAll(after, "\n", " | ")), nil)
					return
				}
				// every nonce the killed process accepted is still spent
				for i, text := range sent {
					_, body, err := p2.Post(text)
					r, derr := vh.DecodeReply(body)
					u.R.Evaluations++
					u.R.Transitions++
					if err != nil || derr != nil {
						u.Violate("wire/read-failed", fmt.Sprintf("replay of %q: %v %s", names[i], err, firstN(body, 200)), nil)
						return
					}
					if r.Code() == 0 {
						u.Violate("wire/accepted-nonce-forgotten-by-restart", fmt.Sprintf("session %v, pool killed and restarted: the request %q, accepted before the kill, was honoured again: %s", names, names[i], firstN(body, 200)), nil)
						return
					}
				}
				if again, _ := read(p2); again != after {
					u.Violate("wire/refused-replay-left-trace", fmt.Sprintf("replaying the session's requests after the restart changed the pool: %s -> %s", strings.ReplaceAll(after, "\n", " | "), strings.ReplaceAll(again, "\n", " | ")), nil)
				}
				if kill == len(steps) && len(u.R.Samples) < 1 {
					u.Sample("state carried across SIGKILL + restart: " + strings.ReplaceAll(after, "\n", " | "))
				}
			}()
			if u.NViolations() > 0 || u.R.Infra != "" {
				return
			}
		}
	}}
}

var _ = pool.ConnectRequest{}
