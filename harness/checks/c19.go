//go:build go1.21

package checks

import (
	"context"
	"encoding/json"
	"fmt"
	"net"
	"net/http"
	"net/url"
	"strings"
	"time"

	"github.com/vipnode/vipnode/v2/ethnode"
	"github.com/vipnode/vipnode/v2/internal/verif/vh"
	"github.com/vipnode/vipnode/v2/internal/verif/vsched"
	"github.com/vipnode/vipnode/v2/jsonrpc2"
	"github.com/vipnode/vipnode/v2/pool"
	"github.com/vipnode/vipnode/v2/pool/store"
)

// C19 — a host is advertised only under its own identity and a dialable address.

type c19Src struct {
	name string
	addr string // RemoteAddr(); "" with hasAddr => empty string; !hasAddr => service without the method
	has  bool
}

var c19Sources = []c19Src{
	{"ipv4", "203.0.113.9:5555", true},
	{"ipv6", "[2001:db8::9]:5555", true},
	{"ipv6-loopback", "[::1]:1", true},
	{"ipv6-link-local-with-zone", "[fe80::1%eth0]:5555", true},
	{"empty", "", true},
	{"none", "", false},
}

type plainService struct{ h *vh.FakeHost }

func (p plainService) Call(ctx context.Context, result interface{}, method string, params ...interface{}) error {
	return p.h.Call(ctx, result, method, params...)
}

func c19Unit(endpoint string, shard, nshards int) vh.Unit {
	name := fmt.Sprintf("uris/%s/%d", endpoint, shard)
	ids := vh.Identities()
	host, other, client := ids[1], ids[2], ids[0]
	return vh.Unit{Name: name, Run: func(u *vh.U) {
		type ov struct {
			text                   string
			absent                 bool
			scheme, user, h, port  string
			otherID, hostSpecified bool
		}
		var overrides []ov
		overrides = append(overrides, ov{absent: true})
		for _, scheme := range []string{"enode://", "http://", ""} {
			for _, user := range []string{"own", "other", "empty", "own:pw", "other:pw", "none", "own-bare", "other-bare"} {
				for _, h := range []string{"1.2.3.4", "example.org", "[2001:db8::1]", "[fe80::2%25eth1]", "[::]", "0.0.0.0", ""} {
					for _, port := range []string{"", "30303", "1", "65535"} {
						for _, tail := range []string{"", "/x", "?discport=0"} {
							o := ov{scheme: scheme, user: user, h: h, port: port}
							t := scheme
							if strings.HasSuffix(user, "-bare") && (h != "" || tail != "") {
								continue // only the id (and maybe a port): "<id>", "enode://<id>", "enode://<id>:30303"
							}
							switch user {
							case "own-bare":
								t += host.NodeID
							case "other-bare":
								t += other.NodeID
								o.otherID = true
							case "own":
								t += host.NodeID + "@"
							case "other":
								t += other.NodeID + "@"
								o.otherID = true
							case "empty":
								t += "@"
							case "own:pw":
								t += host.NodeID + ":pw@"
							case "other:pw":
								t += other.NodeID + ":pw@"
								o.otherID = true
							}
							t += h
							if port != "" {
								t += ":" + port
							}
							t += tail
							o.text = t
							overrides = append(overrides, o)
						}
					}
				}
			}
		}
		idx := 0
		for _, o := range overrides {
			for _, src := range c19Sources {
				idx++
				if idx%nshards != shard {
					continue
				}
				vsched.ResetClock(0)
				pw := vh.NewPoolWorld(vh.PoolConfig{Driver: vh.Memory, NoManager: true})
				fh := pw.Host("conn")
				fh.Addr = src.addr
				var svc jsonrpc2.Service = vh.HostWithAddr{FakeHost: fh}
				if !src.has {
					svc = plainService{fh}
				}
				ctx := vh.CtxWith(svc)
				nonce := vsched.Now().UnixNano() + 10
				var err error
				if endpoint == "vipnode_connect" {
					req := pool.ConnectRequest{NodeInfo: ethnode.UserAgent{Kind: ethnode.Geth, IsFullNode: true}, NodeURI: o.text}
					_, err = pw.Pool.Connect(ctx, host.SignNode("vipnode_connect", nonce, req), host.NodeID, nonce, req)
				} else {
					req := pool.HostRequest{Kind: "geth", NodeURI: o.text}
					_, err = pw.Pool.Host(ctx, host.SignNode("vipnode_host", nonce, req), host.NodeID, nonce, req)
				}
				u.R.Evaluations++
				u.R.States++
				u.R.Transitions++
				u.R.Traces++
				desc := fmt.Sprintf("%s override=%q source=%s(%q)", endpoint, o.text, src.name, src.addr)
				node, gerr := pw.Raw.GetNode(store.NodeID(host.NodeID))
				stored := gerr == nil
				accepted := err == nil
				// expectations
				srcHost := ""
				if src.has && src.addr != "" {
					srcHost, _, _ = net.SplitHostPort(src.addr)
				}
				ovHost := strings.Trim(o.h, "[]")
				if unesc, err := url.PathUnescape(ovHost); err == nil {
					ovHost = unesc // (a zone is written %25 inside a URI)
				}
				hostGiven := !o.absent && ovHost != "" && ovHost != "::"
				wantHost := srcHost
				if hostGiven {
					wantHost = ovHost
				}
				wantPort := "30303"
				if !o.absent && o.port != "" {
					wantPort = o.port
				}
				wellFormed := o.absent || (o.scheme == "enode://" && (o.user == "own" || o.user == "none" || o.user == "empty" || o.user == "own:pw" || o.user == "own-bare"))
				u.Observe(fmt.Sprintf("%v %v %s %s %v", accepted, o.absent, o.user, src.name, hostGiven))
				switch {
				case accepted != stored || (accepted && pw.Pool.NumRemotes() != 1) || (!accepted && pw.Pool.NumRemotes() != 0):
					u.Violate("uri/refused-registration-left-trace", fmt.Sprintf("%s: err=%v, node stored=%v, connections registered=%d", desc, err, stored, pw.Pool.NumRemotes()), nil)
					continue
				case accepted && o.otherID && o.scheme != "":
					// an override that parses as a URI naming another node id must be refused
					u.Violate("uri/foreign-identity-accepted", fmt.Sprintf("%s: accepted; stored %q", desc, node.URI), nil)
					continue
				case accepted && wantHost == "" && (o.absent || o.scheme != ""):
					u.Violate("uri/undeterminable-address-stored", fmt.Sprintf("%s: accepted; stored %q", desc, node.URI), nil)
					continue
				case !accepted && wellFormed && !o.otherID && wantHost != "":
					u.Violate("uri/valid-registration-refused", fmt.Sprintf("%s: %v", desc, err), nil)
					continue
				}
				if !accepted {
					continue
				}
				// the stored address: own identity + host:port that parses back
				parsed, perr := ethnode.ParseNodeURI(node.URI)
				if perr != nil {
					u.Violate("uri/stored-uri-unparsable", fmt.Sprintf("%s: stored %q: %v", desc, node.URI, perr), nil)
					continue
				}
				if parsed.ID() != host.NodeID {
					u.Violate("uri/stored-identity", fmt.Sprintf("%s: stored %q advertises id %q", desc, node.URI, parsed.ID()), nil)
					continue
				}
				h, p, serr := net.SplitHostPort((*url.URL)(parsed).Host)
				if !o.absent && o.scheme == "" && serr == nil && o.h != "" {
					// a scheme-less override is not a URI: whether its host part is honoured is not judged
					wantHost, wantPort = h, p
				}
				if o.user == "own-bare" && o.scheme == "" && o.port == "" {
					// nothing but the node's own id: no address was supplied, the default applies
					wantHost, wantPort = srcHost, "30303"
				}
				if serr != nil || h != wantHost || p != wantPort {
					u.Violate("uri/stored-address-not-dialable", fmt.Sprintf("%s: stored %q: host:port %q splits into (%q,%q,%v), expected host %q port %q", desc, node.URI, (*url.URL)(parsed).Host, h, p, serr, wantHost, wantPort), nil)
					continue
				}
				// what clients are handed is the stored address
				pw.Raw.SetNode(store.Node{ID: store.NodeID(client.NodeID), Kind: "geth", LastSeen: vsched.Now()})
				resp, perr2 := pw.Peer(context.Background(), client, 1, "")
				if perr2 != nil || resp == nil || len(resp.Peers) != 1 || resp.Peers[0].URI != node.URI {
					u.Violate("uri/handed-out-address-differs", fmt.Sprintf("%s: stored %q, vipnode_peer returned %+v err=%v", desc, node.URI, resp, perr2), nil)
				}
				// ... and stays the stored address while the host keeps checking in over that connection
				for k := 0; k < 2; k++ {
					vsched.Advance(30 * time.Second)
					if _, uerr := pw.UpdateCtx(ctx, host, nil, uint64(k+1)); uerr != nil {
						u.Violate("uri/host-keep-alive-refused", fmt.Sprintf("%s: %v", desc, uerr), nil)
						break
					}
					if n2, err := pw.Raw.GetNode(store.NodeID(host.NodeID)); err != nil || n2.URI != node.URI {
						u.Violate("uri/keep-alive-changed-advertised-address", fmt.Sprintf("%s: stored %q, after keep-alive %d of the host: %v (err %v)", desc, node.URI, k+1, n2, err), nil)
						break
					}
				}
				if len(u.R.Samples) < 3 && hostGiven && strings.Contains(o.h, ":") {
					u.Sample(desc + " -> " + node.URI)
				}
			}
		}
	}}
}

// hosts registering at the same moment over their own connections, through the server the binary
// uses: each is stored under the address of the connection *its* request arrived on
func c19ConcurrentHosts(nHosts, bound int) vh.Unit {
	name := fmt.Sprintf("concurrent-registrations/x%d", nHosts)
	ids := vh.Identities()
	hosts := []*vh.Ident{ids[1], ids[2], ids[3]}[:nHosts]
	addrs := []string{"192.0.2.11:40001", "198.51.100.22:40002", "203.0.113.33:40003"}
	var pw *vh.PoolWorld
	var replies []*jsonrpc2.Message
	body := func() {
		vsched.ResetClock(0)
		pw = vh.NewPoolWorld(vh.PoolConfig{Driver: vh.Memory, NoManager: true})
		srv := &jsonrpc2.Server{}
		if err := vh.RegisterProd(srv, pw); err != nil {
			panic(err)
		}
		replies = make([]*jsonrpc2.Message, len(hosts))
		var fns []func()
		var names []string
		for i, h := range hosts {
			i, h := i, h
			fh := pw.Host("conn-" + h.Name)
			fh.Addr = addrs[i]
			ctx := vh.CtxWith(vh.HostWithAddr{FakeHost: fh})
			nonce := vsched.Now().UnixNano() + 10 + int64(i)
			req := pool.ConnectRequest{NodeInfo: ethnode.UserAgent{Kind: ethnode.Geth, IsFullNode: true}}
			pj, _ := json.Marshal([]interface{}{h.SignNode("vipnode_connect", nonce, req), h.NodeID, nonce, req})
			msg, err := vh.ParseMessage(fmt.Sprintf(`{"jsonrpc":"2.0","id":%d,"method":"vipnode_connect","params":%s}`, i+1, pj))
			if err != nil {
				panic(err)
			}
			names = append(names, h.Name)
			fns = append(fns, func() { replies[i] = srv.Handle(ctx, msg) })
		}
		vh.Par(names, fns...)
	}
	return vh.Unit{Name: name, Run: func(u *vh.U) {
		vh.RunDFS(u, vh.DFSSpec{
			Name: name, Bound: bound,
			Run:  vsched.Options{YieldFiles: []string{"method.go", "server.go", "service.go"}, Delay: true},
			Body: body,
			Obs: func(s *vsched.Sched) string {
				var l []string
				for _, h := range hosts {
					n, _ := pw.Raw.GetNode(store.NodeID(h.NodeID))
					if n != nil {
						l = append(l, n.URI[len(n.URI)-22:])
					}
				}
				return strings.Join(l, " ")
			},
			Check: func(s *vsched.Sched) (string, string) {
				for i, h := range hosts {
					if replies[i] == nil || replies[i].Response == nil || replies[i].Error != nil {
						return "uri/concurrent/registration-failed", fmt.Sprintf("host %d: reply %s", i, vh.ShortJSON(replies[i]))
					}
					n, err := pw.Raw.GetNode(store.NodeID(h.NodeID))
					wantHost, _, _ := net.SplitHostPort(addrs[i])
					want := "enode://" + h.NodeID + "@" + wantHost + ":30303"
					if err != nil || n.URI != want {
						got := "<none>"
						if n != nil {
							got = n.URI
						}
						return "uri/concurrent/address-of-another-connection", fmt.Sprintf("hosts registering at once, each over its own connection: host %d (connection from %s) is stored as %s, expected %s", i, addrs[i], strings.Replace(got, h.NodeID, "<own id>", 1), strings.Replace(want, h.NodeID, "<own id>", 1))
					}
				}
				return "", ""
			},
		})
	}}
}

// a host registers again from a new address while a client asks for peers: afterwards clients are
// handed the address that is stored
func c19MoveWhileAsked(bound int) vh.Unit {
	name := "reregistration-vs-peer-request"
	ids := vh.Identities()
	host, client := ids[1], ids[0]
	var pw *vh.PoolWorld
	var errs2 [2]error
	body := func() {
		vsched.ResetClock(0)
		pw = vh.NewPoolWorld(vh.PoolConfig{Driver: vh.Memory, NoManager: true})
		pw.Raw.SetNode(store.Node{ID: store.NodeID(client.NodeID), Kind: "geth", LastSeen: vsched.Now()})
		reg := func(uri string, n int64) error {
			req := pool.ConnectRequest{NodeInfo: ethnode.UserAgent{Kind: ethnode.Geth, IsFullNode: true}, NodeURI: uri}
			nonce := vsched.Now().UnixNano() + n
			_, err := pw.Pool.Connect(vh.CtxWith(pw.Host("conn").Service()), host.SignNode("vipnode_connect", nonce, req), host.NodeID, nonce, req)
			return err
		}
		if err := reg("enode://"+host.NodeID+"@192.0.2.1:30303", 1); err != nil {
			panic(err)
		}
		pw.Peer(context.Background(), client, 1, "") // (a first request, as a warm cache would need)
		vh.Par([]string{"re-register", "peer-request"},
			func() { errs2[0] = reg("enode://"+host.NodeID+"@198.51.100.9:30303", 2) },
			func() { _, errs2[1] = pw.Peer(context.Background(), client, 1, "") })
	}
	return vh.Unit{Name: name, Run: func(u *vh.U) {
		vh.RunDFS(u, vh.DFSSpec{
			Name: name, Bound: bound,
			// (a peer request fans out to goroutines: delay-bounded, see DESIGN 2.2)
			Run:  vsched.Options{YieldFiles: []string{"service.go"}, Drain: true, Delay: true},
			Body: body,
			Obs:  func(s *vsched.Sched) string { return fmt.Sprint(errs2[0] == nil, errs2[1] == nil) },
			Check: func(s *vsched.Sched) (string, string) {
				if errs2[0] != nil {
					return "uri/concurrent/registration-failed", errs2[0].Error()
				}
				n, err := pw.Raw.GetNode(store.NodeID(host.NodeID))
				if err != nil {
					return "uri/concurrent/registration-failed", err.Error()
				}
				var handed []string
				for k := 0; k < 2; k++ {
					resp, perr := pw.Peer(context.Background(), client, 1, "")
					if perr != nil || resp == nil || len(resp.Peers) != 1 {
						return "uri/handed-out-address-differs", fmt.Sprintf("after the host registered again: vipnode_peer returned %+v err=%v", resp, perr)
					}
					handed = append(handed, resp.Peers[0].URI)
				}
				for _, h := range handed {
					if h != n.URI {
						return "uri/handed-out-address-differs", fmt.Sprintf("the host registered again from a new address while a client was asking for peers: stored %s, later vipnode_peer requests return %v", strings.Replace(n.URI, host.NodeID, "<id>", 1), strings.Replace(fmt.Sprint(handed), host.NodeID, "<id>", -1))
					}
				}
				return "", ""
			},
		})
	}}
}

// the host's old connection is noticed to be gone while the host registers again from a new
// address (agents re-dial at once): afterwards the stored and advertised address is the new
// registration's, and the host counts as the live host it is
func c19CloseVsReregister(bound int) vh.Unit {
	name := "old-connection-closes-vs-reregistration"
	ids := vh.Identities()
	host, client := ids[1], ids[0]
	var pw *vh.PoolWorld
	var regErr, closeErr error
	body := func() {
		vsched.ResetClock(0)
		pw = vh.NewPoolWorld(vh.PoolConfig{Driver: vh.Memory, NoManager: true})
		pw.Raw.SetNode(store.Node{ID: store.NodeID(client.NodeID), Kind: "geth", LastSeen: vsched.Now()})
		reg := func(conn, src string, n int64) error {
			fh := pw.Host(conn)
			fh.Addr = src
			req := pool.ConnectRequest{NodeInfo: ethnode.UserAgent{Kind: ethnode.Geth, IsFullNode: true}}
			nonce := vsched.Now().UnixNano() + n
			_, err := pw.Pool.Connect(vh.CtxWith(vh.HostWithAddr{FakeHost: fh}), host.SignNode("vipnode_connect", nonce, req), host.NodeID, nonce, req)
			return err
		}
		if err := reg("old", "192.0.2.1:5555", 1); err != nil {
			panic(err)
		}
		vsched.Advance(10 * time.Second)
		old := vh.HostWithAddr{FakeHost: pw.Host("old")}
		vh.Par([]string{"close-old", "re-register"},
			func() { closeErr = pw.Pool.CloseRemote(old) },
			func() { regErr = reg("new", "198.51.100.9:6666", 2) })
	}
	return vh.Unit{Name: name, Run: func(u *vh.U) {
		vh.RunDFS(u, vh.DFSSpec{
			Name: name, Bound: bound,
			Run:  vsched.Options{YieldFiles: []string{"service.go", "memory.go"}, Drain: true},
			Body: body,
			Obs:  func(s *vsched.Sched) string { return fmt.Sprint(regErr == nil, closeErr == nil) },
			Check: func(s *vsched.Sched) (string, string) {
				if regErr != nil {
					return "uri/concurrent/registration-failed", regErr.Error()
				}
				// the host keeps checking in over its new connection
				ureq := pool.UpdateRequest{PeerInfo: []ethnode.PeerInfo{}}
				unonce := vsched.Base().UnixNano() + int64(time.Hour)
				if _, err := pw.Pool.Update(vh.CtxWith(vh.HostWithAddr{FakeHost: pw.Host("new")}), host.SignNode("vipnode_update", unonce, ureq), host.NodeID, unonce, ureq); err != nil {
					return "uri/host-keep-alive-refused", err.Error()
				}
				n, err := pw.Raw.GetNode(store.NodeID(host.NodeID))
				if err != nil {
					return "uri/concurrent/registration-failed", err.Error()
				}
				if !strings.Contains(n.URI, "@198.51.100.9:30303") {
					return "uri/stored-address-not-the-latest-registration's", fmt.Sprintf("the host registered from 192.0.2.1, then - while that connection was being cleaned up - again from 198.51.100.9: stored %s", strings.Replace(n.URI, host.NodeID, "<id>", 1))
				}
				resp, perr := pw.Peer(context.Background(), client, 1, "")
				if perr != nil || resp == nil || len(resp.Peers) != 1 || resp.Peers[0].URI != n.URI {
					return "uri/handed-out-address-differs", fmt.Sprintf("after the re-registration: vipnode_peer returned %+v err=%v (stored %s)", resp, perr, strings.Replace(n.URI, host.NodeID, "<id>", 1))
				}
				return "", ""
			},
		})
	}}
}

// a host registers, then registers again: what is stored and handed out afterwards is what the
// *second* registration says (its override, or by default the address it came from this time),
// whatever the first one left behind
func c19Sequences() vh.Unit {
	name := "re-registrations"
	ids := vh.Identities()
	host, client := ids[1], ids[0]
	type reg struct {
		label, override, src, wantHost, wantPort string
	}
	regs := []reg{
		{"no override from 203.0.113.9", "", "203.0.113.9:5555", "203.0.113.9", "30303"},
		{"no override from 198.51.100.7", "", "198.51.100.7:6666", "198.51.100.7", "30303"},
		{"no override from [2001:db8::9]", "", "[2001:db8::9]:5555", "2001:db8::9", "30303"},
		{"override 1.2.3.4:30305", "enode://" + host.NodeID + "@1.2.3.4:30305", "203.0.113.9:5555", "1.2.3.4", "30305"},
		{"override example.org (no port)", "enode://" + host.NodeID + "@example.org", "198.51.100.7:6666", "example.org", "30303"},
		{"port-only override :31000", "enode://" + host.NodeID + "@:31000", "198.51.100.7:6666", "198.51.100.7", "31000"},
	}
	return vh.Unit{Name: name, Run: func(u *vh.U) {
		for _, endpoint1 := range []string{"vipnode_connect", "vipnode_host"} {
			for _, endpoint2 := range []string{"vipnode_connect", "vipnode_host"} {
				for _, first := range regs {
					for _, second := range regs {
						for _, sameConn := range []bool{true, false} {
							vsched.ResetClock(0)
							pw := vh.NewPoolWorld(vh.PoolConfig{Driver: vh.Memory, NoManager: true})
							do := func(ep string, r reg, conn string, n int64) error {
								fh := pw.Host(conn)
								fh.Addr = r.src
								ctx := vh.CtxWith(vh.HostWithAddr{FakeHost: fh})
								nonce := vsched.Now().UnixNano() + n
								if ep == "vipnode_connect" {
									req := pool.ConnectRequest{NodeInfo: ethnode.UserAgent{Kind: ethnode.Geth, IsFullNode: true}, NodeURI: r.override}
									_, err := pw.Pool.Connect(ctx, host.SignNode("vipnode_connect", nonce, req), host.NodeID, nonce, req)
									return err
								}
								req := pool.HostRequest{Kind: "geth", NodeURI: r.override}
								_, err := pw.Pool.Host(ctx, host.SignNode("vipnode_host", nonce, req), host.NodeID, nonce, req)
								return err
							}
							conn2 := "conn"
							if !sameConn {
								conn2 = "conn-2"
							}
							err1 := do(endpoint1, first, "conn", 10)
							err2 := do(endpoint2, second, conn2, 20)
							u.R.Evaluations++
							u.R.States++
							u.R.Transitions += 2
							u.R.Traces++
							u.Observe(fmt.Sprintf("%s/%s same-conn=%v", endpoint1, endpoint2, sameConn))
							desc := fmt.Sprintf("%s (%s), then %s (%s) on %s connection", endpoint1, first.label, endpoint2, second.label, map[bool]string{true: "the same", false: "a new"}[sameConn])
							if err1 != nil || err2 != nil {
								u.Violate("uri/valid-registration-refused", fmt.Sprintf("%s: %v / %v", desc, err1, err2), nil)
								continue
							}
							node, gerr := pw.Raw.GetNode(store.NodeID(host.NodeID))
							want := "enode://" + host.NodeID + "@" + net.JoinHostPort(second.wantHost, second.wantPort)
							if gerr != nil || node.URI != want {
								got := "<none>"
								if node != nil {
									got = strings.Replace(node.URI, host.NodeID, "<id>", 1)
								}
								u.Violate("uri/re-registration-keeps-stale-address", fmt.Sprintf("%s: stored %s, expected %s", desc, got, strings.Replace(want, host.NodeID, "<id>", 1)), nil)
								continue
							}
							pw.Raw.SetNode(store.Node{ID: store.NodeID(client.NodeID), Kind: "geth", LastSeen: vsched.Now()})
							resp, perr := pw.Peer(context.Background(), client, 1, "")
							if perr != nil || resp == nil || len(resp.Peers) != 1 || resp.Peers[0].URI != want {
								u.Violate("uri/handed-out-address-differs", fmt.Sprintf("%s: stored %q, vipnode_peer returned %+v err=%v", desc, node.URI, resp, perr), nil)
							}
						}
					}
				}
			}
		}
		u.Sample("every ordered pair of 6 registrations x 2 endpoints each x same/new connection")
	}}
}

// the real binary: a host that registers without an override is advertised under the address its
// connection came from (here: loopback), whatever it says about itself in request headers
func c19BinaryHeaders() vh.Unit {
	return vh.Unit{Name: "wire/binary-advertised-address", Run: func(u *vh.U) {
		p, err := vh.StartPool()
		if err != nil {
			u.R.Infra = err.Error()
			return
		}
		defer p.Stop()
		ids := vh.Identities()
		client := ids[0]
		cws, err := p.DialWS()
		if err != nil {
			u.Violate("wire/websocket-dial-failed", err.Error(), nil)
			return
		}
		defer cws.Close()
		if r, err := cws.Call(vh.RequestText(vh.NewCall("vipnode_connect", client, vh.WireNonce(), vh.DefaultParam("vipnode_connect", "")), 1), 2*time.Minute); err != nil || strings.Contains(r, `"error"`) {
			u.Violate("wire/client-connect-failed", fmt.Sprintf("%s %v", r, err), nil)
			return
		}
		claimed := "198.51.100.66"
		headers := []http.Header{
			nil,
			{"X-Forwarded-For": {claimed}},
			{"X-Forwarded-For": {claimed, "203.0.113.50"}},
			{"X-Forwarded-For": {claimed + ", 203.0.113.50"}},
			{"X-Real-Ip": {claimed}},
			{"Forwarded": {"for=" + claimed}},
			{"X-Forwarded-Host": {claimed}, "X-Client-Ip": {claimed}},
		}
		for hi, h := range headers {
			host := ids[1+hi%3]
			ws, err := p.DialWSHeader(h)
			if err != nil {
				u.Violate("wire/websocket-dial-failed", fmt.Sprintf("headers %v: %v", h, err), nil)
				return
			}
			hc := vh.NewHostConn(ws)
			body, err := hc.Call(vh.RequestText(vh.NewCall("vipnode_connect", host, vh.WireNonce(), pool2ConnectHost()), 3), 2*time.Minute)
			if r, derr := vh.DecodeReply(body); err != nil || derr != nil || r.Code() != 0 {
				ws.Close()
				u.Violate("wire/host-connect-failed", fmt.Sprintf("headers %v: %v %s", h, err, firstN(body, 200)), nil)
				return
			}
			body, err = cws.Call(vh.RequestText(vh.NewCall("vipnode_peer", client, vh.WireNonce(), pool.PeerRequest{Num: 5}), 4), 2*time.Minute)
			ws.Close()
			wireStep(u)
			var resp struct {
				Result struct {
					Peers []struct {
						ID  string `json:"id"`
						URI string `json:"uri"`
					} `json:"peers"`
				} `json:"result"`
			}
			json.Unmarshal([]byte(body), &resp)
			uri := ""
			for _, pr := range resp.Result.Peers {
				if strings.Contains(pr.URI, host.NodeID) {
					uri = pr.URI
				}
			}
			u.Observe(fmt.Sprintf("headers#%d -> loopback=%v", hi, strings.Contains(uri, "@127.0.0.1:")))
			parsed, perr := ethnode.ParseNodeURI(uri)
			if err != nil || uri == "" || perr != nil {
				u.Violate("wire/registered-host-not-handed-out", fmt.Sprintf("headers %v: peer request answered %s (%v)", h, firstN(body, 300), err), nil)
				return
			}
			hh, pp, _ := net.SplitHostPort((*url.URL)(parsed).Host)
			if parsed.ID() != host.NodeID || hh != "127.0.0.1" || pp != "30303" {
				u.Violate("wire/advertised-address-not-the-connection's", fmt.Sprintf("a host connected from 127.0.0.1 with handshake headers %v and no override is handed to clients as %s", h, strings.Replace(uri, host.NodeID, "<id>", 1)), nil)
				return
			}
			// wait until the pool has noticed the hang-up, so that the next host is the only one registered
			for i := 0; i < 300; i++ {
				b, _ := cws.Call(vh.RequestText(vh.NewCall("vipnode_peer", client, vh.WireNonce(), pool.PeerRequest{Num: 5}), 5), 2*time.Minute)
				if !strings.Contains(b, host.NodeID) {
					break
				}
				time.Sleep(100 * time.Millisecond)
			}
		}
		u.Sample("real binary, hosts registering from loopback with 7 sets of forwarding headers")
	}}
}

// an in-process pipe (jsonrpc2.ServePipe, as the agent's :memory: pool uses) has no network address:
// a host that supplies none either is refused, one that supplies a full one is stored under it
func c19PipeTransport() vh.Unit {
	return vh.Unit{Name: "pipe-transport", Run: func(u *vh.U) {
		ids := vh.Identities()
		host := ids[1]
		for _, o := range []struct {
			override string
			accept   bool
		}{{"", false}, {host.NodeID, false}, {"enode://" + host.NodeID, false}, {"enode://" + host.NodeID + "@[::]:30303", false}, {"enode://" + host.NodeID + "@:30303", false},
			{"enode://" + host.NodeID + "@192.0.2.10:30303", true}, {"enode://" + host.NodeID + "@node.example.org:30303", true}} {
			for _, endpoint := range []string{"vipnode_connect", "vipnode_host"} {
				vsched.ResetClock(0)
				pw := vh.NewPoolWorld(vh.PoolConfig{Driver: vh.Memory, NoManager: true})
				poolSide, hostSide := jsonrpc2.ServePipe()
				if err := poolSide.Server.Register("vipnode_", pw.Pool, "connect", "disconnect", "ping", "update", "peer", "client", "host"); err != nil {
					panic(err)
				}
				var param interface{} = pool.HostRequest{Kind: "geth", NodeURI: o.override}
				if endpoint == "vipnode_connect" {
					param = pool.ConnectRequest{NodeInfo: ethnode.UserAgent{Kind: ethnode.Geth, IsFullNode: true}, NodeURI: o.override}
				}
				c := vh.NewCall(endpoint, host, vsched.Now().UnixNano()+10, param)
				var raw json.RawMessage
				_, err := vh.Watched(endpoint+" over a pipe", func() (struct{}, error) {
					return struct{}{}, hostSide.Call(context.Background(), &raw, c.Endpoint, c.Sig, c.ID, c.Nonce, c.Param)
				})
				node, gerr := pw.Raw.GetNode(store.NodeID(host.NodeID))
				u.R.Evaluations++
				u.R.States++
				u.R.Transitions++
				u.R.Traces++
				u.Observe(fmt.Sprintf("pipe %s %q accepted=%v", endpoint, o.override != "", err == nil))
				desc := fmt.Sprintf("%s over an in-process pipe, override %q", endpoint, strings.Replace(o.override, host.NodeID, "<id>", 1))
				switch {
				case (err == nil) != (gerr == nil):
					u.Violate("uri/refused-registration-left-trace", fmt.Sprintf("%s: err=%v stored=%v", desc, err, gerr == nil), nil)
				case err == nil && !o.accept:
					u.Violate("uri/undeterminable-address-stored", fmt.Sprintf("%s: accepted; stored %q", desc, strings.Replace(node.URI, host.NodeID, "<id>", 1)), nil)
				case err != nil && o.accept:
					u.Violate("uri/valid-registration-refused", fmt.Sprintf("%s: %v", desc, err), nil)
				case err == nil && !strings.HasSuffix(o.override, node.URI[strings.Index(node.URI, "@"):]):
					u.Violate("uri/stored-address-not-dialable", fmt.Sprintf("%s: stored %q", desc, node.URI), nil)
				}
				hostSide.Codec.Close()
				poolSide.Codec.Close()
			}
		}
		u.Sample("7 overrides x 2 endpoints over jsonrpc2.ServePipe")
	}}
}

func init() {
	vh.Register(&vh.Check{
		ID: "C19", Level: "model_checking",
		Technique:   "exhaustive enumeration of a node-URI override grammar x connection source addresses on the real signed vipnode_connect / vipnode_host, with parse-back oracle (ethnode.ParseNodeURI, net.SplitHostPort) and a follow-up vipnode_peer",
		Rule:        "override ∈ {absent} ∪ 3 schemes x 6 user parts (own id, other id, empty, with password, none) x 6 hosts (IPv4, DNS, IPv6 literal, [::], 0.0.0.0, empty) x 4 ports x 3 tails, x 5 source addresses (IPv4, IPv6, IPv6 loopback, empty, service without RemoteAddr), on both endpoints (~13k registrations); accepted => stored id == authenticated id, host:port splits back to the supplied/default address, clients are handed the same URI; other id or undeterminable host => refused with nothing stored or registered; well-formed own-id overrides => accepted; overrides that are a node id alone (with and without scheme / port)",
		Assumptions: []string{"non-enode schemes and unparsable overrides may be refused or accepted; when accepted the stored address is judged like any other"},
		Units: func(tier string) []vh.Unit {
			var us []vh.Unit
			for _, e := range []string{"vipnode_connect", "vipnode_host"} {
				for s := 0; s < 4; s++ {
					us = append(us, c19Unit(e, s, 4))
				}
			}
			b := 2
			if tier == "thorough" {
				b = 3
			}
			us = append(us, c19ConcurrentHosts(2, b), c19MoveWhileAsked(b), c19Sequences(), c19CloseVsReregister(b), c19PipeTransport(), c19BinaryHeaders())
			if tier == "thorough" {
				us = append(us, c19ConcurrentHosts(3, 2))
			}
			return us
		},
	})
}
