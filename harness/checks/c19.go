//go:build go1.21

package checks

import (
	"context"
	"fmt"
	"net"
	"net/url"
	"strings"

	"github.com/vipnode/vipnode/v2/ethnode"
	"github.com/vipnode/vipnode/v2/internal/verif/vh"
	"github.com/vipnode/vipnode/v2/internal/verif/vsched"
	"github.com/vipnode/vipnode/v2/jsonrpc2"
	"github.com/vipnode/vipnode/v2/pool"
	"github.com/vipnode/vipnode/v2/pool/store"
)

// C19 — a host is advertised only under its own identity and a dialable address.

type c19Src struct {
	name string
	addr string // RemoteAddr(); "" with hasAddr => empty string; !hasAddr => service without the method
	has  bool
}

var c19Sources = []c19Src{
	{"ipv4", "203.0.113.9:5555", true},
	{"ipv6", "[2001:db8::9]:5555", true},
	{"ipv6-loopback", "[::1]:1", true},
	{"empty", "", true},
	{"none", "", false},
}

type plainService struct{ h *vh.FakeHost }

func (p plainService) Call(ctx context.Context, result interface{}, method string, params ...interface{}) error {
	return p.h.Call(ctx, result, method, params...)
}

func c19Unit(endpoint string, shard, nshards int) vh.Unit {
	name := fmt.Sprintf("uris/%s/%d", endpoint, shard)
	ids := vh.Identities()
	host, other, client := ids[1], ids[2], ids[0]
	return vh.Unit{Name: name, Run: func(u *vh.U) {
		type ov struct {
			text                   string
			absent                 bool
			scheme, user, h, port  string
			otherID, hostSpecified bool
		}
		var overrides []ov
		overrides = append(overrides, ov{absent: true})
		for _, scheme := range []string{"enode://", "http://", ""} {
			for _, user := range []string{"own", "other", "empty", "own:pw", "other:pw", "none"} {
				for _, h := range []string{"1.2.3.4", "example.org", "[2001:db8::1]", "[::]", "0.0.0.0", ""} {
					for _, port := range []string{"", "30303", "1", "65535"} {
						for _, tail := range []string{"", "/x", "?discport=0"} {
							o := ov{scheme: scheme, user: user, h: h, port: port}
							t := scheme
							switch user {
							case "own":
								t += host.NodeID + "@"
							case "other":
								t += other.NodeID + "@"
								o.otherID = true
							case "empty":
								t += "@"
							case "own:pw":
								t += host.NodeID + ":pw@"
							case "other:pw":
								t += other.NodeID + ":pw@"
								o.otherID = true
							}
							t += h
							if port != "" {
								t += ":" + port
							}
							t += tail
							o.text = t
							overrides = append(overrides, o)
						}
					}
				}
			}
		}
		idx := 0
		for _, o := range overrides {
			for _, src := range c19Sources {
				idx++
				if idx%nshards != shard {
					continue
				}
				vsched.ResetClock(0)
				pw := vh.NewPoolWorld(vh.PoolConfig{Driver: vh.Memory, NoManager: true})
				fh := pw.Host("conn")
				fh.Addr = src.addr
				var svc jsonrpc2.Service = vh.HostWithAddr{FakeHost: fh}
				if !src.has {
					svc = plainService{fh}
				}
				ctx := vh.CtxWith(svc)
				nonce := vsched.Now().UnixNano() + 10
				var err error
				if endpoint == "vipnode_connect" {
					req := pool.ConnectRequest{NodeInfo: ethnode.UserAgent{Kind: ethnode.Geth, IsFullNode: true}, NodeURI: o.text}
					_, err = pw.Pool.Connect(ctx, host.SignNode("vipnode_connect", nonce, req), host.NodeID, nonce, req)
				} else {
					req := pool.HostRequest{Kind: "geth", NodeURI: o.text}
					_, err = pw.Pool.Host(ctx, host.SignNode("vipnode_host", nonce, req), host.NodeID, nonce, req)
				}
				u.R.Evaluations++
				u.R.States++
				u.R.Transitions++
				u.R.Traces++
				desc := fmt.Sprintf("%s override=%q source=%s(%q)", endpoint, o.text, src.name, src.addr)
				node, gerr := pw.Raw.GetNode(store.NodeID(host.NodeID))
				stored := gerr == nil
				accepted := err == nil
				// expectations
				srcHost := ""
				if src.has && src.addr != "" {
					srcHost, _, _ = net.SplitHostPort(src.addr)
				}
				ovHost := strings.Trim(o.h, "[]")
				hostGiven := !o.absent && ovHost != "" && ovHost != "::"
				wantHost := srcHost
				if hostGiven {
					wantHost = ovHost
				}
				wantPort := "30303"
				if !o.absent && o.port != "" {
					wantPort = o.port
				}
				wellFormed := o.absent || (o.scheme == "enode://" && (o.user == "own" || o.user == "none" || o.user == "empty" || o.user == "own:pw"))
				u.Observe(fmt.Sprintf("%v %v %s %s %v", accepted, o.absent, o.user, src.name, hostGiven))
				switch {
				case accepted != stored || (accepted && pw.Pool.NumRemotes() != 1) || (!accepted && pw.Pool.NumRemotes() != 0):
					u.Violate("uri/refused-registration-left-trace", fmt.Sprintf("%s: err=%v, node stored=%v, connections registered=%d", desc, err, stored, pw.Pool.NumRemotes()), nil)
					continue
				case accepted && o.otherID && o.scheme != "":
					// an override that parses as a URI naming another node id must be refused
					u.Violate("uri/foreign-identity-accepted", fmt.Sprintf("%s: accepted; stored %q", desc, node.URI), nil)
					continue
				case accepted && wantHost == "" && (o.absent || o.scheme != ""):
					u.Violate("uri/undeterminable-address-stored", fmt.Sprintf("%s: accepted; stored %q", desc, node.URI), nil)
					continue
				case !accepted && wellFormed && !o.otherID && wantHost != "":
					u.Violate("uri/valid-registration-refused", fmt.Sprintf("%s: %v", desc, err), nil)
					continue
				}
				if !accepted {
					continue
				}
				// the stored address: own identity + host:port that parses back
				parsed, perr := ethnode.ParseNodeURI(node.URI)
				if perr != nil {
					u.Violate("uri/stored-uri-unparsable", fmt.Sprintf("%s: stored %q: %v", desc, node.URI, perr), nil)
					continue
				}
				if parsed.ID() != host.NodeID {
					u.Violate("uri/stored-identity", fmt.Sprintf("%s: stored %q advertises id %q", desc, node.URI, parsed.ID()), nil)
					continue
				}
				h, p, serr := net.SplitHostPort((*url.URL)(parsed).Host)
				if !o.absent && o.scheme == "" && serr == nil {
					// a scheme-less override is not a URI: whether its host part is honoured is not judged
					wantHost, wantPort = h, p
				}
				if serr != nil || h != wantHost || p != wantPort {
					u.Violate("uri/stored-address-not-dialable", fmt.Sprintf("%s: stored %q: host:port %q splits into (%q,%q,%v), expected host %q port %q", desc, node.URI, (*url.URL)(parsed).Host, h, p, serr, wantHost, wantPort), nil)
					continue
				}
				// what clients are handed is the stored address
				pw.Raw.SetNode(store.Node{ID: store.NodeID(client.NodeID), Kind: "geth", LastSeen: vsched.Now()})
				resp, perr2 := pw.Peer(context.Background(), client, 1, "")
				if perr2 != nil || resp == nil || len(resp.Peers) != 1 || resp.Peers[0].URI != node.URI {
					u.Violate("uri/handed-out-address-differs", fmt.Sprintf("%s: stored %q, vipnode_peer returned %+v err=%v", desc, node.URI, resp, perr2), nil)
				}
				if len(u.R.Samples) < 3 && hostGiven && strings.Contains(o.h, ":") {
					u.Sample(desc + " -> " + node.URI)
				}
			}
		}
	}}
}

func init() {
	vh.Register(&vh.Check{
		ID: "C19", Level: "model_checking",
		Technique:   "exhaustive enumeration of a node-URI override grammar x connection source addresses on the real signed vipnode_connect / vipnode_host, with parse-back oracle (ethnode.ParseNodeURI, net.SplitHostPort) and a follow-up vipnode_peer",
		Rule:        "override ∈ {absent} ∪ 3 schemes x 6 user parts (own id, other id, empty, with password, none) x 6 hosts (IPv4, DNS, IPv6 literal, [::], 0.0.0.0, empty) x 4 ports x 3 tails, x 5 source addresses (IPv4, IPv6, IPv6 loopback, empty, service without RemoteAddr), on both endpoints (~13k registrations); accepted => stored id == authenticated id, host:port splits back to the supplied/default address, clients are handed the same URI; other id or undeterminable host => refused with nothing stored or registered; well-formed own-id overrides => accepted",
		Assumptions: []string{"non-enode schemes and unparsable overrides may be refused or accepted; when accepted the stored address is judged like any other"},
		Units: func(tier string) []vh.Unit {
			var us []vh.Unit
			for _, e := range []string{"vipnode_connect", "vipnode_host"} {
				for s := 0; s < 4; s++ {
					us = append(us, c19Unit(e, s, 4))
				}
			}
			return us
		},
	})
}
