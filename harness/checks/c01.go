//go:build go1.21

package checks

import (
	"fmt"
	"math/big"
	"strings"

	"github.com/vipnode/vipnode/v2/internal/verif/vh"
	"github.com/vipnode/vipnode/v2/internal/verif/vsched"
	"github.com/vipnode/vipnode/v2/pool/store"
)

// C01 — the pool ledger is zero-sum.

type c01Cfg struct {
	price    string
	interval string
	min      string
}

var c01Cfgs = []c01Cfg{
	{"1000", "1m", "off"}, {"1000", "1m", "0"}, {"1000", "1m", "-500"}, {"1000", "1m", "500"},
	{"10", "1ns", "off"}, {"10", "1ns", "500"},
	{"3000000000000000000", "1m", "off"}, {"3000000000000000000", "1m", "0"},
}

var c01Events = []string{
	"conn H1", "conn H2", "conn C1", "conn C2", "close H1",
	"upd C1 -", "upd C1 H1", "upd C1 H1,H2", "upd C1 H1,C2", "upd C1 H1,C1,H2", "upd C2 H1", "upd C2 H1,H2", "upd H1 -", "upd H1 C1",
	"tick 30s", "tick 90s", "tick 130s",
	"link W1 C1", "link W1 C2", "link W1 H1", "link W2 H2", "link W2 C1",
	"peer C1 1", "forged-upd C1", "forged-link W1 H2",
	"withdraw W1 ok", "withdraw W1 fail", "dep W1 1000000",
}

func c01World(driver string, cfg c01Cfg, wrap func(store.Store) store.Store) *vh.PoolWorld {
	return c01WorldSlot(driver, cfg, wrap, 0)
}

func c01WorldSlot(driver string, cfg c01Cfg, wrap func(store.Store) store.Store, slot int) *vh.PoolWorld {
	vsched.ResetClock(0)
	pc := vh.PoolConfig{Driver: driver, Price: big10(cfg.price), WrapStore: wrap, Slot: slot}
	pc.Interval = vh.TickOf("tick " + cfg.interval)
	if cfg.min != "off" {
		pc.MinBalance = big10(cfg.min)
	}
	return vh.NewPoolWorld(pc)
}

// c01Judge compares ledgers around one event; returns violation class and text.
func c01Judge(ev string, err error, before, after vh.Ledger, pw *vh.PoolWorld, cast *vh.Cast) (string, string) {
	if after.Stats != nil && after.Stats.Cmp(after.Sum) != 0 {
		return "stats-disagree", fmt.Sprintf("Stats().TotalCredit=%s but the balances sum to %s %s", after.Stats, after.Sum, after)
	}
	f := strings.Fields(ev)
	if f[0] == "withdraw" && err == nil {
		// only the withdrawing wallet's entry may change, and only by being settled (to zero)
		key := "acct:" + cast.ByName[f[1]].Wallet
		for k, d := range before.Diff(after) {
			if k != key {
				return "withdraw-moved-other-balance", fmt.Sprintf("successful withdrawal of %s changed %s by %s", f[1], k, d)
			}
			if a := after.Entries[key]; a != nil && a.Sign() != 0 {
				return "withdraw-partial", fmt.Sprintf("successful withdrawal left credit %s (was %s)", a, before.Entries[key])
			}
		}
		return "", ""
	}
	if before.Sum.Cmp(after.Sum) != 0 {
		cls := "created"
		if after.Sum.Cmp(before.Sum) < 0 {
			cls = "lost"
		}
		return "credit-" + cls + "/" + f[0], fmt.Sprintf("event %q (err=%v): total credit %s -> %s; changes %v", ev, err, before.Sum, after.Sum, before.Diff(after))
	}
	return "", ""
}

// c01Session is a prepared, non-initial state: hosts and clients connected, peers tracked, a
// shared wallet, and (for the 1-minute configurations) part of an interval already elapsed.
var c01Session = []string{"conn H1", "conn H2", "conn C1", "conn C2", "upd C1 H1,H2", "upd C2 H1", "link W1 C1", "tick 30s", "upd H1 -", "upd H2 -"}

func c01BFS(driver string, cfg c01Cfg, depth, shard, nshards int, faults bool) vh.Unit {
	return c01BFSFrom(driver, cfg, depth, shard, nshards, faults, nil)
}

func c01BFSFrom(driver string, cfg c01Cfg, depth, shard, nshards int, faults bool, prefix []string) vh.Unit {
	name := fmt.Sprintf("ledger-bfs/%s/p%s-i%s-min%s/d%d/%d", driver, cfg.price[:min(4, len(cfg.price))], cfg.interval, cfg.min, depth, shard)
	if faults {
		name = "fault-" + name
	}
	if prefix != nil {
		name = "session-" + name
	}
	cast := vh.StdCast()
	type world struct {
		pw *vh.PoolWorld
		fs *vh.FaultStore
	}
	return vh.Unit{Name: name, Run: func(u *vh.U) {
		vh.RunBFS(u, vh.BFSSpec{
			Name: name, MaxDepth: depth, Shard: shard, NShards: nshards,
			New: func() interface{} {
				w := &world{}
				if faults {
					w.pw = c01World(driver, cfg, func(s store.Store) store.Store {
						w.fs = vh.NewFaultStore(s)
						return w.fs
					})
				} else {
					// the pool holds the driver itself, as in the binary: whatever the pool finds out
					// about its store by type assertion (optional methods) it finds out here too
					w.pw = c01World(driver, cfg, nil)
				}
				for _, e := range prefix {
					vh.PoolEvent(w.pw, cast, e)
				}
				return w
			},
			Events: func(interface{}) []string { return c01Events },
			Apply: func(wi interface{}, ev string, judge bool, hist []string) {
				w := wi.(*world)
				if !judge {
					vh.PoolEvent(w.pw, cast, ev)
					return
				}
				before := vh.ReadLedger(w.pw.Raw, cast.Nodes, cast.Accts)
				start := 0
				if w.fs != nil {
					start = w.fs.N
				}
				var err error
				if p := vh.Recover(func() { err = vh.PoolEvent(w.pw, cast, ev) }); p != "" {
					u.Count("panics_seen_not_judged_here", 1)
					return
				}
				calls := 0
				if w.fs != nil {
					calls = w.fs.N - start
				}
				after := vh.ReadLedger(w.pw.Raw, cast.Nodes, cast.Accts)
				u.Observe(fmt.Sprintf("%s err=%v moved=%v", strings.Fields(ev)[0], err != nil, !before.Equal(after)))
				if cls, txt := c01Judge(ev, err, before, after, w.pw, cast); cls != "" {
					u.Violate("ledger/"+cls, fmt.Sprintf("config %+v driver %s history %v: %s", cfg, driver, hist, txt), vh.BFSReplay(name, hist))
				}
				if !faults || strings.HasPrefix(ev, "tick") || strings.HasPrefix(ev, "dep") {
					return
				}
				// the same event with exactly one store call failing, for every position
				clock := vsched.Elapsed()
				defer vsched.ResetClock(clock)
				for j := 0; j < calls; j++ {
					w2 := &world{}
					w2.pw = c01WorldSlot(driver, cfg, func(s store.Store) store.Store {
						w2.fs = vh.NewFaultStore(s)
						return w2.fs
					}, 1)
					for _, e := range prefix {
						vh.PoolEvent(w2.pw, cast, e)
					}
					for _, e := range hist[:len(hist)-1] {
						vh.PoolEvent(w2.pw, cast, e)
					}
					b2 := vh.ReadLedger(w2.pw.Raw, cast.Nodes, cast.Accts)
					w2.fs.FailAt = w2.fs.N + j
					var err2 error
					if p := vh.Recover(func() { err2 = vh.PoolEvent(w2.pw, cast, ev) }); p != "" {
						continue
					}
					w2.fs.FailAt = -1
					a2 := vh.ReadLedger(w2.pw.Raw, cast.Nodes, cast.Accts)
					u.R.Transitions++
					u.R.Traces++
					call := "?"
					if idx := w2.fs.N - 1; idx >= 0 && len(w2.fs.Log) > 0 {
						if k := len(w2.fs.Log) - (w2.fs.N - (w2.fs.N - calls + j)); k >= 0 && k < len(w2.fs.Log) {
							call = strings.Split(w2.fs.Log[k], "(")[0]
						}
					}
					if cls, txt := c01Judge(ev, err2, b2, a2, w2.pw, cast); cls != "" {
						u.Violate("ledger-under-fault/"+cls, fmt.Sprintf("config %+v driver %s history %v with store call #%d of the last event failing (%s): %s", cfg, driver, hist, j, call, txt), vh.BFSReplay(name, hist))
						break
					}
				}
			},
			Key: func(wi interface{}) string {
				w := wi.(*world)
				return fmt.Sprintf("%d|%s|%d|%v|%s", vsched.Elapsed(), vh.StoreView(w.pw.Raw, cast.Nodes, cast.Accts), w.pw.Pool.NumRemotes(), w.pw.BStore.Deposits, vh.StateKey(w.pw.Raw))
			},
		})
	}}
}

// concurrent keep-alives / links under the controlled scheduler
func c01Race(driver, scen string, bound int) vh.Unit {
	name := fmt.Sprintf("ledger-race/%s/%s", driver, scen)
	cast := vh.StdCast()
	var pw *vh.PoolWorld
	var errsOut []error
	var before vh.Ledger
	threads := map[string][]string{
		"two-clients-one-host":           {"upd C1 H1", "upd C2 H1"},
		"client-and-host-share":          {"upd C1 H1,H2", "upd C2 H1"},
		"link-vs-update":                 {"upd C1 H1", "link W1 H1"},
		"link-vs-link":                   {"link W1 C1", "link W1 H1", "upd C2 H1"},
		"three-clients":                  {"upd C1 H1,H2", "upd C2 H1,H2", "upd H1 C1"},
		"host-keepalive-vs-first-credit": {"upd C1 H1", "upd H1 -"},
		"host-reconnect-vs-credit":       {"upd C1 H1,H2", "conn H1"},
		// a withdrawal of the host's wallet while a client's keep-alive credits that host
		"withdraw-vs-credit":        {"withdraw W1 ok", "upd C2 H1"},
		"withdraw-vs-two-credits":   {"withdraw W1 ok", "upd C2 H1", "upd C1 H1,H2"},
		"failed-withdraw-vs-credit": {"withdraw W1 fail", "upd C2 H1"},
		// ... and while the wallet's own client is billed (the wallet is debited during the settlement)
		"withdraw-vs-debit": {"withdraw W1 ok", "upd C1 H2"},
	}[scen]
	body := func() {
		pw = c01World(driver, c01Cfg{"1000", "1m", "off"}, nil)
		// the session prefix is set up through the store directly (cheap); the racing calls are
		// real signed RPCs
		st := pw.Raw
		id := func(n string) store.NodeID { return store.NodeID(cast.ByName[n].NodeID) }
		for _, n := range []string{"H1", "H2", "C1", "C2"} {
			st.SetNode(store.Node{ID: id(n), Kind: "geth", IsHost: n[0] == 'H', LastSeen: vsched.Now()})
		}
		both := []string{string(id("H1")), string(id("H2"))}
		st.UpdateNodePeers(id("C1"), both, 1)
		st.UpdateNodePeers(id("C2"), both, 1)
		st.AddAccountNode(store.Account(cast.ByName["W1"].Wallet), id("C1"))
		if scen == "client-and-host-share" || strings.Contains(scen, "withdraw") {
			st.AddAccountNode(store.Account(cast.ByName["W1"].Wallet), id("H1"))
		}
		if strings.Contains(scen, "withdraw") {
			// the wallet has earned something already (paid by C2's trial balance)
			st.AddAccountBalance(store.Account(cast.ByName["W1"].Wallet), big.NewInt(700))
			st.AddNodeBalance(id("C2"), big.NewInt(-700))
			pw.YieldPoints = true
		}
		vsched.Advance(90 * 1e9)
		st.UpdateNodePeers(id("H1"), nil, 2)
		st.UpdateNodePeers(id("H2"), nil, 2)
		before = vh.ReadLedger(pw.Raw, cast.Nodes, cast.Accts)
		errsOut = make([]error, len(threads))
		var fns []func()
		for i, e := range threads {
			i, e := i, e
			fns = append(fns, func() { errsOut[i] = vh.PoolEvent(pw, cast, e) })
		}
		vh.Par(threads, fns...)
	}
	return vh.Unit{Name: name, Run: func(u *vh.U) {
		vh.RunDFS(u, vh.DFSSpec{
			Name: name, Bound: bound,
			Run:  vsched.Options{YieldFiles: []string{"memory.go", "badger.go", "helpers.go", "perinterval.go"}},
			Body: body,
			Obs: func(s *vsched.Sched) string {
				return fmt.Sprint(errs(errsOut), len(pw.Settles), vh.ReadLedger(pw.Raw, cast.Nodes, cast.Accts).String())
			},
			Check: func(s *vsched.Sched) (string, string) {
				after := vh.ReadLedger(pw.Raw, cast.Nodes, cast.Accts)
				// only a successful withdrawal changes the sum, and only by the credit it settled
				// (no deposits here: the settled amount is all credit)
				want := new(big.Int).Set(before.Sum)
				for _, st := range pw.Settles {
					if !st.Failed {
						a, _ := new(big.Int).SetString(st.Amount, 10)
						want.Sub(want, a)
					}
				}
				if want.Cmp(after.Sum) != 0 {
					cls := "created"
					if after.Sum.Cmp(want) < 0 {
						cls = "lost"
					}
					return "ledger-race/" + driver + "/credit-" + cls, fmt.Sprintf("concurrent %v (results %v, settlements %+v): total credit %s -> %s, expected %s; %s -> %s", threads, errsOut, pw.Settles, before.Sum, after.Sum, want, before, after)
				}
				if after.Stats != nil && after.Stats.Cmp(after.Sum) != 0 {
					return "ledger-race/" + driver + "/stats-disagree", fmt.Sprintf("Stats total %s vs sum %s", after.Stats, after.Sum)
				}
				return "", ""
			},
		})
	}}
}

func min(a, b int) int {
	if a < b {
		return a
	}
	return b
}

func init() {
	vh.Register(&vh.Check{
		ID: "C01", Level: "model_checking",
		Technique: "explicit-state BFS of pool session histories on the real pool (real signatures, both drivers, several price/interval/minimum configurations) with the conservation law as invariant after every event, plus exhaustive single-store-fault deviations and preemption-bounded schedule DFS of concurrent keep-alives/links",
		Rule:      "every sequence of {connect/reconnect, keep-alive with peer sets incl. peers that are clients, clock ticks, wallet links incl. shared wallets and re-links, peer request, forged requests, withdraw ok/failing, deposit} up to the depth bound per configuration; states de-duplicated on the getter-visible store state + clock; invariant: Σ account credit + Σ trial credit (computed from getters and from Stats) unchanged except by a successful withdrawal; distinct = (event kind, error?, balances moved?)",
		Assumptions: []string{
			"nonce high-water marks are left out of the state key: the harness only issues strictly increasing fresh nonces, so they cannot influence later events",
			"on-chain deposits and settlement are modelled at the BalanceStore / SettleHandler seams",
		},
		Units: func(tier string) []vh.Unit {
			var us []vh.Unit
			if tier == "thorough" {
				for _, cfg := range c01Cfgs {
					for s := 0; s < 13; s++ {
						us = append(us, c01BFS(vh.Memory, cfg, 4, s, 13, false))
					}
					for s := 0; s < 2; s++ {
						us = append(us, c01BFS(vh.Badger, cfg, 3, s, 2, false))
					}
				}
				for _, cfg := range c01Cfgs[:4] {
					for s := 0; s < 4; s++ {
						us = append(us, c01BFS(vh.Memory, cfg, 3, s, 4, true))
					}
				}
				us = append(us, c01BFS(vh.Badger, c01Cfgs[3], 2, 0, 1, true))
				for _, cfg := range c01Cfgs {
					for s := 0; s < 6; s++ {
						us = append(us, c01BFSFrom(vh.Memory, cfg, 4, s, 6, false, c01Session))
					}
					us = append(us, c01BFSFrom(vh.Badger, cfg, 3, 0, 1, false, c01Session))
				}
				for _, cfg := range c01Cfgs[:4] {
					us = append(us, c01BFSFrom(vh.Memory, cfg, 3, 0, 1, true, c01Session))
				}
			} else {
				for _, cfg := range c01Cfgs {
					us = append(us, c01BFS(vh.Memory, cfg, 3, 0, 1, false))
				}
				us = append(us, c01BFS(vh.Badger, c01Cfgs[3], 3, 0, 2, false), c01BFS(vh.Badger, c01Cfgs[3], 3, 1, 2, false))
				for _, cfg := range c01Cfgs {
					us = append(us, c01BFSFrom(vh.Memory, cfg, 3, 0, 1, false, c01Session))
				}
				us = append(us, c01BFSFrom(vh.Badger, c01Cfgs[3], 2, 0, 1, false, c01Session), c01BFSFrom(vh.Memory, c01Cfgs[3], 2, 0, 1, true, c01Session))
				us = append(us, c01BFS(vh.Memory, c01Cfgs[3], 2, 0, 1, true), c01BFS(vh.Badger, c01Cfgs[1], 2, 0, 1, true))
			}
			for _, d := range vh.Drivers {
				bound := 2
				if d == vh.Badger {
					bound = 1
				}
				if tier == "thorough" {
					bound++
				}
				for _, sc := range []string{"two-clients-one-host", "client-and-host-share", "link-vs-update", "host-keepalive-vs-first-credit", "host-reconnect-vs-credit"} {
					us = append(us, c01Race(d, sc, bound))
				}
				us = append(us, c01Race(d, "link-vs-link", bound-1), c01Race(d, "three-clients", bound-1))
				us = append(us, c01Race(d, "withdraw-vs-credit", bound), c01Race(d, "failed-withdraw-vs-credit", bound), c01Race(d, "withdraw-vs-two-credits", bound-1), c01Race(d, "withdraw-vs-debit", bound))
			}
			return us
		},
	})
}
