//go:build go1.21

package checks

import (
	"context"
	"fmt"
	"math/big"
	"strings"
	"time"

	"github.com/vipnode/vipnode/v2/internal/verif/vh"
	"github.com/vipnode/vipnode/v2/internal/verif/vsched"
	"github.com/vipnode/vipnode/v2/pool"
	"github.com/vipnode/vipnode/v2/pool/balance"
	"github.com/vipnode/vipnode/v2/pool/store"
)

// C02 — a light client pays elapsed × price per active peer; hosts never pay.

func big10(s string) *big.Int {
	if strings.HasPrefix(s, "2^") {
		var e, add uint
		rest := s[2:]
		if i := strings.Index(rest, "+"); i >= 0 {
			fmt.Sscanf(rest[i+1:], "%d", &add)
			rest = rest[:i]
		}
		fmt.Sscanf(rest, "%d", &e)
		v := new(big.Int).Lsh(big.NewInt(1), e)
		return v.Add(v, big.NewInt(int64(add)))
	}
	if strings.HasPrefix(s, "10^") {
		var e int64
		fmt.Sscanf(s[3:], "%d", &e)
		return new(big.Int).Exp(big.NewInt(10), big.NewInt(e), nil)
	}
	v, ok := new(big.Int).SetString(s, 10)
	if !ok {
		panic(s)
	}
	return v
}

// quotient by the defining inequality: the unique q with q*I <= e*p < (q+1)*I, found without
// re-evaluating the implementation's expression (binary search on the inequality).
func definingQuotient(elapsed time.Duration, price *big.Int, interval time.Duration) *big.Int {
	ep := new(big.Int).Mul(big.NewInt(int64(elapsed)), price)
	I := big.NewInt(int64(interval))
	lo, hi := new(big.Int), new(big.Int).Add(ep, big.NewInt(1)) // q in [lo,hi)
	for {
		// invariant: lo*I <= ep < hi*I   (hi = ep+1 works since I >= 1)
		mid := new(big.Int).Add(lo, hi)
		mid.Rsh(mid, 1)
		if mid.Cmp(lo) == 0 {
			return lo
		}
		if new(big.Int).Mul(mid, I).Cmp(ep) <= 0 {
			lo = mid
		} else {
			hi = mid
		}
	}
}

type c02Case struct {
	elapsed  time.Duration
	price    string
	interval time.Duration
	peers    string // subset of "h1,h2,p,s" : two hosts, a non-host peer, a host sharing the client's wallet
	isHost   bool
	linked   bool
}

func (c c02Case) String() string {
	return fmt.Sprintf("elapsed=%dns price=%s interval=%s peers=[%s] host=%v linked=%v", int64(c.elapsed), c.price, c.interval, c.peers, c.isHost, c.linked)
}

func c02Cases(thorough bool) []c02Case {
	var out []c02Case
	intervals := []time.Duration{1, time.Second, 7 * time.Second, time.Minute}
	prices := []string{"1", "7", "1000", "10^18", "9223372036854775807", "2^64+3", "10^30"}
	peerSets := []string{"", "h1", "p", "s", "h1,h2", "h1,p", "h1,s", "h1,h2,p", "h1,h2,s", "h1,p,s", "p,s"}
	if !thorough {
		prices = []string{"1", "1000", "10^18", "2^64+3"}
		peerSets = []string{"", "h1", "s", "h1,h2", "h1,p,s"}
	}
	for _, I := range intervals {
		els := []time.Duration{0, 1, I - 1, I, I + 1, I*5/2 + 1, 1000000 * I, 1<<63 - 1}
		for _, e := range els {
			if e < 0 {
				continue
			}
			for _, p := range prices {
				for _, ps := range peerSets {
					for _, host := range []bool{false, true} {
						for _, linked := range []bool{false, true} {
							if host && (linked || (ps != "h1" && ps != "")) && !thorough {
								continue
							}
							out = append(out, c02Case{e, p, I, ps, host, linked})
						}
					}
				}
			}
			// machine-word boundaries of the product elapsed*price: prices that put it just below and
			// just at/above 2^31, 2^32, 2^53, 2^63 and 2^64 (any fixed-width or floating shortcut in
			// the arithmetic shows there and nowhere else)
			if e > 0 {
				for _, k := range []uint{31, 32, 53, 63, 64} {
					pw2 := new(big.Int).Lsh(big.NewInt(1), k)
					q := new(big.Int).Div(pw2, big.NewInt(int64(e)))
					for _, d := range []int64{0, 1, 2} {
						pr := new(big.Int).Add(q, big.NewInt(d))
						if pr.Sign() <= 0 {
							continue
						}
						for _, ps := range []string{"h1", "h1,h2,s"} {
							if !thorough && ps != "h1" {
								continue
							}
							out = append(out, c02Case{e, pr.String(), I, ps, false, false})
							out = append(out, c02Case{e, pr.String(), I, ps, false, true})
						}
					}
				}
			}
		}
	}
	return out
}

func c02Direct(driver string, shard, nshards int) vh.Unit {
	name := fmt.Sprintf("onupdate/%s/%d", driver, shard)
	return vh.Unit{Name: name, Run: func(u *vh.U) {
		cases := c02Cases(u.Thorough())
		nodes := []string{"c", "h1", "h2", "p", "s"}
		accounts := []string{"W1", "W2"}
		for i, c := range cases {
			if i%nshards != shard {
				continue
			}
			if u.Expired() {
				return
			}
			vsched.ResetClock(0)
			st := vh.NewStore(driver)
			now := vsched.Now()
			// the payout address a node *announces* is not what decides its ledger entry (the wallet
			// link or the trial balance does): every other case has client, first host and the
			// wallet-sharing host announce the same address, the second host another one
			pa, pb := "", ""
			if i%2 == 0 {
				pa, pb = "0x00000000000000000000000000000000000000AA", "0x00000000000000000000000000000000000000bb"
			}
			st.SetNode(store.Node{ID: "c", LastSeen: now.Add(-c.elapsed), IsHost: c.isHost, Payout: store.Account(pa)})
			st.SetNode(store.Node{ID: "h1", IsHost: true, LastSeen: now, Payout: store.Account(pa)})
			st.SetNode(store.Node{ID: "h2", IsHost: true, LastSeen: now, Payout: store.Account(pb)})
			st.SetNode(store.Node{ID: "p", IsHost: false, LastSeen: now})
			st.SetNode(store.Node{ID: "s", IsHost: true, LastSeen: now, Payout: store.Account(pa)})
			st.AddNodeBalance("c", big.NewInt(50))
			st.AddNodeBalance("h1", big.NewInt(3))
			st.AddAccountNode("W2", "h2")
			if c.linked {
				st.AddAccountNode("W1", "c")
				st.AddAccountNode("W1", "s")
			}
			price := big10(c.price)
			mgr := balance.PayPerInterval(st, c.interval, price)
			node, _ := st.GetNode("c")
			var peers []store.Node
			if c.peers != "" {
				for _, p := range strings.Split(c.peers, ",") {
					n, _ := st.GetNode(store.NodeID(p))
					peers = append(peers, *n)
				}
			}
			before := vh.ReadLedger(st, nodes, accounts)
			var bal store.Balance
			var err error
			if p := vh.Recover(func() { bal, err = mgr.OnUpdate(*node, peers) }); p != "" {
				u.Violate("onupdate/"+driver+"/panic", c.String()+": panic: "+p, nil)
				continue
			}
			after := vh.ReadLedger(st, nodes, accounts)
			u.R.Evaluations++
			u.R.Transitions++
			u.R.States++
			u.R.Traces++
			// expected
			q := definingQuotient(c.elapsed, price, c.interval)
			exp := map[string]*big.Int{}
			key := func(id string) string {
				if id == "h2" {
					return "acct:W2"
				}
				if c.linked && (id == "c" || id == "s") {
					return "acct:W1"
				}
				return "trial:" + id
			}
			add := func(k string, v *big.Int) {
				if exp[k] == nil {
					exp[k] = new(big.Int)
				}
				exp[k].Add(exp[k], v)
			}
			if !c.isHost && q.Sign() > 0 {
				for _, p := range peers {
					add(key(string(p.ID)), q)
					add(key("c"), new(big.Int).Neg(q))
				}
			}
			got := before.Diff(after)
			same := true
			for k, v := range exp {
				if v.Sign() == 0 {
					continue
				}
				if g := got[k]; g == nil || g.Cmp(v) != 0 {
					same = false
				}
			}
			for k, g := range got {
				if v := exp[k]; v == nil || v.Cmp(g) != 0 {
					same = false
				}
			}
			trivial := len(exp) == 0
			if !trivial {
				u.Observe(fmt.Sprint(len(peers), c.linked, q.BitLen()))
			} else {
				u.Observe(fmt.Sprint("nothing-moves", c.isHost, q.Sign(), len(peers)))
			}
			if len(u.R.Samples) < 3 && !trivial {
				u.Sample(c.String() + " => per-peer charge " + q.String())
			}
			if err != nil {
				u.Violate("onupdate/"+driver+"/unexpected-error", fmt.Sprintf("%s: OnUpdate error %v", c, err), nil)
				continue
			}
			if !same {
				cls := "wrong-amount"
				if trivial {
					cls = "moved-when-nothing-should"
				}
				u.Violate("onupdate/"+driver+"/"+cls, fmt.Sprintf("%s: balance changes %v, expected %v (per-peer charge %s)", c, got, exp, q), nil)
				continue
			}
			// returned balance equals the balance read back
			rb, _ := st.GetNodeBalance("c")
			if bal.Credit.Cmp(&rb.Credit) != 0 {
				u.Violate("onupdate/"+driver+"/returned-balance", fmt.Sprintf("%s: returned credit %s, read back %s", c, bal.Credit.String(), rb.Credit.String()), nil)
			}
		}
	}}
}

// slicing: the same wall-clock span cut into every possible set of keep-alives.
func c02Slicing(driver string, shard, nshards int) vh.Unit {
	name := fmt.Sprintf("slicing/%s/%d", driver, shard)
	type cfg struct {
		price    string
		interval time.Duration
		nPeers   int
		shared   bool
	}
	var cfgs []cfg
	for _, pi := range []struct {
		p string
		i time.Duration
	}{{"1", 1}, {"7", 7 * time.Second}, {"1000", time.Minute}, {"10^18", time.Minute}, {"2^64+3", time.Second}, {"1", time.Hour}} {
		for np := 1; np <= 2; np++ {
			cfgs = append(cfgs, cfg{pi.p, pi.i, np, false})
		}
		cfgs = append(cfgs, cfg{pi.p, pi.i, 2, true})
	}
	ids := vh.Identities()
	C, H1, H2, W := ids[0], ids[1], ids[2], ids[4]
	const steps = 6
	const unit = 20 * time.Second
	return vh.Unit{Name: name, Run: func(u *vh.U) {
		k := 0
		for _, c := range cfgs {
			for cuts := 0; cuts < 1<<(steps-1); cuts++ {
				k++
				if k%nshards != shard {
					continue
				}
				if u.Expired() {
					return
				}
				vsched.ResetClock(0)
				price := big10(c.price)
				pw := vh.NewPoolWorld(vh.PoolConfig{Driver: driver, Price: price, Interval: c.interval})
				hosts := []*vh.Ident{H1, H2}[:c.nPeers]
				fail := func(what string, err error) {
					u.Violate("slicing/"+driver+"/call-failed", fmt.Sprintf("price=%s interval=%s peers=%d cuts=%05b: %s: %v", c.price, c.interval, c.nPeers, cuts, what, err), nil)
				}
				var hostIDs []string
				for _, h := range hosts {
					if _, err := pw.Connect(h, vh.ConnectOpts{Host: true}); err != nil {
						fail("connect host", err)
					}
					hostIDs = append(hostIDs, h.NodeID)
				}
				if _, err := pw.Connect(C, vh.ConnectOpts{}); err != nil {
					fail("connect client", err)
				}
				if c.shared {
					// the client and its first host share one wallet
					pw.AddNode(W, C.NodeID)
					pw.AddNode(W, H1.NodeID)
				}
				if _, err := pw.Update(C, hostIDs, 1); err != nil {
					fail("first update", err)
				}
				nodes := []string{C.NodeID, H1.NodeID, H2.NodeID}
				accts := []string{W.Wallet}
				before := vh.ReadLedger(pw.Store, nodes, accts)
				updates := 0
				// other things the client does in between must not move the billing: a peer request at
				// the first step without a keep-alive; the first keep-alive of the run listing no peers
				// (its peers stay tracked and active: it bills like any other)
				distract := []string{"", "peer-request", "empty-list"}[(k/nshards)%3]
				distracted := false
				for step := 1; step <= steps; step++ {
					vsched.Advance(unit)
					for _, h := range hosts {
						if _, err := pw.Update(h, nil, uint64(step)); err != nil {
							fail("host keep-alive", err)
						}
					}
					if step == steps || cuts&(1<<(step-1)) != 0 {
						list := hostIDs
						if distract == "empty-list" && !distracted && step < steps {
							list, distracted = nil, true
						}
						if _, err := pw.Update(C, list, uint64(step)); err != nil {
							fail("client keep-alive", err)
						}
						updates++
					} else if distract == "peer-request" && !distracted {
						distracted = true
						if _, err := pw.Peer(context.Background(), C, 1, ""); err != nil {
							if _, noHosts := err.(pool.NoHostNodesError); !noHosts {
								fail("peer request", err)
							}
						}
					}
				}
				after := vh.ReadLedger(pw.Store, nodes, accts)
				u.R.Evaluations++
				u.R.States++
				u.R.Transitions += int64(updates)
				u.R.Traces++
				T := time.Duration(steps) * unit
				U := definingQuotient(T, price, c.interval)
				d := before.Diff(after)
				clientKey, h1Key := "trial:"+C.NodeID, "trial:"+H1.NodeID
				if c.shared {
					clientKey, h1Key = "acct:"+W.Wallet, "acct:"+W.Wallet
				}
				get := func(k string) *big.Int {
					if v := d[k]; v != nil {
						return v
					}
					return new(big.Int)
				}
				// per-peer total S must satisfy U-updates < S <= U ; the client pays exactly the sum
				total := new(big.Int)
				var perPeer []*big.Int
				if c.shared {
					// wallet W nets client debit and H1 credit; H2 is observable on its own
					s2 := get("trial:" + H2.NodeID)
					perPeer = append(perPeer, s2)
					// W changed by -(S1+S2)+S1 = -S2
					if new(big.Int).Neg(get(clientKey)).Cmp(s2) != 0 {
						u.Violate("slicing/"+driver+"/not-zero-sum", fmt.Sprintf("price=%s interval=%s shared wallet cuts=%05b: wallet delta %s, other host got %s", c.price, c.interval, cuts, get(clientKey), s2), nil)
					}
				} else {
					for _, h := range hosts {
						s := get("trial:" + h.NodeID)
						perPeer = append(perPeer, s)
						total.Add(total, s)
					}
					if new(big.Int).Neg(get(clientKey)).Cmp(total) != 0 {
						u.Violate("slicing/"+driver+"/client-debit", fmt.Sprintf("price=%s interval=%s peers=%d cuts=%05b: client delta %s, hosts got %s", c.price, c.interval, c.nPeers, cuts, get(clientKey), total), nil)
					}
					_ = h1Key
				}
				for _, s := range perPeer {
					lowExcl := new(big.Int).Sub(U, big.NewInt(int64(updates)))
					u.Observe(fmt.Sprintf("%s/%s upd=%d loss=%s", c.price, c.interval, updates, new(big.Int).Sub(U, s)))
					if !(s.Cmp(lowExcl) > 0 && s.Cmp(U) <= 0) {
						cls := "overcharged"
						if s.Cmp(U) <= 0 {
							cls = "undercharged"
						}
						u.Violate("slicing/"+driver+"/"+cls, fmt.Sprintf("price=%s interval=%s peers=%d cuts=%05b (%d keep-alives over %s): a peer was credited %s in total; one keep-alive over the whole span gives %s (allowed: within %d units below)", c.price, c.interval, c.nPeers, cuts, updates, T, s, U, updates), nil)
					}
				}
				if len(u.R.Samples) < 2 {
					u.Sample(fmt.Sprintf("price=%s interval=%s peers=%d cut-mask=%05b -> per-peer totals %v vs unsliced %s", c.price, c.interval, c.nPeers, cuts, perPeer, U))
				}
			}
		}
	}}
}

// latencyStore lets (virtual) time pass inside a keep-alive, between the store stamping the node's
// check-in and the balance manager reading the clock - as a slow disk or a GC pause would.
type latencyStore struct {
	store.Store
	delay time.Duration
}

func (l latencyStore) UpdateNodePeers(id store.NodeID, peers []string, b uint64) ([]store.NodeID, error) {
	r, err := l.Store.UpdateNodePeers(id, peers, b)
	vsched.Advance(l.delay)
	return r, err
}

// no stretch of time is charged twice, also when processing a keep-alive takes time
func c02Latency(driver string) vh.Unit {
	name := "processing-latency/" + driver
	ids := vh.Identities()
	C, H1 := ids[0], ids[1]
	return vh.Unit{Name: name, Run: func(u *vh.U) {
		for _, delay := range []time.Duration{0, time.Millisecond, 2 * time.Second} {
			for _, rounds := range []int{1, 3} {
				vsched.ResetClock(0)
				pw := vh.NewPoolWorld(vh.PoolConfig{Driver: driver, Price: big.NewInt(1), Interval: 1, WrapStore: func(s store.Store) store.Store { return latencyStore{s, delay} }})
				pw.Connect(H1, vh.ConnectOpts{Host: true})
				pw.Connect(C, vh.ConnectOpts{})
				pw.Update(C, []string{H1.NodeID}, 1)
				n0, _ := pw.Raw.GetNode(store.NodeID(C.NodeID))
				before := vh.ReadLedger(pw.Raw, []string{C.NodeID, H1.NodeID}, nil)
				for i := 0; i < rounds; i++ {
					vsched.Advance(30 * time.Second)
					pw.Update(H1, nil, 2)
					if _, err := pw.Update(C, []string{H1.NodeID}, 2); err != nil {
						u.Violate("latency/"+driver+"/update-failed", err.Error(), nil)
						return
					}
				}
				n1, _ := pw.Raw.GetNode(store.NodeID(C.NodeID))
				after := vh.ReadLedger(pw.Raw, []string{C.NodeID, H1.NodeID}, nil)
				span := n1.LastSeen.Sub(n0.LastSeen) // from the first recorded check-in to the last one
				got := before.Diff(after)["trial:"+H1.NodeID]
				if got == nil {
					got = new(big.Int)
				}
				u.R.Evaluations++
				u.R.States++
				u.R.Transitions += int64(rounds)
				u.R.Traces++
				u.Observe(fmt.Sprintf("%s %d over=%s", delay, rounds, new(big.Int).Sub(got, big.NewInt(int64(span)))))
				if got.Cmp(big.NewInt(int64(span))) > 0 {
					u.Violate("latency/time-charged-twice", fmt.Sprintf("driver %s, %d keep-alives, %s passing inside each keep-alive between the check-in stamp and the billing: the peer was credited %s ns worth for a span of %d ns between the client's first and last recorded check-in", driver, rounds, delay, got, int64(span)), nil)
				}
			}
		}
		u.Sample("keep-alives during which 0 / 1ms / 2s pass between UpdateNodePeers and OnUpdate")
	}}
}

// all-or-nothing: one store call of the billing keep-alive fails, every position.
func c02Atomic(driver string) vh.Unit {
	name := "all-or-nothing/" + driver
	ids := vh.Identities()
	C, H1, H2, W := ids[0], ids[1], ids[2], ids[4]
	return vh.Unit{Name: name, Run: func(u *vh.U) {
		for _, linked := range []bool{false, true} {
			var K int
			var ref vh.Ledger
			for j := -1; j < 64; j++ {
				if j >= 0 && j >= K {
					break
				}
				vsched.ResetClock(0)
				var fs *vh.FaultStore
				pw := vh.NewPoolWorld(vh.PoolConfig{Driver: driver, WrapStore: func(s store.Store) store.Store {
					fs = vh.NewFaultStore(s)
					return fs
				}})
				pw.Connect(H1, vh.ConnectOpts{Host: true})
				pw.Connect(H2, vh.ConnectOpts{Host: true})
				pw.Connect(C, vh.ConnectOpts{})
				if linked {
					pw.AddNode(W, C.NodeID)
				}
				hostIDs := []string{H1.NodeID, H2.NodeID}
				pw.Update(C, hostIDs, 1)
				vsched.Advance(90 * time.Second)
				pw.Update(H1, nil, 2)
				pw.Update(H2, nil, 2)
				nodes := []string{C.NodeID, H1.NodeID, H2.NodeID}
				accts := []string{W.Wallet}
				before := vh.ReadLedger(pw.Raw, nodes, accts)
				start := fs.N
				if j >= 0 {
					fs.FailAt = start + j
				}
				_, err := pw.Update(C, hostIDs, 3)
				fs.FailAt = -1
				after := vh.ReadLedger(pw.Raw, nodes, accts)
				u.R.Evaluations++
				u.R.States++
				u.R.Transitions++
				u.R.Traces++
				if j < 0 {
					K = fs.N - start
					ref = after
					if err != nil || before.Equal(after) {
						u.Violate("all-or-nothing/"+driver+"/baseline", fmt.Sprintf("fault-free billing update: err=%v ledger %s -> %s", err, before, after), nil)
						return
					}
					u.Sample(fmt.Sprintf("linked=%v store calls of one billing keep-alive: %v", linked, fs.Log[start:]))
					continue
				}
				call := fs.Log[start+j]
				call = strings.Split(call, "(")[0]
				u.Observe(fmt.Sprintf("%v %d %s err=%v", linked, j, call, err != nil))
				switch {
				case err != nil && !before.Equal(after) && !ref.Equal(after):
					u.Violate("all-or-nothing/"+driver+"/failed-update-moved-balances/"+call,
						fmt.Sprintf("linked=%v: store call #%d (%s) of the keep-alive failed, the update returned %q, yet balances moved: %s -> %s", linked, j, fs.Log[start+j], err, before, after), nil)
				case err == nil && !ref.Equal(after):
					u.Violate("all-or-nothing/"+driver+"/fault-swallowed/"+call,
						fmt.Sprintf("linked=%v: store call #%d (%s) failed, the update reported success, but the result differs from a fault-free update: %s instead of %s", linked, j, fs.Log[start+j], after, ref), nil)
				}
			}
		}
	}}
}

// the persistent driver retries a transaction that lost its commit race: a billing keep-alive whose
// transactions lose 1..k races in a row charges exactly what an undisturbed one charges
func c02ConflictRetries() vh.Unit {
	name := "conflict-retries/badger"
	ids := vh.Identities()
	C, H1, H2, W := ids[0], ids[1], ids[2], ids[4]
	return vh.Unit{Name: name, Run: func(u *vh.U) {
		for _, linked := range []bool{false, true} {
			var ref vh.Ledger
			for _, k := range []int{0, 1, 2, 3, 7} {
				for skip := 0; skip < 8; skip++ { // the first `skip` transactions of the keep-alive commit undisturbed
					if k == 0 && skip > 0 {
						continue
					}
					vsched.ResetClock(0)
					var fs *vh.FaultStore
					pw := vh.NewPoolWorld(vh.PoolConfig{Driver: vh.Badger, WrapStore: func(s store.Store) store.Store {
						fs = vh.NewFaultStore(s)
						return fs
					}})
					pw.Connect(H1, vh.ConnectOpts{Host: true})
					pw.Connect(H2, vh.ConnectOpts{Host: true})
					pw.Connect(C, vh.ConnectOpts{})
					if linked {
						pw.AddNode(W, C.NodeID)
					}
					hostIDs := []string{H1.NodeID, H2.NodeID}
					pw.Update(C, hostIDs, 1)
					vsched.Advance(90 * time.Second)
					pw.Update(H1, nil, 2)
					pw.Update(H2, nil, 2)
					nodes := []string{C.NodeID, H1.NodeID, H2.NodeID}
					accts := []string{W.Wallet}
					before := vh.ReadLedger(pw.Raw, nodes, accts)
					// conflicts start after `skip` store calls of the keep-alive
					armed := false
					fs.OnCall = func(n int) {
						if !armed && n >= skip {
							armed = true
							vh.InjectBadgerConflicts(k)
						}
					}
					base := fs.N
					fs.Base = base
					_, err := pw.Update(C, hostIDs, 3)
					fs.OnCall = nil
					vh.InjectBadgerConflicts(0)
					after := vh.ReadLedger(pw.Raw, nodes, accts)
					u.R.Evaluations++
					u.R.States++
					u.R.Transitions++
					u.R.Traces++
					if k == 0 {
						ref = after
						if err != nil || before.Equal(after) {
							u.Violate("conflict-retries/baseline", fmt.Sprintf("undisturbed billing keep-alive: err=%v", err), nil)
							return
						}
						continue
					}
					u.Observe(fmt.Sprintf("linked=%v k=%d skip=%d err=%v", linked, k, skip, err != nil))
					if err != nil || !ref.Equal(after) {
						u.Violate("conflict-retries/charged-differently", fmt.Sprintf("linked=%v: %d lost commit races in a row after store call %d of a billing keep-alive: err=%v, ledger %s instead of %s", linked, k, skip, err, after, ref), nil)
					}
				}
			}
		}
		u.Sample("a billing keep-alive whose transactions lose 1/2/3/7 commit races in a row, starting at each of its first 8 store calls")
	}}
}

// a client that is billed below the minimum and keeps sending keep-alives: every keep-alive is
// refused with the low-balance error, and still every stretch of time is billed exactly once
func c02BelowMinimum(driver string) vh.Unit {
	name := "below-minimum/" + driver
	ids := vh.Identities()
	C, H1 := ids[0], ids[1]
	return vh.Unit{Name: name, Run: func(u *vh.U) {
		for _, crossAt := range []int{1, 2, 3, 5} { // the keep-alive that takes the client below the minimum
			for _, rounds := range []int{4, 6} {
				vsched.ResetClock(0)
				// price 1 per ns: a keep-alive after 20 s costs 20e9; minimum chosen so that round crossAt crosses it
				min := new(big.Int).Neg(big.NewInt(int64(crossAt)*20e9 - 10e9))
				pw := vh.NewPoolWorld(vh.PoolConfig{Driver: driver, Price: big.NewInt(1), Interval: 1, MinBalance: min})
				pw.Connect(H1, vh.ConnectOpts{Host: true})
				if _, err := pw.Connect(C, vh.ConnectOpts{}); err != nil {
					u.Violate("below-minimum/setup", err.Error(), nil)
					continue
				}
				pw.Update(C, []string{H1.NodeID}, 1)
				lows := 0
				for r := 1; r <= rounds; r++ {
					vsched.Advance(20 * time.Second)
					pw.Update(H1, nil, uint64(r))
					_, err := pw.Update(C, []string{H1.NodeID}, uint64(r))
					if _, low := vh.AsLowBalance(err); low {
						lows++
					} else if err != nil {
						u.Violate("below-minimum/"+driver+"/unexpected-error", err.Error(), nil)
					}
				}
				bal, _ := pw.Store.GetNodeBalance(store.NodeID(H1.NodeID))
				u.R.Evaluations++
				u.R.States++
				u.R.Transitions += int64(rounds)
				u.R.Traces++
				want := big.NewInt(int64(rounds) * 20e9)
				u.Observe(fmt.Sprintf("cross=%d rounds=%d lows=%d over=%s", crossAt, rounds, lows, new(big.Int).Sub(&bal.Credit, want)))
				if bal.Credit.Cmp(want) != 0 {
					u.Violate("below-minimum/"+driver+"/time-billed-twice-or-not-at-all", fmt.Sprintf("%d keep-alives 20 s apart at 1 per ns, the client crossing its minimum at keep-alive %d (%d were refused as low balance): the host was credited %s for %s ns of service", rounds, crossAt, lows, bal.Credit.String(), want), nil)
				}
			}
		}
		u.Sample("keep-alives continuing after the low-balance cut-off")
	}}
}

// "elapsed is the time since the client's previous keep-alive or connect": histories in which the
// client re-registers between keep-alives. Every keep-alive bills exactly the stretch since the
// later of the two, on both drivers.
func c02Reconnects(driver string) vh.Unit {
	name := "reconnects/" + driver
	return vh.Unit{Name: name, Run: func(u *vh.U) {
		cast := vh.StdCast()
		C, H := cast.ByName["C1"], cast.ByName["H1"]
		alphabet := []string{"tick 7s", "tick 40s", "upd", "conn"}
		var hist []string
		var rec func(depth int)
		run := func(h []string) {
			vsched.ResetClock(0)
			pw := vh.NewPoolWorld(vh.PoolConfig{Driver: driver, Price: big.NewInt(1000), Interval: time.Second})
			for _, e := range []string{"conn H1", "conn C1", "upd C1 H1"} {
				vh.PoolEvent(pw, cast, e)
			}
			last := vsched.Now()
			for i, ev := range h {
				switch ev {
				case "tick 7s":
					vsched.Advance(7 * time.Second)
				case "tick 40s":
					vsched.Advance(40 * time.Second)
				case "conn":
					if _, err := pw.Connect(C, vh.ConnectOpts{}); err != nil {
						u.Violate("reconnects/"+driver+"/reconnect-refused", fmt.Sprintf("history %v: %v", h[:i+1], err), nil)
						return
					}
					last = vsched.Now()
				case "upd":
					before, _ := pw.Raw.GetNodeBalance(store.NodeID(H.NodeID))
					cb, _ := pw.Raw.GetNodeBalance(store.NodeID(C.NodeID))
					pw.UpdateCtx(vh.CtxWith(pw.Host(H.Name).Service()), H, nil, 1) // the host stays active
					if _, err := pw.Update(C, []string{H.NodeID}, 1); err != nil {
						u.Violate("reconnects/"+driver+"/keep-alive-refused", fmt.Sprintf("history %v: %v", h[:i+1], err), nil)
						return
					}
					after, _ := pw.Raw.GetNodeBalance(store.NodeID(H.NodeID))
					ca, _ := pw.Raw.GetNodeBalance(store.NodeID(C.NodeID))
					el := vsched.Now().Sub(last)
					want := new(big.Int).Div(new(big.Int).Mul(big.NewInt(int64(el)), big.NewInt(1000)), big.NewInt(int64(time.Second)))
					got := new(big.Int).Sub(&after.Credit, &before.Credit)
					paid := new(big.Int).Sub(&cb.Credit, &ca.Credit)
					last = vsched.Now()
					if i == len(h)-1 {
						u.R.Evaluations++
						u.R.States++
						u.R.Transitions += int64(len(h))
						u.R.Traces++
						u.Observe(fmt.Sprintf("reconnects %s el=%s ok=%v", driver, el, got.Cmp(want) == 0))
						if got.Cmp(want) != 0 || paid.Cmp(want) != 0 {
							cls := "overcharged"
							if got.Cmp(want) < 0 {
								cls = "undercharged"
							}
							u.Violate("reconnects/"+driver+"/"+cls, fmt.Sprintf("history %v (after: host and client registered, client reported the host): %s since the client's previous keep-alive or connect, the host was credited %s and the client debited %s, expected %s", h, el, got, paid, want), nil)
						}
					}
				}
			}
		}
		rec = func(depth int) {
			if len(hist) > 0 && hist[len(hist)-1] == "upd" {
				run(hist)
				if u.NViolations() > 0 {
					return
				}
			}
			if depth == 0 {
				return
			}
			for _, ev := range alphabet {
				hist = append(hist, ev)
				rec(depth - 1)
				hist = hist[:len(hist)-1]
				if u.NViolations() > 0 {
					return
				}
			}
		}
		depth := 5
		if u.Thorough() {
			depth = 7
		}
		rec(depth)
		u.Sample(fmt.Sprintf("all histories over {tick 7s, tick 40s, keep-alive, reconnect} up to length %d ending in a keep-alive", depth))
	}}
}

func init() {
	vh.Register(&vh.Check{
		ID: "C02", Level: "model_checking",
		Technique: "schedule DFS of overlapping keep-alives of one client with a serial-permutation oracle; bounded-exhaustive enumeration of billing inputs and of all keep-alive slicings of one span on the real balance manager/pool, judged by the defining inequality of the floor quotient; exhaustive single-fault injection over the store calls of a keep-alive",
		Rule:      "full product of elapsed x price x interval x peer set x host/client x linked/unlinked on the real OnUpdate (both drivers); all 32 cut sets of a 6-step span x 18 price/interval/peer configurations through the real signed pool; every store-call position of a billing keep-alive failed once; distinct = distinct (peer count, linkage, charge magnitude) resp. (config, keep-alive count, rounding loss) observations",
		Assumptions: []string{
			"a keep-alive that reports an error must leave the balances either untouched or in the complete fault-free outcome (fully applied, error only from the final read-back)", "all-or-nothing is judged on balances (what the property's billing statement is about), not on the keep-alive's LastSeen/peer bookkeeping",
			"elapsed < 0 (clock moving backwards) is outside the alphabet",
		},
		Units: func(tier string) []vh.Unit {
			var us []vh.Unit
			n := 4
			if tier == "thorough" {
				n = 8
			}
			for _, d := range vh.Drivers {
				for s := 0; s < n; s++ {
					us = append(us, c02Direct(d, s, n))
				}
				for s := 0; s < n; s++ {
					us = append(us, c02Slicing(d, s, n))
				}
				us = append(us, c02Atomic(d), c02Latency(d), c02BelowMinimum(d))
				if d == vh.Badger {
					us = append(us, c02ConflictRetries())
				}
				// no stretch of time is charged twice, also when keep-alives of one client overlap
				b := 2
				if d == vh.Badger {
					b = 1
				}
				if tier == "thorough" {
					b++
				}
				us = append(us, c10SerialNamed("overlapping-keepalives", d, "same-client-twice", b))
				// ... also while time passes during the overlap and a reconnect is queued behind a keep-alive
				us = append(us, c10SerialNamed("overlapping-keepalives", d, "two-updates-vs-clock", b), c10SerialNamed("overlapping-keepalives", d, "reconnect-vs-update-vs-clock", b), c10SerialNamed("overlapping-keepalives", d, "update-vs-reconnect-vs-clock", b))
				if d == vh.Memory {
					us = append(us, c10SerialNamed("overlapping-keepalives", d, "queued-then-late", b))
				}
			}
			us = append(us, c02BinaryPrice(), c02Reconnects(vh.Memory), c02Reconnects(vh.Badger))
			return us
		},
	})
}
