//go:build go1.21

package checks

import (
	"fmt"
	"math/big"
	"strings"
	"time"

	"github.com/vipnode/vipnode/v2/internal/verif/vh"
	"github.com/vipnode/vipnode/v2/internal/verif/vsched"
	"github.com/vipnode/vipnode/v2/pool"
	"github.com/vipnode/vipnode/v2/pool/store"
)

// C06 — a refused request changes nothing.

var c06Session = []string{"conn H1", "conn C1", "upd C1 H1", "peer C1 1", "link W1 C1", "tick 30s"}

var c06Kinds = []string{"badsig", "otherkey", "malformed", "stale", "replayed"}

// histories of session events up to depth
func c06Histories(depth int) [][]string {
	out := [][]string{{}}
	frontier := [][]string{{}}
	for d := 0; d < depth; d++ {
		var next [][]string
		for _, h := range frontier {
			for _, e := range c06Session {
				nh := append(append([]string{}, h...), e)
				next = append(next, nh)
			}
		}
		out = append(out, next...)
		frontier = next
	}
	return out
}

func c06Unit(depth, shard, nshards int) vh.Unit {
	name := fmt.Sprintf("refusals/d%d/%d", depth, shard)
	cast := vh.StdCast()
	return vh.Unit{Name: name, Run: func(u *vh.U) {
		seenState := map[string]bool{}
		for hi, hist := range c06Histories(depth) {
			if hi%nshards != shard {
				continue
			}
			build := func() *vh.PoolWorld {
				vsched.ResetClock(0)
				pw := vh.NewPoolWorld(vh.PoolConfig{Driver: vh.Memory})
				for _, e := range hist {
					vh.PoolEvent(pw, cast, e)
				}
				return pw
			}
			// de-duplicate session states (the same reachable state needs probing once)
			{
				pw := build()
				k := fmt.Sprintf("%d|%s|%s", vsched.Elapsed(), poolDigest(pw, cast), vh.StateKey(pw.Raw))
				if seenState[k] {
					continue
				}
				seenState[k] = true
				u.R.States++
			}
			for _, endpoint := range vh.SignedEndpoints {
				for _, kind := range c06Kinds {
					// the identity the refused request names: a client, a host, a wallet known to the
					// pool, or one it has never seen
					victims := []*vh.Ident{cast.ByName["C1"], cast.ByName["H1"], vh.Identities()[7]}
					if vh.IsWalletEndpoint(endpoint) {
						victims = []*vh.Ident{cast.ByName["W1"], vh.Identities()[7]}
					}
					for _, victim := range victims {
						if u.Expired() {
							return
						}
						fresh := victim == vh.Identities()[7]
						attacker := cast.ByName["H3"]
						pw := build()
						now := vsched.Now().UnixNano()
						// the victim's last accepted nonce, established by a legitimate request
						lastNonce := now + 200
						var warm vh.Call
						if vh.IsWalletEndpoint(endpoint) {
							warm = vh.NewCall("pool_addNode", victim, lastNonce, "nosuchnode")
						} else {
							warm = vh.NewCall("vipnode_update", victim, lastNonce, vh.DefaultParam("vipnode_update", cast.ByName["H1"].NodeID))
						}
						if kind == "replayed" {
							if _, err := warm.Invoke(pw, vh.CtxWith(pw.Host("x").Service())); vh.IsRefused(err) {
								u.Violate("c06/setup/valid-request-refused", fmt.Sprintf("history %v: warm-up %s by %s refused: %v", hist, warm.Endpoint, victim.Name, err), nil)
								continue
							}
						}
						param := vh.DefaultParam(endpoint, cast.ByName["H1"].NodeID)
						forgedNonce := now + 1000
						var call vh.Call
						switch kind {
						case "badsig":
							call = vh.NewCall(endpoint, victim, forgedNonce, param)
							call.Nonce++ // signature no longer matches
						case "otherkey":
							call = vh.NewCall(endpoint, victim, forgedNonce, param).Resign(attacker)
						case "malformed":
							call = vh.NewCall(endpoint, victim, forgedNonce, param)
							call.Sig = "AAAA"
						case "stale":
							call = vh.NewCall(endpoint, victim, now-int64(15*time.Minute)-1, param)
						case "replayed":
							call = vh.NewCall(endpoint, victim, lastNonce, param)
						}
						ctx := vh.CtxWith(pw.Host("attacker-conn").Service())
						before := poolDigest(pw, cast) + nodeView(pw, victim)
						var err error
						p := vh.Recover(func() { _, err = call.Invoke(pw, ctx) })
						after := poolDigest(pw, cast) + nodeView(pw, victim)
						u.R.Evaluations++
						u.R.Transitions++
						u.R.Traces++
						u.Observe(fmt.Sprintf("%s %s victim=%s refused=%v", endpoint, kind, victim.Name, vh.IsRefused(err)))
						desc := fmt.Sprintf("history %v, %s refusal kind %q aimed at %s (fresh identity: %v)", hist, endpoint, kind, victim.Name, fresh)
						if len(u.R.Samples) < 2 {
							u.Sample(desc)
						}
						if p != "" {
							u.Violate("c06/"+endpoint+"/panic/"+kind, desc+": panic: "+p, nil)
							continue
						}
						if !vh.IsRefused(err) {
							u.Violate("c06/"+endpoint+"/not-refused/"+kind, fmt.Sprintf("%s: err=%v", desc, err), nil)
							continue
						}
						if before != after {
							u.Violate("c06/"+endpoint+"/refused-request-left-trace/"+kind, fmt.Sprintf("%s: state changed\n before %s\n after  %s", desc, before, after), nil)
							continue
						}
						// the nonce was not consumed: the owner's next legitimate request with a nonce
						// below the forged one (fresh, above its own last) is accepted
						follow := now + 500
						var next vh.Call
						if vh.IsWalletEndpoint(endpoint) {
							next = vh.NewCall("pool_addNode", victim, follow, "nosuchnode")
						} else {
							next = vh.NewCall("vipnode_update", victim, follow, vh.DefaultParam("vipnode_update", cast.ByName["H1"].NodeID))
						}
						var err2 error
						if p := vh.Recover(func() { _, err2 = next.Invoke(pw, vh.CtxWith(pw.Host("x").Service())) }); p != "" {
							u.Violate("c06/"+endpoint+"/panic/follow-up", desc+": follow-up panic: "+p, nil)
							continue
						} else if vh.IsRefused(err2) {
							u.Violate("c06/"+endpoint+"/nonce-consumed-by-refused-request/"+kind, fmt.Sprintf("%s: the owner's next legitimate %s (nonce below the refused one, above its own last) was refused: %v", desc, next.Endpoint, err2), nil)
							continue
						}
						// differential oracle: what the pool does from here on is what it would have
						// done had the refused request never arrived (a twin world with the same
						// history, the same follow-up, but without the refused request)
						// (fresh worlds: the follow-up above is itself a request that may re-establish
						// what the refused one disturbed)
						again := build()
						twin := build()
						for _, w := range []*vh.PoolWorld{again, twin} {
							// (the victim's last honoured request: part of both worlds, replayed by the probe)
							warm.Invoke(w, vh.CtxWith(w.Host("x").Service()))
							w.Host("attacker-conn")
						}
						call.Invoke(again, vh.CtxWith(again.Host("attacker-conn").Service()))
						var got, want string
						if p := vh.Recover(func() { got = c06Probe(again, cast, now, warm) }); p != "" {
							u.Violate("c06/"+endpoint+"/panic/after-refusal", desc+": later request panicked: "+p, nil)
							continue
						}
						vh.Recover(func() { want = c06Probe(twin, cast, now, warm) })
						if got != want {
							u.Violate("c06/"+endpoint+"/refused-request-changed-later-behaviour/"+kind, fmt.Sprintf("%s: the pool's later behaviour differs from a pool that never saw the refused request\n with    %s\n without %s", desc, got, want), nil)
						}
					}
				}
			}
		}
	}}
}

// c06Probe exercises the pool after the fact: who gets asked to whitelist a requesting client, what
// closing the connection the refused request arrived on does, what the next keep-alive bills.
func c06Probe(pw *vh.PoolWorld, cast *vh.Cast, now int64, honoured vh.Call) string {
	var b strings.Builder
	// (the virtual clock is global: both worlds are probed at the instant of the refused request)
	vsched.ResetClock(time.Duration(now - vsched.Base().UnixNano()))
	C1, C2 := cast.ByName["C1"], cast.ByName["C2"]
	ask := func(tag string, n int64) {
		resp, err := vh.NewCall("vipnode_peer", C2, now+n, pool.PeerRequest{Num: 3}).Invoke(pw, vh.CtxWith(pw.Host("probe").Service()))
		fmt.Fprintf(&b, "%s: peers=%s err=%v calls=%s remotes=%d | ", tag, vh.ShortJSON(resp), err, pw.CallLog(), pw.Pool.NumRemotes())
	}
	pw.Store.SetNode(store.Node{ID: store.NodeID(C2.NodeID), Kind: "geth", LastSeen: vsched.Now()})
	ask("peer", 2000)
	err := pw.Pool.CloseRemote(pw.Host("attacker-conn").Service())
	fmt.Fprintf(&b, "close attacker-conn err=%v | ", err)
	ask("peer-after-close", 2001)
	vsched.Advance(30 * time.Second)
	_, err = vh.NewCall("vipnode_update", C1, now+2002, vh.DefaultParam("vipnode_update", cast.ByName["H1"].NodeID)).Invoke(pw, vh.CtxWith(pw.Host("x").Service()))
	fmt.Fprintf(&b, "keep-alive err=%v state=%s", err, poolDigest(pw, cast))
	// last (it is itself a refused request): the victim's last honoured request, submitted again, is
	// still a replay
	_, rerr := honoured.Invoke(pw, vh.CtxWith(pw.Host("x").Service()))
	fmt.Fprintf(&b, " | replay of the honoured %s refused=%v", honoured.Endpoint, vh.IsRefused(rerr))
	return b.String()
}

// a burst of refused requests leaves no trace either: refusals are not only idempotent one at a
// time, they do not add up (no budget, counter, cache or table that the named identity pays for)
func c06Burst(n int) vh.Unit {
	name := fmt.Sprintf("refusal-burst/x%d", n)
	cast := vh.StdCast()
	return vh.Unit{Name: name, Run: func(u *vh.U) {
		for _, endpoint := range vh.SignedEndpoints {
			for _, kind := range c06Kinds[:4] { // (a replayed request needs an accepted one first: covered one at a time)
				victims := []*vh.Ident{cast.ByName["C1"], cast.ByName["H1"]}
				if vh.IsWalletEndpoint(endpoint) {
					victims = []*vh.Ident{cast.ByName["W1"]}
				}
				for _, victim := range victims {
					if u.Expired() {
						return
					}
					vsched.ResetClock(0)
					pw := vh.NewPoolWorld(vh.PoolConfig{Driver: vh.Memory})
					for _, e := range c06Session {
						vh.PoolEvent(pw, cast, e)
					}
					now := vsched.Now().UnixNano()
					attacker := cast.ByName["H3"]
					param := vh.DefaultParam(endpoint, cast.ByName["H1"].NodeID)
					ctx := vh.CtxWith(pw.Host("attacker-conn").Service())
					before := poolDigest(pw, cast) + nodeView(pw, victim)
					notRefused := 0
					for i := 0; i < n; i++ {
						nonce := now + 1000 + int64(i)
						var call vh.Call
						switch kind {
						case "badsig":
							call = vh.NewCall(endpoint, victim, nonce, param)
							call.Nonce += 1 << 20
						case "otherkey":
							call = vh.NewCall(endpoint, victim, nonce, param).Resign(attacker)
						case "malformed":
							call = vh.NewCall(endpoint, victim, nonce, param)
							call.Sig = "AAAA"
						case "stale":
							call = vh.NewCall(endpoint, victim, now-int64(15*time.Minute)-1-int64(i), param)
						}
						var err error
						if p := vh.Recover(func() { _, err = call.Invoke(pw, ctx) }); p != "" {
							u.Violate("c06/"+endpoint+"/panic/burst", fmt.Sprintf("refused %s #%d (%s): panic: %s", endpoint, i, kind, p), nil)
							break
						}
						if !vh.IsRefused(err) {
							notRefused++
						}
						u.R.Transitions++
					}
					after := poolDigest(pw, cast) + nodeView(pw, victim)
					u.R.Evaluations++
					u.R.States++
					u.R.Traces++
					desc := fmt.Sprintf("%d refused %s requests (%s) naming %s in one instant", n, endpoint, kind, victim.Name)
					if notRefused > 0 {
						u.Violate("c06/"+endpoint+"/not-refused/"+kind, fmt.Sprintf("%s: %d were not refused", desc, notRefused), nil)
						continue
					}
					if before != after {
						u.Violate("c06/"+endpoint+"/refused-request-left-trace/"+kind, fmt.Sprintf("%s: state changed\n before %s\n after  %s", desc, before, after), nil)
						continue
					}
					// the owner's own requests are served as if nothing had happened
					var next vh.Call
					if vh.IsWalletEndpoint(endpoint) {
						next = vh.NewCall("pool_addNode", victim, now+500, "nosuchnode")
					} else {
						next = vh.NewCall("vipnode_update", victim, now+500, vh.DefaultParam("vipnode_update", cast.ByName["H1"].NodeID))
					}
					_, err := next.Invoke(pw, vh.CtxWith(pw.Host("x").Service()))
					u.Observe(fmt.Sprintf("%s %s %s owner-refused=%v", endpoint, kind, victim.Name, vh.IsRefused(err)))
					if vh.IsRefused(err) || (err != nil && !vh.IsWalletEndpoint(endpoint)) {
						u.Violate("c06/"+endpoint+"/refused-requests-cost-the-owner/"+kind, fmt.Sprintf("%s: the owner's next legitimate %s failed: %v", desc, next.Endpoint, err), nil)
					}
				}
			}
		}
		u.Sample(fmt.Sprintf("%d refused requests per (endpoint, kind, victim), then the owner's legitimate request", n))
	}}
}

// a replayed or stale request stays refused when the store hiccups while it is being checked: a
// transient store failure at any one call may turn the refusal into an error, never into acceptance
func c06RefusalUnderStoreFault() vh.Unit {
	name := "refusal-under-store-fault"
	cast := vh.StdCast()
	return vh.Unit{Name: name, Run: func(u *vh.U) {
		for _, endpoint := range vh.SignedEndpoints {
			for _, kind := range []string{"replayed", "stale"} {
				for failAt := 0; failAt < 6; failAt++ {
					if u.Expired() {
						return
					}
					victim := cast.ByName["C1"]
					if endpoint == "vipnode_host" {
						victim = cast.ByName["H1"]
					}
					if vh.IsWalletEndpoint(endpoint) {
						victim = cast.ByName["W1"]
					}
					vsched.ResetClock(0)
					var fs *vh.FaultStore
					pw := vh.NewPoolWorld(vh.PoolConfig{Driver: vh.Memory, WrapStore: func(s store.Store) store.Store {
						fs = vh.NewFaultStore(s)
						return fs
					}})
					for _, e := range c06Session {
						vh.PoolEvent(pw, cast, e)
					}
					now := vsched.Now().UnixNano()
					param := vh.DefaultParam(endpoint, cast.ByName["H1"].NodeID)
					honoured := vh.NewCall(endpoint, victim, now+200, param)
					if _, err := honoured.Invoke(pw, vh.CtxWith(pw.Host("x").Service())); vh.IsRefused(err) {
						u.Violate("c06/setup/valid-request-refused", fmt.Sprintf("%s by %s: %v", endpoint, victim.Name, err), nil)
						continue
					}
					call := honoured // the same request again
					if kind == "stale" {
						call = vh.NewCall(endpoint, victim, now-int64(15*time.Minute)-1, param)
					}
					pw.Host("attacker-conn") // (exists before the digest is taken)
					before := poolDigest(pw, cast) + nodeView(pw, victim)
					settles := len(pw.Settles)
					fs.FailAt = fs.N + failAt // the failAt-th store call made from now on fails, once
					var err error
					p := vh.Recover(func() { _, err = call.Invoke(pw, vh.CtxWith(pw.Host("attacker-conn").Service())) })
					calls := fs.N
					fs.FailAt = -1
					after := poolDigest(pw, cast) + nodeView(pw, victim)
					u.R.Evaluations++
					u.R.States++
					u.R.Transitions++
					u.R.Traces++
					u.Observe(fmt.Sprintf("%s %s fail@%d err=%v refused=%v", endpoint, kind, failAt, err != nil, vh.IsRefused(err)))
					desc := fmt.Sprintf("%s (%s) by %s while store call #%d of the request fails once (%d store calls made)", endpoint, kind, victim.Name, failAt, calls)
					switch {
					case p != "":
						u.Violate("c06/"+endpoint+"/panic/store-fault", desc+": panic: "+p, nil)
					case err == nil:
						u.Violate("c06/"+endpoint+"/not-refused/"+kind+"-under-store-fault", desc+": the request was honoured", nil)
					case before != after || len(pw.Settles) != settles:
						u.Violate("c06/"+endpoint+"/refused-request-left-trace/"+kind+"-under-store-fault", fmt.Sprintf("%s: err=%v, state changed\n before %s\n after  %s", desc, err, before, after), nil)
					}
				}
			}
		}
		u.Sample("every endpoint x {replayed, stale} x the k-th store call of the request failing once, k = 0..5")
	}}
}

// a captured, already honoured request submitted again with its identity spelled differently
// (case, 0x prefix): refused like any replay, and nothing moves
func c06RespelledReplays() vh.Unit {
	name := "respelled-replays"
	cast := vh.StdCast()
	return vh.Unit{Name: name, Run: func(u *vh.U) {
		for _, endpoint := range vh.SignedEndpoints {
			victim := cast.ByName["C1"]
			if endpoint == "vipnode_host" {
				victim = cast.ByName["H1"]
			}
			if vh.IsWalletEndpoint(endpoint) {
				victim = cast.ByName["W1"]
			}
			vsched.ResetClock(0)
			pw := vh.NewPoolWorld(vh.PoolConfig{Driver: vh.Memory})
			for _, e := range c06Session {
				vh.PoolEvent(pw, cast, e)
			}
			pw.Store.AddAccountBalance(store.Account(cast.ByName["W1"].Wallet), big.NewInt(700))
			now := vsched.Now().UnixNano()
			target := cast.ByName["H1"].NodeID
			if endpoint == "pool_addNode" {
				target = cast.ByName["C2"].NodeID
				pw.Store.SetNode(store.Node{ID: store.NodeID(target), Kind: "geth", LastSeen: vsched.Now()})
			}
			honoured := vh.NewCall(endpoint, victim, now+200, vh.DefaultParam(endpoint, target))
			ctx := vh.CtxWith(pw.Host("x").Service())
			if _, err := honoured.Invoke(pw, ctx); vh.IsRefused(err) {
				u.Violate("c06/setup/valid-request-refused", fmt.Sprintf("%s by %s: %v", endpoint, victim.Name, err), nil)
				continue
			}
			id := honoured.ID
			body := strings.TrimPrefix(id, "0x")
			spellings := map[string]string{
				"upper": strings.ToUpper(body), "lower": strings.ToLower(body),
				"mixed": strings.ToUpper(body[:1]) + strings.ToLower(body[1:len(body)-1]) + strings.ToUpper(body[len(body)-1:]),
			}
			var variants []string
			for _, sp := range []string{"upper", "lower", "mixed"} {
				variants = append(variants, spellings[sp], "0x"+spellings[sp], "0X"+spellings[sp])
			}
			seen := map[string]bool{id: true}
			for _, v := range variants {
				if seen[v] {
					continue
				}
				seen[v] = true
				pw.Host("attacker-conn")
				before := poolDigest(pw, cast) + nodeView(pw, victim)
				settles := len(pw.Settles)
				replay := honoured
				replay.ID = v
				var err error
				p := vh.Recover(func() { _, err = replay.Invoke(pw, vh.CtxWith(pw.Host("attacker-conn").Service())) })
				after := poolDigest(pw, cast) + nodeView(pw, victim)
				u.R.Evaluations++
				u.R.States++
				u.R.Transitions++
				u.R.Traces++
				u.Observe(fmt.Sprintf("%s respelled refused=%v", endpoint, vh.IsRefused(err)))
				desc := fmt.Sprintf("the honoured %s of %s submitted again with its identity spelled %q...", endpoint, victim.Name, v[:8])
				switch {
				case p != "":
					u.Violate("c06/"+endpoint+"/panic/respelled-replay", desc+": panic: "+p, nil)
				case !vh.IsRefused(err):
					u.Violate("c06/"+endpoint+"/not-refused/respelled-replay", fmt.Sprintf("%s: err=%v", desc, err), nil)
				case before != after || len(pw.Settles) != settles:
					u.Violate("c06/"+endpoint+"/refused-request-left-trace/respelled-replay", fmt.Sprintf("%s: state changed\n before %s\n after  %s", desc, before, after), nil)
				}
			}
		}
		u.Sample("every endpoint: the honoured request replayed under up to 9 other spellings of its identity")
	}}
}

func nodeView(pw *vh.PoolWorld, id *vh.Ident) string {
	return "|" + vh.StoreView(pw.Raw, []string{id.NodeID}, []string{id.Wallet, id.NodeID})
}

var _ = store.ErrInvalidNonce

func init() {
	vh.Register(&vh.Check{
		ID: "C06", Level: "model_checking",
		Technique:   "exhaustive enumeration of refusals (endpoint x refusal kind x existing/fresh identity) in every reachable session state up to a depth bound, with a before/after digest of the whole pool and a follow-up acceptance probe",
		Rule:        "all session histories over {connect host, connect client, keep-alive, peer request, link wallet, tick} up to the depth bound, de-duplicated on the pool digest; in each state 7 endpoints x {bad signature, other key, malformed signature, stale nonce, replayed nonce} x {existing, fresh identity}; refused => digest (nodes, peers, balances, links, stats, registered connections, host call logs) identical and the owner's next request with a smaller fresh nonce accepted; distinct = (endpoint, kind, fresh?, refused?); every endpoint's honoured request replayed under up to 9 other spellings of its identity",
		Assumptions: []string{"memory driver (the refusal path is driver independent up to CheckAndSaveNonce, whose driver behaviour C05 and C12 cover)"},
		Units: func(tier string) []vh.Unit {
			var us []vh.Unit
			depth, n := 3, 16
			if tier == "thorough" {
				depth, n = 5, 64
			}
			for s := 0; s < n; s++ {
				us = append(us, c06Unit(depth, s, n))
			}
			burst := 150
			if tier == "thorough" {
				burst = 1500
			}
			us = append(us, c06Burst(burst), c06RefusalUnderStoreFault(), c06RespelledReplays(), c13BinaryRestart())
			return us
		},
	})
}
