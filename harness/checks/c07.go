//go:build go1.21

package checks

import (
	"context"
	"fmt"
	"math/big"
	"reflect"
	"sort"
	"strconv"
	"strings"
	"time"

	"github.com/vipnode/vipnode/v2/internal/verif/vh"
	"github.com/vipnode/vipnode/v2/internal/verif/vsched"
	"github.com/vipnode/vipnode/v2/jsonrpc2"
	"github.com/vipnode/vipnode/v2/pool/store"
)

// C07 — a withdrawal pays exactly what is owed, once.

type c07Cfg struct {
	min string // "off" or amount
	fee string // "none" or amount
}

var c07Cfgs = []c07Cfg{{"off", "none"}, {"500", "none"}, {"500", "100"}}

func c07World(cfg c07Cfg) *vh.PoolWorld { return c07WorldOn(vh.Memory, cfg) }

func c07WorldOn(driver string, cfg c07Cfg) *vh.PoolWorld {
	vsched.ResetClock(0)
	pc := vh.PoolConfig{Driver: driver}
	if cfg.min != "off" {
		pc.WithdrawMin = big10(cfg.min)
	}
	if cfg.fee != "none" {
		pc.WithdrawFee = big10(cfg.fee)
	}
	return vh.NewPoolWorld(pc)
}

// c07Model is the payout reference model for one world.
type c07Model struct {
	credit  map[string]*big.Int // wallet -> ledger credit
	deposit map[string]*big.Int // wallet -> on-chain deposit
	paid    *big.Int            // total successfully paid out
}

func (m *c07Model) bal(w string) *big.Int {
	c, d := m.credit[w], m.deposit[w]
	r := new(big.Int)
	if c != nil {
		r.Add(r, c)
	}
	if d != nil {
		r.Add(r, d)
	}
	return r
}

func c07Balance(pw *vh.PoolWorld, wallet string) (*big.Int, *big.Int) {
	b, _ := pw.BStore.GetAccountBalance(store.Account(wallet))
	return new(big.Int).Set(&b.Deposit), new(big.Int).Set(&b.Credit)
}

func c07Events(cfg c07Cfg) []string {
	evs := []string{"accrue W1 499", "accrue W1 1", "accrue W1 100000", "accrue W1 -300", "dep W1 600", "dep W1 1",
		"withdraw W1 ok", "withdraw W1 fail", "withdraw W1 gone", "forged-withdraw W1", "withdraw W2 ok", "accrue W2 700"}
	return evs
}

func c07BFS(cfg c07Cfg, depth, shard, nshards int) vh.Unit {
	name := fmt.Sprintf("payout-bfs/min%s-fee%s/d%d/%d", cfg.min, cfg.fee, depth, shard)
	cast := vh.StdCast()
	type world struct {
		pw *vh.PoolWorld
		m  *c07Model
	}
	fee := new(big.Int)
	if cfg.fee != "none" {
		fee = big10(cfg.fee)
	}
	return vh.Unit{Name: name, Run: func(u *vh.U) {
		vh.RunBFS(u, vh.BFSSpec{
			Name: name, MaxDepth: depth, Shard: shard, NShards: nshards,
			New: func() interface{} {
				return &world{pw: c07World(cfg), m: &c07Model{credit: map[string]*big.Int{}, deposit: map[string]*big.Int{}, paid: new(big.Int)}}
			},
			Events: func(interface{}) []string { return c07Events(cfg) },
			Apply: func(wi interface{}, ev string, judge bool, hist []string) {
				w := wi.(*world)
				f := strings.Fields(ev)
				wallet := cast.ByName[f[1]].Wallet
				switch f[0] {
				case "accrue":
					amt := big10abs(f[2])
					w.pw.Store.AddAccountBalance(store.Account(wallet), amt)
					c := w.m.credit[wallet]
					if c == nil {
						c = new(big.Int)
					}
					w.m.credit[wallet] = new(big.Int).Add(c, amt)
					return
				case "dep":
					vh.PoolEvent(w.pw, cast, ev)
					d := w.m.deposit[wallet]
					if d == nil {
						d = new(big.Int)
					}
					w.m.deposit[wallet] = new(big.Int).Add(d, big10(f[2]))
					return
				}
				// withdraw / forged-withdraw
				nSettles := len(w.pw.Settles)
				depB, creB := c07Balance(w.pw, wallet)
				var err error
				p := vh.Recover(func() { err = vh.PoolEvent(w.pw, cast, ev) })
				depA, creA := c07Balance(w.pw, wallet)
				newSettles := w.pw.Settles[nSettles:]
				// model
				balance := w.m.bal(wallet)
				eligible := f[0] == "withdraw" && (cfg.min == "off" || balance.Cmp(big10(cfg.min)) >= 0)
				settleOK := len(f) > 2 && f[2] != "fail"
				gone := len(f) > 2 && f[2] == "gone" // the requester hung up when settlement began: whatever is reported, paid <=> cleared
				wantAmount := new(big.Int).Sub(balance, fee)
				if eligible && settleOK {
					w.m.paid.Add(w.m.paid, wantAmount)
					w.m.credit[wallet], w.m.deposit[wallet] = new(big.Int), new(big.Int)
				}
				if !judge {
					return
				}
				u.R.Traces++
				desc := fmt.Sprintf("config %+v history %v (balance before: deposit %s credit %s)", cfg, hist, depB, creB)
				u.Observe(fmt.Sprintf("%s eligible=%v settle=%v", f[0], eligible, settleOK))
				switch {
				case p != "":
					u.Violate("payout/panic", desc+": panic: "+p, vh.BFSReplay(name, hist))
				case !eligible && len(newSettles) > 0:
					cls := "below-minimum-paid"
					if f[0] != "withdraw" {
						cls = "forged-request-paid"
					}
					u.Violate("payout/"+cls, fmt.Sprintf("%s: settlement %+v was attempted", desc, newSettles), vh.BFSReplay(name, hist))
				case !eligible && err == nil:
					u.Violate("payout/ineligible-withdrawal-reported-success", desc, vh.BFSReplay(name, hist))
				case !eligible && (depA.Cmp(depB) != 0 || creA.Cmp(creB) != 0):
					u.Violate("payout/refused-withdrawal-moved-balance", fmt.Sprintf("%s: after: deposit %s credit %s", desc, depA, creA), vh.BFSReplay(name, hist))
				case eligible && len(newSettles) != 1:
					u.Violate("payout/settle-count", fmt.Sprintf("%s: %d settlement attempts for one eligible withdrawal (err=%v)", desc, len(newSettles), err), vh.BFSReplay(name, hist))
				case eligible && newSettles[0].Amount != wantAmount.String():
					u.Violate("payout/wrong-amount", fmt.Sprintf("%s: settled %s, owed balance-fee = %s", desc, newSettles[0].Amount, wantAmount), vh.BFSReplay(name, hist))
				case eligible && settleOK && err != nil && !gone:
					u.Violate("payout/settled-but-error", fmt.Sprintf("%s: %v", desc, err), vh.BFSReplay(name, hist))
				case eligible && settleOK && (depA.Sign() != 0 || creA.Sign() != 0):
					u.Violate("payout/balance-not-cleared", fmt.Sprintf("%s: paid %s, but the wallet still holds deposit %s + credit %s to withdraw again", desc, newSettles[0].Amount, depA, creA), vh.BFSReplay(name, hist))
				case eligible && !settleOK && err == nil:
					u.Violate("payout/failed-settlement-reported-success", desc, vh.BFSReplay(name, hist))
				case eligible && !settleOK && (depA.Cmp(depB) != 0 || creA.Cmp(creB) != 0):
					u.Violate("payout/failed-settlement-moved-balance", fmt.Sprintf("%s: after: deposit %s credit %s", desc, depA, creA), vh.BFSReplay(name, hist))
				}
				// global accounting: what was paid never exceeds what was earned + deposited
				paid := new(big.Int)
				for _, s := range w.pw.Settles {
					if !s.Failed {
						paid.Add(paid, big10abs(s.Amount))
					}
				}
				if paid.Cmp(w.m.paid) != 0 {
					u.Violate("payout/total-paid", fmt.Sprintf("%s: total paid out %s, reference model %s (settlements %+v)", desc, paid, w.m.paid, w.pw.Settles), vh.BFSReplay(name, hist))
				}
			},
			Key: func(wi interface{}) string {
				w := wi.(*world)
				d1, c1 := c07Balance(w.pw, cast.ByName["W1"].Wallet)
				d2, c2 := c07Balance(w.pw, cast.ByName["W2"].Wallet)
				return fmt.Sprintf("%s/%s/%s/%s|%s", d1, c1, d2, c2, w.m.paid)
			},
		})
	}}
}

func big10abs(s string) *big.Int {
	if strings.HasPrefix(s, "-") {
		return new(big.Int).Neg(big10(s[1:]))
	}
	return big10(s)
}

// racing withdrawals of one wallet
func c07Race(cfg c07Cfg, nthreads, bound int) vh.Unit {
	return c07RaceOn(vh.Memory, cfg, nthreads, bound)
}

func c07RaceOn(driver string, cfg c07Cfg, nthreads, bound int) vh.Unit {
	return c07RaceVariant(driver, cfg, nthreads, bound, "")
}

// variant "first-settlement-fails": the first settlement attempt (whichever request makes it) fails,
// so the balance is still there for the requests behind it. variant "with-link": one of the racing
// requests of the wallet is a pool_addNode instead of a withdrawal.
func c07RaceVariant(driver string, cfg c07Cfg, nthreads, bound int, variant string) vh.Unit {
	name := fmt.Sprintf("payout-race/min%s-fee%s/x%d", cfg.min, cfg.fee, nthreads)
	if driver != vh.Memory {
		name = fmt.Sprintf("payout-race/%s/min%s-fee%s/x%d", driver, cfg.min, cfg.fee, nthreads)
	}
	if variant != "" {
		name += "/" + variant
	}
	cast := vh.StdCast()
	var pw *vh.PoolWorld
	res := make([]error, nthreads)
	fee := new(big.Int)
	if cfg.fee != "none" {
		fee = big10(cfg.fee)
	}
	body := func() {
		pw = c07WorldOn(driver, cfg)
		W := cast.ByName["W1"]
		pw.Store.AddAccountBalance(store.Account(W.Wallet), big.NewInt(900))
		pw.BStore.Deposits[store.Account(W.Wallet)] = big.NewInt(300)
		pw.YieldPoints = true
		if variant == "first-settlement-fails" {
			pw.SettleOK = func(n int) bool { return n > 0 }
		}
		var fns []func()
		var names []string
		for i := 0; i < nthreads; i++ {
			i := i
			if variant == "with-link" && i == 0 {
				node := cast.ByName["C2"]
				pw.Raw.SetNode(store.Node{ID: store.NodeID(node.NodeID), Kind: "geth", LastSeen: vsched.Now()})
				fns = append(fns, func() { res[i] = nil; pw.AddNode(W, node.NodeID) })
				names = append(names, "link")
				continue
			}
			fns = append(fns, func() { res[i] = pw.Withdraw(W) })
			names = append(names, fmt.Sprintf("wd%d", i))
		}
		vh.Par(names, fns...)
	}
	return vh.Unit{Name: name, Run: func(u *vh.U) {
		vh.RunDFS(u, vh.DFSSpec{
			Name: name, Bound: bound,
			Run:  vsched.Options{YieldFiles: []string{"service.go", "memory.go", "badger.go", "helpers.go"}},
			Body: body,
			Obs: func(s *vsched.Sched) string {
				return fmt.Sprint(errs(res), len(pw.Settles))
			},
			Check: func(s *vsched.Sched) (string, string) {
				paid := new(big.Int)
				for _, st := range pw.Settles {
					if !st.Failed {
						paid.Add(paid, big10abs(st.Amount))
					}
				}
				owed := new(big.Int).Sub(big.NewInt(1200), fee)
				if paid.Cmp(owed) > 0 {
					return "payout-race/paid-twice", fmt.Sprintf("config %+v: %d racing withdrawals of a wallet holding 1200: settlements %+v pay %s in total, owed %s", cfg, nthreads, pw.Settles, paid, owed)
				}
				ok := 0
				for _, e := range res {
					if e == nil {
						ok++
					}
				}
				if ok == 0 && variant != "first-settlement-fails" { // (there the request with the highest nonce may be the one that fails)
					return "payout-race/nobody-paid", fmt.Sprintf("config %+v: none of %d racing withdrawals succeeded: %v", cfg, nthreads, res)
				}
				return "", ""
			},
		})
	}}
}

// a withdrawal while the wallet keeps earning: what is paid plus what stays on the ledger is what
// was earned, and a second withdrawal pays exactly the rest
func c07RaceAccrual(driver string, cfg c07Cfg, bound int) vh.Unit {
	name := fmt.Sprintf("payout-vs-accrual/%s/min%s-fee%s", driver, cfg.min, cfg.fee)
	cast := vh.StdCast()
	var pw *vh.PoolWorld
	var res [3]error
	fee := new(big.Int)
	if cfg.fee != "none" {
		fee = big10(cfg.fee)
	}
	W, H := cast.ByName["W1"], cast.ByName["H1"]
	body := func() {
		pw = c07WorldOn(driver, cfg)
		pw.Store.SetNode(store.Node{ID: store.NodeID(H.NodeID), Kind: "geth", IsHost: true, LastSeen: vsched.Now()})
		pw.Store.AddAccountNode(store.Account(W.Wallet), store.NodeID(H.NodeID))
		pw.Store.AddAccountBalance(store.Account(W.Wallet), big.NewInt(900))
		pw.YieldPoints = true
		vh.Par([]string{"withdraw", "earn-by-node", "earn-by-account"},
			func() { res[0] = pw.Withdraw(W) },
			func() { res[1] = pw.Store.AddNodeBalance(store.NodeID(H.NodeID), big.NewInt(500)) },
			func() { res[2] = pw.Store.AddAccountBalance(store.Account(W.Wallet), big.NewInt(70)) })
	}
	return vh.Unit{Name: name, Run: func(u *vh.U) {
		vh.RunDFS(u, vh.DFSSpec{
			Name: name, Bound: bound,
			Run:  vsched.Options{YieldFiles: []string{"service.go", "memory.go", "badger.go", "helpers.go"}, Delay: true},
			Body: body,
			Obs: func(s *vsched.Sched) string {
				_, cre := c07Balance(pw, W.Wallet)
				return fmt.Sprint(errs(res[:]), len(pw.Settles), cre)
			},
			Check: func(s *vsched.Sched) (string, string) {
				for i, e := range res[1:] {
					if e != nil {
						return "payout-vs-accrual/" + driver + "/credit-failed", fmt.Sprintf("config %+v: accrual %d failed: %v", cfg, i, e)
					}
				}
				paid := new(big.Int) // credit paid out = settled amount + fee (no deposit here)
				for _, st := range pw.Settles {
					if !st.Failed {
						paid.Add(paid, big10abs(st.Amount))
						paid.Add(paid, fee)
					}
				}
				_, cre := c07Balance(pw, W.Wallet)
				total := new(big.Int).Add(paid, cre)
				if total.Cmp(big.NewInt(1470)) != 0 {
					return "payout-vs-accrual/" + driver + "/earnings-not-conserved", fmt.Sprintf("config %+v: a wallet holding 900 withdrew (result %v) while earning 500+70: paid out %s (settlements %+v), ledger credit afterwards %s - together %s, earned 1470", cfg, res[0], paid, pw.Settles, cre, total)
				}
				if res[0] == nil && len(pw.Settles) != 1 {
					return "payout-vs-accrual/" + driver + "/settle-count", fmt.Sprintf("config %+v: %d settlements for one withdrawal", cfg, len(pw.Settles))
				}
				return "", ""
			},
		})
	}}
}

// (3) the whole payment stack as the binary wires it, on a simulated chain with the real contract:
// PaymentService -> ContractPayment (cache, contract reads, Balance events, OpSettle) -> VipnodePool.
// "Pays" is what the wallet receives on chain; "owed" is contract deposit + ledger credit - fee.
type c07ChainModel struct {
	deposit, credit map[string]int64
	locked, cached  map[string]bool
	contract        int64 // ether held by the contract
}

func c07Chain(cfg c07Cfg, depth, shard, nshards int) vh.Unit {
	name := fmt.Sprintf("payout-on-chain/min%s-fee%s/d%d/%d", cfg.min, cfg.fee, depth, shard)
	cast := vh.StdCast()
	type world struct {
		cw   *vh.ChainWorld
		m    *c07ChainModel
		bad  string
		open bool // a withdrawal whose payout would be negative happened: branch left, not judged
	}
	var min, fee *big.Int
	var minI, feeI int64
	if cfg.min != "off" {
		min = big10(cfg.min)
		minI = min.Int64()
	}
	if cfg.fee != "none" {
		fee = big10(cfg.fee)
		feeI = fee.Int64()
	}
	evs := []string{"dep W1 600", "dep W2 5000", "credit W1 900", "credit W1 -300", "lock W1", "drain", "restart", "withdraw W1", "withdraw W2"}
	return vh.Unit{Name: name, Run: func(u *vh.U) {
		vsched.SetVirtualClock(false)
		vh.RunBFS(u, vh.BFSSpec{
			Name: name, MaxDepth: depth, Shard: shard, NShards: nshards,
			New: func() interface{} {
				cw, err := vh.NewChainWorld(vh.NewStore(vh.Memory), min, fee, cast.ByName["W1"], cast.ByName["W2"])
				if err != nil {
					return &world{bad: err.Error()}
				}
				return &world{cw: cw, m: &c07ChainModel{deposit: map[string]int64{}, credit: map[string]int64{}, locked: map[string]bool{}, cached: map[string]bool{}}}
			},
			Events: func(interface{}) []string { return evs },
			Close:  func(wi interface{}) { wi.(*world).cw.Close() },
			Apply: func(wi interface{}, ev string, judge bool, hist []string) {
				w := wi.(*world)
				if w.open {
					return
				}
				if w.bad != "" {
					if judge {
						u.R.Infra = "simulated chain: " + w.bad
					}
					return
				}
				f := strings.Fields(ev)
				m, cw := w.m, w.cw
				switch f[0] {
				case "dep":
					id := cast.ByName[f[1]]
					amt, _ := strconv.ParseInt(f[2], 10, 64)
					if err := cw.Deposit(id, big.NewInt(amt)); err != nil {
						w.bad = err.Error()
						return
					}
					m.deposit[f[1]] += amt
					m.contract += amt
					if !(m.locked[f[1]] && !m.cached[f[1]]) {
						if err := cw.AwaitCache(id); err != nil {
							w.bad = fmt.Sprintf("after %v: %v", hist, err)
							if judge {
								u.Violate("chain/deposit-never-seen", fmt.Sprintf("history %v: %v", hist, err), vh.BFSReplay(name, hist))
							}
							return
						}
						m.cached[f[1]] = true
					} else {
						m.cached[f[1]] = true // the Balance event fills the cache (no contract read, no time-lock check)
						time.Sleep(2 * time.Millisecond)
					}
					return
				case "credit":
					amt, _ := strconv.ParseInt(f[2], 10, 64)
					cw.Ledger.AddAccountBalance(store.Account(cast.ByName[f[1]].Wallet), big.NewInt(amt))
					m.credit[f[1]] += amt
					return
				case "lock":
					if m.deposit[f[1]] == 0 {
						return // the contract refuses forceSettle without a deposit
					}
					if err := cw.ForceSettle(cast.ByName[f[1]]); err != nil {
						w.bad = err.Error()
						return
					}
					m.locked[f[1]] = true
					return
				case "drain":
					if m.contract == 0 {
						return
					}
					if err := cw.Drain(big.NewInt(m.contract)); err != nil {
						w.bad = err.Error()
						return
					}
					m.contract = 0
					return
				case "restart":
					if err := cw.Restart(); err != nil {
						w.bad = err.Error()
						return
					}
					m.cached = map[string]bool{}
					return
				}
				// withdraw
				name1 := f[1]
				id := cast.ByName[name1]
				_, _, fundsB := cw.OnChain(id)
				err := cw.Withdraw(id)
				depA, lockA, fundsA := cw.OnChain(id)
				crA, _ := cw.Ledger.GetAccountBalance(store.Account(id.Wallet))
				received := new(big.Int).Sub(fundsA, fundsB)
				// model
				total := m.deposit[name1] + m.credit[name1]
				outcome := "paid"
				switch {
				case !m.cached[name1] && m.locked[name1]:
					outcome = "refused: deposit time-locked"
				case cfg.min != "off" && total < minI:
					outcome = "refused: below minimum"
				case total-feeI < 0:
					outcome = "open" // a negative payout cannot be expressed on chain: not judged
				case total-feeI > m.contract:
					outcome = "refused: the contract cannot pay"
				}
				if !(!m.cached[name1] && m.locked[name1]) {
					m.cached[name1] = true // the balance was read
				}
				if outcome == "open" {
					w.open = true // leave this branch
					if judge {
						u.Count("negative_payout_not_judged", 1)
					}
					return
				}
				want := int64(0)
				if outcome == "paid" {
					want = total - feeI
					m.contract -= want
					m.deposit[name1], m.credit[name1], m.locked[name1] = 0, 0, false
					if aerr := cw.AwaitCache(id); aerr != nil {
						w.bad = fmt.Sprintf("after %v: %v", hist, aerr)
						if judge {
							u.Violate("chain/settlement-never-seen", fmt.Sprintf("history %v: %v", hist, aerr), vh.BFSReplay(name, hist))
						}
						return
					}
				}
				if !judge {
					return
				}
				u.R.Traces++
				u.Observe(fmt.Sprintf("%s -> %s", ev, outcome))
				desc := fmt.Sprintf("config %+v, history %v: expected %s; Withdraw returned %v, the wallet received %s on chain, contract deposit afterwards %s (time lock %s), ledger credit afterwards %s", cfg, hist, outcome, err, received, depA, lockA, crA.Credit.String())
				switch {
				case outcome == "paid" && err != nil:
					u.Violate("chain/owed-but-not-paid", desc, vh.BFSReplay(name, hist))
				case outcome != "paid" && err == nil:
					u.Violate("chain/refusable-withdrawal-reported-success", desc, vh.BFSReplay(name, hist))
				case received.Cmp(big.NewInt(want)) != 0:
					u.Violate("chain/wrong-amount-on-chain", desc, vh.BFSReplay(name, hist))
				case depA.Cmp(big.NewInt(m.deposit[name1])) != 0 || (lockA.Sign() != 0) != m.locked[name1]:
					u.Violate("chain/contract-balance", desc+fmt.Sprintf(" (model: deposit %d, locked %v)", m.deposit[name1], m.locked[name1]), vh.BFSReplay(name, hist))
				case crA.Credit.Cmp(big.NewInt(m.credit[name1])) != 0:
					u.Violate("chain/ledger-credit", desc+fmt.Sprintf(" (model: credit %d)", m.credit[name1]), vh.BFSReplay(name, hist))
				case cw.ContractFunds().Cmp(big.NewInt(m.contract)) != 0:
					u.Violate("chain/contract-funds", desc+fmt.Sprintf(" (contract holds %s, model %d)", cw.ContractFunds(), m.contract), vh.BFSReplay(name, hist))
				}
			},
			Key: func(wi interface{}) string {
				w := wi.(*world)
				if w.bad != "" {
					return "bad:" + w.bad
				}
				if w.open {
					return "open"
				}
				return fmt.Sprintf("%v|%v|%v|%v|%d", w.m.deposit, w.m.credit, w.m.locked, w.m.cached, w.m.contract)
			},
		})
	}}
}

// the whole RPC surface the pool binary registers (read from the server's registry, plus every
// exported method of the registered services under both prefixes): nothing but a correctly signed
// pool_withdraw makes a settlement or moves a balance, whatever unsigned arguments are sent
func c07RPCSurface(cfg c07Cfg) vh.Unit {
	name := fmt.Sprintf("rpc-surface/min%s-fee%s", cfg.min, cfg.fee)
	cast := vh.StdCast()
	return vh.Unit{Name: name, Run: func(u *vh.U) {
		pw := c07World(cfg)
		w1 := cast.ByName["W1"]
		pw.Store.AddAccountBalance(store.Account(w1.Wallet), big.NewInt(100000))
		pw.BStore.Deposits[store.Account(w1.Wallet)] = big.NewInt(600)
		srv := &jsonrpc2.Server{}
		if err := vh.RegisterProd(srv, pw); err != nil {
			panic(err)
		}
		names := map[string]bool{}
		for _, n := range vh.RegisteredMethods(srv) {
			names[n] = true
		}
		registered := len(names)
		for _, recv := range []interface{}{pw.Pool, pw.Payment} {
			t := reflect.TypeOf(recv)
			for i := 0; i < t.NumMethod(); i++ {
				m := t.Method(i).Name
				for _, prefix := range []string{"pool_", "vipnode_"} {
					names[prefix+strings.ToLower(m[:1])+m[1:]] = true
				}
			}
		}
		var sorted []string
		for n := range names {
			sorted = append(sorted, n)
		}
		sort.Strings(sorted)
		now := vsched.Now().UnixNano()
		values := []string{`"` + w1.Wallet + `"`, `"` + strings.ToLower(w1.Wallet) + `"`, `"` + cast.ByName["C1"].NodeID + `"`, `""`, `0`, fmt.Sprint(now), `null`, `{}`}
		answered := 0
		var tuples [][]string
		var gen func(prefix []string, left int)
		gen = func(prefix []string, left int) {
			tuples = append(tuples, append([]string{}, prefix...))
			if left == 0 {
				return
			}
			for _, v := range values {
				gen(append(prefix, v), left-1)
			}
		}
		gen(nil, 3)
		// four-argument forms: (sig, identity, nonce, x)
		for _, sig := range []string{`""`, `"` + w1.Wallet + `"`} {
			for _, id := range values[:3] {
				for _, x := range values {
					tuples = append(tuples, []string{sig, id, fmt.Sprint(now), x})
				}
			}
		}
		before := c07Snapshot(pw, cast)
		for _, method := range sorted {
			for _, args := range tuples {
				msg, err := vh.ParseMessage(fmt.Sprintf(`{"jsonrpc":"2.0","id":1,"method":%q,"params":[%s]}`, method, strings.Join(args, ",")))
				if err != nil {
					panic(err)
				}
				var resp *jsonrpc2.Message
				p := vh.Recover(func() { resp = srv.Handle(vh.CtxWith(pw.Host("stranger").Service()), msg) })
				u.R.Evaluations++
				u.R.States++
				u.R.Transitions++
				u.R.Traces++
				if p == "" && resp != nil && resp.Response != nil && resp.Error == nil {
					answered++
				}
				if len(pw.Settles) > 0 {
					u.Violate("payout/unsigned-request-paid/"+method, fmt.Sprintf("config %+v: %s(%s) without any signature made the settlement %+v", cfg, method, strings.Join(args, ","), pw.Settles), nil)
					return
				}
				if after := c07Snapshot(pw, cast); after != before {
					u.Violate("payout/unsigned-request-moved-balance/"+method, fmt.Sprintf("config %+v: %s(%s) without any signature changed the balances from %s to %s", cfg, method, strings.Join(args, ","), before, after), nil)
					return
				}
			}
		}
		u.Observe(fmt.Sprintf("registered=%d candidates=%d", registered, len(sorted)))
		// positive control: the same surface does pay a correctly signed request
		sig := w1.SignWallet("pool_withdraw", now+1)
		msg, _ := vh.ParseMessage(fmt.Sprintf(`{"jsonrpc":"2.0","id":2,"method":"pool_withdraw","params":[%q,%q,%d]}`, sig, w1.Wallet, now+1))
		resp := srv.Handle(context.Background(), msg)
		if len(pw.Settles) != 1 || resp == nil || resp.Response == nil || resp.Error != nil {
			u.Violate("payout/rpc-surface/signed-withdrawal-not-served", fmt.Sprintf("config %+v: settlements %+v reply %s", cfg, pw.Settles, vh.ShortJSON(resp)), nil)
		}
		if registered == 0 {
			u.Violate("payout/rpc-surface/registry-not-readable", "the server's method registry could not be enumerated", nil)
		}
		u.Sample(fmt.Sprintf("%d registered + %d derived method names x %d unsigned argument tuples (%d answered without error)", registered, len(sorted)-registered, len(tuples), answered))
	}}
}

func c07Snapshot(pw *vh.PoolWorld, cast *vh.Cast) string {
	d1, c1 := c07Balance(pw, cast.ByName["W1"].Wallet)
	d2, c2 := c07Balance(pw, cast.ByName["W2"].Wallet)
	return fmt.Sprintf("W1 %s+%s W2 %s+%s", d1, c1, d2, c2)
}

func init() {
	vh.Register(&vh.Check{
		ID: "C07", Level: "model_checking",
		Technique: "explicit-state BFS of accrual/deposit/withdraw histories (settlement succeeding or failing, forged requests, two wallets) on the real PaymentService against a payout reference model + schedule DFS of racing withdrawals under the controlled scheduler",
		Rule:      "all sequences over {accrue ±, deposit, withdraw with settlement ok/failing, forged withdraw, other wallet} up to the depth bound for 3 fee/minimum configurations, de-duplicated on balances + total paid; per withdrawal: settle attempted iff signed and balance >= minimum, amount = deposit+credit-fee, balance cleared after success, unchanged after failure/refusal, total paid == model; races: all interleavings of 2-3 withdrawals within the preemption bound, total paid <= owed; a requester hanging up when settlement begins; the registered RPC surface (registry names + exported methods under both prefixes) x unsigned argument tuples: no settlement, no balance change",
		Assumptions: []string{
			"the settlement seam (SettleHandler) replaces the on-chain deposit by newBalance on success, as the contract's OpSettle does",
			"a store failure between a successful settlement and clearing the ledger credit is not injected (cannot be atomic with the chain)",
			"binary + contract unit: when the Ethereum node accepts the settlement transaction but its reply is lost, the owner's retry is sent once the pool's view of the deposit has caught up with the chain (Balance event); a retry inside that moment is not judged - the pool has no way to know yet",
		},
		Units: func(tier string) []vh.Unit {
			var us []vh.Unit
			depth, n := 5, 4
			if tier == "thorough" {
				depth, n = 7, 11
			}
			for _, cfg := range c07Cfgs {
				for s := 0; s < n; s++ {
					us = append(us, c07BFS(cfg, depth, s, n))
				}
				bound := 2
				if tier == "thorough" {
					bound = 4
				}
				us = append(us, c07Race(cfg, 2, bound), c07Race(cfg, 3, bound-1))
				us = append(us, c07RaceVariant(vh.Memory, cfg, 3, bound, "first-settlement-fails"), c07RaceVariant(vh.Memory, cfg, 3, bound, "with-link"))
				us = append(us, c07RaceOn(vh.Badger, cfg, 2, bound-1), c07RPCSurface(cfg))
				cd, cn := 4, 5
				if tier == "thorough" {
					cd, cn = 6, 16
				}
				for s := 0; s < cn; s++ {
					us = append(us, c07Chain(cfg, cd, s, cn))
				}
				for _, d := range vh.Drivers {
					us = append(us, c07RaceAccrual(d, cfg, bound-1))
				}
			}
			us = append(us, binaryWithContract())
			return us
		},
	})
}
