//go:build go1.21

package checks

import (
	"context"
	"fmt"
	"math/big"
	"time"

	"github.com/vipnode/vipnode/v2/internal/verif/vh"
	"github.com/vipnode/vipnode/v2/internal/verif/vsched"
	"github.com/vipnode/vipnode/v2/pool"
	"github.com/vipnode/vipnode/v2/pool/store"
)

// C03 — minimum balance: clients below it are refused and cut off, others never are.

var c03Mins = []string{"off", "-5", "0", "5", "1000"}

type c03Split struct{ name string } // how the spendable balance b is split into deposit / credit

// "shared": the client and its first host are linked to the same wallet, so what the client pays
// that host comes straight back to the account it spends from
var c03Splits = []string{"credit", "deposit", "mixed", "trial", "shared"}

// c03Setup builds a world where client C has spendable balance b, realised by the split.
// Hosts H1,H2 connected and tracked as active peers of C; H3 is an active peer without a live
// connection. price=1 per 1ns so that the per-peer charge equals the elapsed nanoseconds.
var c03SetupErr string

func c03Setup(driver, min, split string, b int64, nHosts int) (*vh.PoolWorld, []*vh.Ident) {
	vsched.ResetClock(0)
	c03SetupErr = ""
	cfg := vh.PoolConfig{Driver: driver, Price: big.NewInt(1), Interval: 1}
	if min != "off" {
		cfg.MinBalance = big10(min)
	}
	pw := vh.NewPoolWorld(cfg)
	ids := vh.Identities()
	C, H1, H2, H3, W := ids[0], ids[1], ids[2], ids[3], ids[4]
	hosts := []*vh.Ident{H1, H2, H3}[:nHosts]
	for _, h := range hosts {
		if _, err := pw.Connect(h, vh.ConnectOpts{Host: true}); err != nil {
			// the node record and its connection are registered before the balance manager is
			// consulted, so the world is usable; the refusal itself is reported by the caller.
			c03SetupErr = fmt.Sprintf("host %s with balance 0 refused at connect (min=%s): %v", h.Name, min, err)
		}
	}
	if nHosts == 3 {
		pw.Pool.CloseRemote(pw.Host(H3.Name).Service())
	}
	// register the client directly (connect is one of the judged entry points)
	pw.Store.SetNode(store.Node{ID: store.NodeID(C.NodeID), Kind: "geth", LastSeen: vsched.Now()})
	switch split {
	case "trial":
		pw.Store.AddNodeBalance(store.NodeID(C.NodeID), big.NewInt(b))
	case "credit":
		pw.Store.AddAccountNode(store.Account(W.Wallet), store.NodeID(C.NodeID))
		pw.Store.AddAccountBalance(store.Account(W.Wallet), big.NewInt(b))
	case "shared":
		pw.Store.AddAccountNode(store.Account(W.Wallet), store.NodeID(C.NodeID))
		if nHosts > 0 {
			pw.Store.AddAccountNode(store.Account(W.Wallet), store.NodeID(H1.NodeID))
		}
		pw.Store.AddAccountBalance(store.Account(W.Wallet), big.NewInt(b))
	case "deposit":
		pw.Store.AddAccountNode(store.Account(W.Wallet), store.NodeID(C.NodeID))
		pw.BStore.Deposits[store.Account(W.Wallet)] = big.NewInt(b)
	case "mixed":
		pw.Store.AddAccountNode(store.Account(W.Wallet), store.NodeID(C.NodeID))
		pw.BStore.Deposits[store.Account(W.Wallet)] = big.NewInt(b + 7)
		pw.Store.AddAccountBalance(store.Account(W.Wallet), big.NewInt(-7))
	}
	return pw, append([]*vh.Ident{C, W}, hosts...)
}

func spendable(pw *vh.PoolWorld, id string) *big.Int {
	b, err := pw.BStore.GetNodeBalance(store.NodeID(id))
	if err != nil {
		return nil
	}
	return new(big.Int).Add(&b.Credit, &b.Deposit)
}

func disconnects(pw *vh.PoolWorld, host *vh.Ident, client string) int {
	n := 0
	for _, c := range pw.Host(host.Name).Calls {
		if c.Method == "vipnode_disconnect" && c.Arg == client {
			n++
		}
	}
	return n
}

func c03Connect(driver string) vh.Unit {
	name := "connect/" + driver
	return vh.Unit{Name: name, Run: func(u *vh.U) {
		for _, min := range c03Mins {
			for _, split := range c03Splits {
				for _, off := range []int64{-1, 0, 1} {
					for _, entry := range []string{"connect", "client", "host-connect", "host-legacy"} {
						var m int64
						if min != "off" {
							m = big10(min).Int64()
						}
						b := m + off
						pw, ids := c03Setup(driver, min, split, b, 2)
						if c03SetupErr != "" {
							u.Violate("connect/host-refused-for-balance", c03SetupErr, nil)
						}
						C := ids[0]
						isHost := entry == "host-connect" || entry == "host-legacy"
						var err error
						ctx := vh.CtxWith(pw.Host("cli").Service())
						n := vsched.Now().UnixNano() + 999
						switch entry {
						case "connect":
							_, err = pw.Connect(C, vh.ConnectOpts{})
						case "host-connect":
							_, err = pw.Connect(C, vh.ConnectOpts{Host: true, Service: pw.Host("cli").Service()})
						case "client":
							req := pool.ClientRequest{Kind: "geth", NumHosts: 1}
							_, err = pw.Pool.Client(ctx, C.SignNode("vipnode_client", n, req), C.NodeID, n, req)
						case "host-legacy":
							req := pool.HostRequest{Kind: "geth"}
							_, err = pw.Pool.Host(ctx, C.SignNode("vipnode_host", n, req), C.NodeID, n, req)
						}
						u.R.Evaluations++
						u.R.States++
						u.R.Transitions++
						u.R.Traces++
						lb, isLow := vh.AsLowBalance(err)
						want := !isHost && min != "off" && b < m
						desc := fmt.Sprintf("min=%s split=%s balance=%d entry=%s", min, split, b, entry)
						u.Observe(fmt.Sprintf("%s %s %d %v", min, entry, off, isLow))
						if len(u.R.Samples) < 2 && want {
							u.Sample(desc + " -> refused")
						}
						switch {
						case isLow && !want && isHost:
							u.Violate("connect/host-refused-for-balance", desc+": a full-node host was refused: "+err.Error(), nil)
						case isLow && !want:
							u.Violate("connect/refused-at-or-above-minimum", desc+": refused: "+err.Error(), nil)
						case !isLow && want:
							u.Violate("connect/not-refused-below-minimum", fmt.Sprintf("%s: connect returned %v", desc, err), nil)
						case !isLow && err != nil:
							if _, noHosts := err.(pool.NoHostNodesError); !(noHosts && entry == "client") {
								u.Violate("connect/unexpected-error", fmt.Sprintf("%s: %v", desc, err), nil)
							}
						case isLow:
							if lb.CurrentBalance == nil || lb.CurrentBalance.Cmp(big.NewInt(b)) != 0 {
								u.Violate("connect/reported-balance", fmt.Sprintf("%s: error reports balance %v, actual %d", desc, lb.CurrentBalance, b), nil)
							}
						}
					}
				}
			}
		}
	}}
}

// the same node id arrives several times - again through the same entry point, through another one,
// or in the other role: each arrival is judged on its own (its role now, its balance now), whatever
// an earlier arrival was or how it ended
func c03ConnectSequences(driver string) vh.Unit {
	name := "connect-sequences/" + driver
	entries := []string{"connect", "client", "host-connect", "host-legacy"}
	return vh.Unit{Name: name, Run: func(u *vh.U) {
		for _, min := range []string{"off", "5"} {
			for _, off := range []int64{-1, 0} {
				for _, split := range []string{"credit", "trial"} {
					for _, e1 := range entries {
						for _, e2 := range entries {
							for _, e3 := range []string{"", "connect", "client"} {
								var m int64
								if min != "off" {
									m = big10(min).Int64()
								}
								b := m + off
								pw, ids := c03Setup(driver, min, split, b, 2)
								C := ids[0]
								seq := []string{e1, e2}
								if e3 != "" {
									seq = append(seq, e3)
								}
								for i, entry := range seq {
									isHost := entry == "host-connect" || entry == "host-legacy"
									ctx := vh.CtxWith(pw.Host("cli").Service())
									n := vsched.Now().UnixNano() + 999 + int64(i)
									var err error
									switch entry {
									case "connect", "host-connect":
										req := vh.DefaultParam("vipnode_connect", "").(pool.ConnectRequest)
										req.NodeInfo.IsFullNode = isHost
										_, err = pw.Pool.Connect(ctx, C.SignNode("vipnode_connect", n, req), C.NodeID, n, req)
									case "client":
										req := pool.ClientRequest{Kind: "geth", NumHosts: 1}
										_, err = pw.Pool.Client(ctx, C.SignNode("vipnode_client", n, req), C.NodeID, n, req)
									case "host-legacy":
										req := pool.HostRequest{Kind: "geth"}
										_, err = pw.Pool.Host(ctx, C.SignNode("vipnode_host", n, req), C.NodeID, n, req)
									}
									u.R.Evaluations++
									u.R.States++
									u.R.Transitions++
									u.R.Traces++
									_, isLow := vh.AsLowBalance(err)
									want := !isHost && min != "off" && b < m
									if vh.IsRefused(err) {
										u.Violate("connect/unexpected-error", fmt.Sprintf("arrival %d of %v: %v", i+1, seq, err), nil)
									}
									desc := fmt.Sprintf("min=%s split=%s balance=%d, arrivals of one node id %v, at arrival %d (%s)", min, split, b, seq, i+1, entry)
									u.Observe(fmt.Sprintf("seq %s %d %v %v", entry, i, want, isLow))
									switch {
									case isLow && !want && isHost:
										u.Violate("connect/host-refused-for-balance", desc+": a full-node host was refused: "+err.Error(), nil)
									case isLow && !want:
										u.Violate("connect/refused-at-or-above-minimum", desc+": refused: "+err.Error(), nil)
									case !isLow && want:
										u.Violate("connect/not-refused-below-minimum", fmt.Sprintf("%s: returned %v", desc, err), nil)
									}
								}
							}
						}
					}
				}
			}
		}
		u.Sample("every sequence of two entry points (+ an optional third) for one node id, below and at the minimum")
	}}
}

func c03Update(driver string) vh.Unit {
	name := "keepalive/" + driver
	return vh.Unit{Name: name, Run: func(u *vh.U) {
		for _, min := range c03Mins {
			for _, split := range c03Splits {
				for _, off := range []int64{-1, 0, 1} {
					for _, elapsed := range []int64{0, 1, 5, 1000} {
						for _, nHosts := range []int{0, 2, 3} {
							for _, asHost := range []bool{false, true} {
								if asHost && (nHosts != 2 || elapsed == 0) {
									continue
								}
								var m int64
								if min != "off" {
									m = big10(min).Int64()
								}
								gross := elapsed * int64(nHosts)
								charge := gross // what leaves the account the client spends from
								if split == "shared" && nHosts > 0 {
									charge -= elapsed // the first host's share returns to the same wallet
								}
								if asHost {
									gross, charge = 0, 0 // full nodes are never billed
								}
								after := m + off
								b := after + charge
								pw, ids := c03Setup(driver, min, split, b, nHosts)
								if c03SetupErr != "" {
									u.Violate("connect/host-refused-for-balance", c03SetupErr, nil)
								}
								C, W, hosts := ids[0], ids[1], ids[2:]
								if asHost {
									n, _ := pw.Store.GetNode(store.NodeID(C.NodeID))
									n.IsHost = true
									pw.Store.SetNode(*n)
								}
								var hostIDs []string
								for _, h := range hosts {
									hostIDs = append(hostIDs, h.NodeID)
								}
								// establish tracking (elapsed 0: nothing billed)
								if _, err := pw.Update(C, hostIDs, 1); err != nil {
									if _, low := vh.AsLowBalance(err); !low {
										u.Violate("keepalive/setup-failed", fmt.Sprintf("min=%s: %v", min, err), nil)
									}
								}
								pre := spendable(pw, C.NodeID)
								if pre == nil || pre.Cmp(big.NewInt(b)) != 0 {
									// the first (non-billing) keep-alive must not have moved the balance
									u.Violate("keepalive/setup-balance-moved", fmt.Sprintf("min=%s split=%s: balance %v after a zero-elapsed keep-alive, expected %d", min, split, pre, b), nil)
									continue
								}
								nodes := []string{C.NodeID}
								for _, h := range hosts {
									nodes = append(nodes, h.NodeID)
								}
								before := vh.ReadLedger(pw.Store, nodes, []string{W.Wallet})
								vsched.Advance(time.Duration(elapsed))
								_, err := pw.Update(C, hostIDs, 2)
								afterL := vh.ReadLedger(pw.Store, nodes, []string{W.Wallet})
								u.R.Evaluations++
								u.R.States++
								u.R.Transitions++
								u.R.Traces++
								lb, isLow := vh.AsLowBalance(err)
								bills := !asHost && gross > 0
								want := bills && min != "off" && after < m
								desc := fmt.Sprintf("min=%s split=%s balance-before=%d net charge=%d (elapsed=%dns x %d peers) host=%v", min, split, b, charge, elapsed, nHosts, asHost)
								u.Observe(fmt.Sprintf("%s %d %v %d %v %v", min, off, bills, nHosts, asHost, isLow))
								if len(u.R.Samples) < 3 && want {
									u.Sample(desc + " -> cut off")
								}
								if before.Sum.Cmp(afterL.Sum) != 0 {
									u.Violate("keepalive/ledger-not-zero-sum", fmt.Sprintf("%s: credit sum %s -> %s (%v)", desc, before.Sum, afterL.Sum, err), nil)
								}
								post := spendable(pw, C.NodeID)
								switch {
								case isLow && asHost:
									u.Violate("keepalive/host-cut-off-for-balance", desc+": "+err.Error(), nil)
								case isLow && !want && bills:
									u.Violate("keepalive/cut-off-at-or-above-minimum", desc+": "+err.Error(), nil)
								case isLow && !want && !bills:
									// a non-billing keep-alive of a client: property silent unless balance >= min
									if after >= m {
										u.Violate("keepalive/cut-off-at-or-above-minimum", desc+": "+err.Error(), nil)
									}
								case !isLow && want:
									u.Violate("keepalive/not-cut-off-below-minimum", fmt.Sprintf("%s: update returned %v; balance after %v", desc, err, post), nil)
								case !isLow && err != nil:
									u.Violate("keepalive/unexpected-error", fmt.Sprintf("%s: %v", desc, err), nil)
								}
								if bills && post != nil && post.Cmp(big.NewInt(after)) != 0 {
									u.Violate("keepalive/charge-not-applied", fmt.Sprintf("%s: spendable balance after the keep-alive is %s, expected %d (err=%v)", desc, post, after, err), nil)
								}
								if isLow && want {
									if lb.CurrentBalance == nil || post == nil || lb.CurrentBalance.Cmp(post) != 0 {
										u.Violate("keepalive/reported-balance", fmt.Sprintf("%s: error reports balance %v, actual balance (deposit+credit) %v", desc, lb.CurrentBalance, post), nil)
									}
									for i, h := range hosts {
										got := disconnects(pw, h, C.NodeID)
										wantN := 1
										if i == 2 {
											wantN = 0 // H3 has no live connection
										}
										if got != wantN {
											u.Violate("keepalive/disconnect-fanout", fmt.Sprintf("%s: host %s received %d vipnode_disconnect(client), expected %d", desc, h.Name, got, wantN), nil)
										}
									}
								} else {
									for _, h := range hosts {
										if got := disconnects(pw, h, C.NodeID); got != 0 {
											u.Violate("keepalive/spurious-disconnect", fmt.Sprintf("%s: host %s was told to disconnect a client that was not cut off", desc, h.Name), nil)
										}
									}
								}
							}
						}
					}
				}
			}
		}
	}}
}

// two clients spending from one wallet send their keep-alives at the same time: whoever is charged
// last takes the account below the minimum and must be cut off.
func c03SharedRace(driver string, bound int) vh.Unit {
	name := "shared-wallet-race/" + driver
	ids := vh.Identities()
	C1, H1, H2, W, C2 := ids[0], ids[1], ids[2], ids[4], ids[5]
	var pw *vh.PoolWorld
	res := make([]error, 2)
	body := func() {
		vsched.ResetClock(0)
		pw = vh.NewPoolWorld(vh.PoolConfig{Driver: driver, Price: big.NewInt(1), Interval: 1, MinBalance: big.NewInt(500)})
		for _, h := range []*vh.Ident{H1, H2} {
			pw.Connect(h, vh.ConnectOpts{Host: true})
		}
		for _, c := range []*vh.Ident{C1, C2} {
			pw.Store.SetNode(store.Node{ID: store.NodeID(c.NodeID), Kind: "geth", LastSeen: vsched.Now()})
			pw.Store.AddAccountNode(store.Account(W.Wallet), store.NodeID(c.NodeID))
		}
		pw.Store.AddAccountBalance(store.Account(W.Wallet), big.NewInt(515))
		pw.Update(C1, []string{H1.NodeID}, 1)
		pw.Update(C2, []string{H2.NodeID}, 1)
		vsched.Advance(10) // each keep-alive now costs 10: 515 -> 505 -> 495
		pw.Update(H1, nil, 2)
		pw.Update(H2, nil, 2)
		vh.Par([]string{"c1", "c2"},
			func() { _, res[0] = pw.Update(C1, []string{H1.NodeID}, 2) },
			func() { _, res[1] = pw.Update(C2, []string{H2.NodeID}, 2) })
	}
	return vh.Unit{Name: name, Run: func(u *vh.U) {
		vh.RunDFS(u, vh.DFSSpec{
			Name: name, Bound: bound,
			Run:  vsched.Options{YieldFiles: []string{"perinterval.go", "memory.go", "badger.go", "helpers.go"}},
			Body: body,
			Obs:  func(s *vsched.Sched) string { return fmt.Sprint(errs(res), spendable(pw, C1.NodeID)) },
			Check: func(s *vsched.Sched) (string, string) {
				final := spendable(pw, C1.NodeID)
				cut := 0
				for i, e := range res {
					lb, low := vh.AsLowBalance(e)
					if e != nil && !low {
						return "shared-wallet-race/unexpected-error", fmt.Sprintf("keep-alive %d: %v", i, e)
					}
					if low {
						cut++
						if lb.CurrentBalance == nil || lb.CurrentBalance.Cmp(big.NewInt(500)) >= 0 {
							return "shared-wallet-race/cut-off-at-or-above-minimum", fmt.Sprintf("keep-alive %d cut off reporting balance %v (minimum 500)", i, lb.CurrentBalance)
						}
					}
				}
				if final == nil || final.Cmp(big.NewInt(495)) != 0 {
					return "shared-wallet-race/charge-not-applied", fmt.Sprintf("two keep-alives of 10 each from a wallet of 515: balance afterwards %v (results %v)", final, res)
				}
				if cut == 0 {
					return "shared-wallet-race/not-cut-off-below-minimum", fmt.Sprintf("two clients sharing a wallet of 515 (minimum 500) were charged 10 each at the same time: the wallet is at %v and neither client was cut off", final)
				}
				return "", ""
			},
		})
	}}
}

// the cut-off reaches a host on the connection it is registered on *now*: hosts that moved to a new
// connection (in either order of "new one registers" / "old one closes") still get exactly one
// vipnode_disconnect, on the live connection
func c03FanoutAfterReconnect(driver string) vh.Unit {
	name := "fanout-after-reconnect/" + driver
	return vh.Unit{Name: name, Run: func(u *vh.U) {
		for _, order := range []string{"none", "close-then-register", "register-then-close", "register-twice-then-close-first"} {
			for _, which := range []int{0, 1} { // which of the two hosts moves
				pw, ids := c03Setup(driver, "500", "credit", 505, 2)
				C, hosts := ids[0], ids[2:]
				mover := hosts[which]
				live := map[string]string{hosts[0].Name: hosts[0].Name, hosts[1].Name: hosts[1].Name} // host -> live connection name
				oldSvc := pw.Host(mover.Name).Service()
				reg := func(conn string) {
					if _, err := pw.Connect(mover, vh.ConnectOpts{Host: true, Service: pw.Host(conn).Service()}); err != nil {
						u.Violate("fanout/setup-failed", err.Error(), nil)
					}
					live[mover.Name] = conn
				}
				switch order {
				case "close-then-register":
					pw.Pool.CloseRemote(oldSvc)
					reg(mover.Name + "-new")
				case "register-then-close":
					reg(mover.Name + "-new")
					pw.Pool.CloseRemote(oldSvc)
				case "register-twice-then-close-first":
					reg(mover.Name + "-new")
					reg(mover.Name + "-newer")
					pw.Pool.CloseRemote(oldSvc)
					pw.Pool.CloseRemote(pw.Host(mover.Name + "-new").Service())
				}
				hostIDs := []string{hosts[0].NodeID, hosts[1].NodeID}
				pw.Update(C, hostIDs, 1)
				vsched.Advance(5) // 2 peers x 5 ns at 1/ns: 505 -> 495 < 500
				for _, h := range hosts {
					pw.UpdateCtx(vh.CtxWith(pw.Host(live[h.Name]).Service()), h, nil, 2)
				}
				_, err := pw.Update(C, hostIDs, 2)
				u.R.Evaluations++
				u.R.States++
				u.R.Transitions++
				u.R.Traces++
				u.Observe(order + fmt.Sprint(which))
				desc := fmt.Sprintf("host %d moved to a new connection (%s); client billed from 505 to 495 with minimum 500", which, order)
				if _, low := vh.AsLowBalance(err); !low {
					u.Violate("fanout/not-cut-off-below-minimum", fmt.Sprintf("%s: update returned %v", desc, err), nil)
					continue
				}
				for _, h := range hosts {
					for _, conn := range []string{h.Name, h.Name + "-new", h.Name + "-newer"} {
						n := 0
						for _, c := range pw.Host(conn).Calls {
							if c.Method == "vipnode_disconnect" && c.Arg == C.NodeID {
								n++
							}
						}
						want := 0
						if conn == live[h.Name] {
							want = 1
						}
						if n != want {
							u.Violate("keepalive/disconnect-fanout", fmt.Sprintf("%s: connection %q of host %s received %d vipnode_disconnect(client), expected %d (live connection: %q)", desc, conn, h.Name, n, want, live[h.Name]), nil)
						}
					}
				}
			}
		}
		u.Sample("two hosts, one of which re-registered on a new connection before/after its old one closed; client cut off")
	}}
}

// a host whose own keep-alive is late (but inside the activity window, so the client is still
// billed for it) is told about the cut-off like the punctual one
func c03LateHost(driver string) vh.Unit {
	name := "fanout-to-late-hosts/" + driver
	return vh.Unit{Name: name, Run: func(u *vh.U) {
		for _, late := range []time.Duration{0, 30 * time.Second, 59 * time.Second, 61 * time.Second, 90 * time.Second, 119 * time.Second} {
			for _, which := range []int{0, 1} {
				pw, ids := c03Setup(driver, "500", "credit", 505, 2)
				C, hosts := ids[0], ids[2:]
				hostIDs := []string{hosts[0].NodeID, hosts[1].NodeID}
				pw.Update(C, hostIDs, 1)
				// host `which` checked in `late` ago, the other one just now
				pw.UpdateCtx(vh.CtxWith(pw.Host(hosts[which].Name).Service()), hosts[which], nil, 2)
				vsched.Advance(late + 5)
				pw.UpdateCtx(vh.CtxWith(pw.Host(hosts[1-which].Name).Service()), hosts[1-which], nil, 2)
				_, err := pw.Update(C, hostIDs, 2)
				u.R.Evaluations++
				u.R.States++
				u.R.Transitions++
				u.R.Traces++
				u.Observe(fmt.Sprint("late-host ", late, which))
				desc := fmt.Sprintf("two hosts, host %d last checked in %s ago (activity window 2m); client billed below its minimum", which, late)
				if _, low := vh.AsLowBalance(err); !low {
					u.Violate("fanout/not-cut-off-below-minimum", fmt.Sprintf("%s: update returned %v", desc, err), nil)
					continue
				}
				for _, h := range hosts {
					n := 0
					for _, c := range pw.Host(h.Name).Calls {
						if c.Method == "vipnode_disconnect" && c.Arg == C.NodeID {
							n++
						}
					}
					if n != 1 {
						u.Violate("keepalive/disconnect-fanout", fmt.Sprintf("%s: host %s received %d vipnode_disconnect(client), expected 1", desc, h.Name, n), nil)
					}
				}
			}
		}
		u.Sample("two hosts, one of them 0-119 s behind with its own keep-alive; client cut off")
	}}
}

// histories that walk a balance across the threshold in both directions.
func c03Walk(driver string, depth int) vh.Unit {
	name := fmt.Sprintf("walk/%s/d%d", driver, depth)
	evs := []string{"tick 3ns", "tick 10ns", "upd", "conn", "dep +20", "dep -20"}
	type world struct {
		pw  *vh.PoolWorld
		ids []*vh.Ident
		cut bool
	}
	return vh.Unit{Name: name, Run: func(u *vh.U) {
		for _, min := range []string{"0", "5"} {
			m := big10(min)
			sname := name + "/min" + min
			vh.RunBFS(u, vh.BFSSpec{
				Name: sname, MaxDepth: depth,
				New: func() interface{} {
					pw, ids := c03Setup(driver, min, "deposit", m.Int64()+10, 2)
					if c03SetupErr != "" {
						u.Violate("connect/host-refused-for-balance", c03SetupErr, nil)
					}
					pw.Update(ids[0], []string{ids[2].NodeID, ids[3].NodeID}, 1)
					return &world{pw: pw, ids: ids}
				},
				Events: func(w interface{}) []string { return evs },
				Apply: func(wi interface{}, ev string, judge bool, hist []string) {
					w := wi.(*world)
					C, W := w.ids[0], w.ids[1]
					hostIDs := []string{w.ids[2].NodeID, w.ids[3].NodeID}
					switch ev {
					case "tick 3ns":
						vsched.Advance(3)
					case "tick 10ns":
						vsched.Advance(10)
					case "dep +20", "dep -20":
						d := w.pw.BStore.Deposits[store.Account(W.Wallet)]
						delta := int64(20)
						if ev == "dep -20" {
							delta = -20
						}
						w.pw.BStore.Deposits[store.Account(W.Wallet)] = new(big.Int).Add(d, big.NewInt(delta))
					case "conn":
						pre := spendable(w.pw, C.NodeID)
						_, err := w.pw.Connect(C, vh.ConnectOpts{})
						_, isLow := vh.AsLowBalance(err)
						if judge {
							u.Observe(fmt.Sprint("conn ", pre.Cmp(m), isLow))
							if isLow != (pre.Cmp(m) < 0) {
								u.Violate("walk/connect-decision", fmt.Sprintf("min=%s history %v: balance %s, refused=%v", min, hist, pre, isLow), vh.BFSReplay(sname, hist))
							}
						}
					case "upd":
						node, _ := w.pw.Store.GetNode(store.NodeID(C.NodeID))
						peers, _ := w.pw.Store.NodePeers(store.NodeID(C.NodeID))
						el := int64(vsched.Now().Sub(node.LastSeen))
						pre := spendable(w.pw, C.NodeID)
						marks := map[string]int{}
						for _, h := range w.ids[2:] {
							marks[h.Name] = len(w.pw.Host(h.Name).Calls)
						}
						_, err := w.pw.Update(C, hostIDs, 2)
						_, isLow := vh.AsLowBalance(err)
						post := spendable(w.pw, C.NodeID)
						if judge {
							// every cut-off - the first and every later one - reaches every connected host once
							for _, h := range w.ids[2:] {
								n := 0
								for _, c := range w.pw.Host(h.Name).Calls[marks[h.Name]:] {
									if c.Method == "vipnode_disconnect" && c.Arg == C.NodeID {
										n++
									}
								}
								want := 0
								if isLow && len(peers) > 0 {
									want = 1
								}
								if n != want && (isLow || n > 0) {
									u.Violate("keepalive/disconnect-fanout", fmt.Sprintf("min=%s history %v: keep-alive cut off=%v, host %s received %d vipnode_disconnect(client), expected %d", min, hist, isLow, h.Name, n, want), vh.BFSReplay(sname, hist))
									break
								}
							}
							charge := el * int64(len(peers))
							wantAfter := new(big.Int).Sub(pre, big.NewInt(charge))
							want := charge > 0 && wantAfter.Cmp(m) < 0
							u.Observe(fmt.Sprint("upd ", charge > 0, wantAfter.Cmp(m), isLow))
							if charge > 0 && post.Cmp(wantAfter) != 0 {
								u.Violate("walk/charge-not-applied", fmt.Sprintf("min=%s history %v: balance %s, charge %d, balance after %s (err=%v)", min, hist, pre, charge, post, err), vh.BFSReplay(sname, hist))
							} else if isLow != want && (charge > 0 || wantAfter.Cmp(m) >= 0) {
								u.Violate("walk/keepalive-decision", fmt.Sprintf("min=%s history %v: balance %s, charge %d, cut off=%v", min, hist, pre, charge, isLow), vh.BFSReplay(sname, hist))
							}
						}
					}
				},
				Key: func(wi interface{}) string {
					w := wi.(*world)
					C := w.ids[0]
					n, _ := w.pw.Store.GetNode(store.NodeID(C.NodeID))
					peers, _ := w.pw.Store.NodePeers(store.NodeID(C.NodeID))
					return fmt.Sprintf("%d|%d|%s|%d|%s|%s", vsched.Elapsed(), n.LastSeen.Sub(vsched.Base()), spendable(w.pw, C.NodeID), len(peers), vh.StateKey(w.pw.Raw), w.pw.RegistryKey())
				},
			})
		}
	}}
}

var _ = context.Background

func init() {
	vh.Register(&vh.Check{
		ID: "C03", Level: "model_checking",
		Technique: "bounded-exhaustive enumeration of (minimum, balance around the threshold, deposit/credit split, charge, entry point) on the real pool with real signed requests + explicit-state BFS of histories walking a balance across the threshold",
		Rule:      "full product of min ∈ {off,-5,0,5,1000} x balance ∈ {min-1,min,min+1} x 4 deposit/credit splits x 4 entry points (connect) resp. x charges {0,1,5,1000}ns x {0,2,3 peers} x client/host (keep-alive); BFS over {tick, keep-alive, reconnect, deposit ±20}; distinct = distinct (min, offset, billing?, peers, host?, refused?) tuples",
		Assumptions: []string{
			"on-chain deposits are modelled by a BalanceStore decorator equivalent to payment.contractPayment's deposit overlay",
			"a non-billing keep-alive of a client already below the minimum is not judged (the statement speaks of keep-alives that bill)",
		},
		Units: func(tier string) []vh.Unit {
			var us []vh.Unit
			for _, d := range vh.Drivers {
				us = append(us, c03Connect(d), c03ConnectSequences(d), c03Update(d), c03FanoutAfterReconnect(d), c03LateHost(d))
				depth := 4
				if tier == "thorough" {
					depth = 8
				}
				if d == vh.Badger {
					depth--
				}
				us = append(us, c03Walk(d, depth))
				bound := 2
				if d == vh.Badger {
					bound = 1
				}
				// (bound 3 does not finish within the thorough budget: 2/1 is what is completed)
				us = append(us, c03SharedRace(d, bound))
			}
			us = append(us, c03BinaryMinBalance(), c03BinaryMinBalanceUnits(), binaryWithContract())
			return us
		},
	})
}
