//go:build go1.21

package checks

import (
	"encoding/hex"
	"encoding/json"
	"fmt"
	"net"
	"net/http"
	"os"
	"os/exec"
	"path/filepath"
	"reflect"
	"strings"
	"sync"
	"syscall"
	"time"

	"github.com/ethereum/go-ethereum/crypto"
	"github.com/gorilla/websocket"
	"github.com/vipnode/vipnode/v2/agent"
	"github.com/vipnode/vipnode/v2/internal/verif/vh"
	"github.com/vipnode/vipnode/v2/jsonrpc2"
)

// The agent binary serves calls too: in the reverse direction of its WebSocket connection to the
// pool. The documented set is vipnode_whitelist alone. The harness plays the pool end of that
// connection and tries every exported method of the agent object (and some helpers) under every
// prefix and spelling.
func c16AgentReverse() vh.Unit {
	return vh.Unit{Name: "wire/agent-reverse-callable-set", Run: func(u *vh.U) {
		bin := vh.VipnodeBin()
		if bin == "" {
			u.R.Infra = "VERIF_VIPNODE_BIN not set"
			return
		}
		dir := vh.Scratch("c16a-")
		defer os.RemoveAll(dir)
		id := vh.Identities()[0]
		keyfile := filepath.Join(dir, "nodekey")
		os.WriteFile(keyfile, []byte(hex.EncodeToString(crypto.FromECDSA(id.Key))), 0600)

		ln, err := net.Listen("tcp", "127.0.0.1:0")
		if err != nil {
			u.R.Infra = err.Error()
			return
		}
		defer ln.Close()
		conns := make(chan *websocket.Conn, 4)
		upgrader := websocket.Upgrader{CheckOrigin: func(*http.Request) bool { return true }}
		srv := &http.Server{Handler: http.HandlerFunc(func(w http.ResponseWriter, r *http.Request) {
			if c, err := upgrader.Upgrade(w, r, nil); err == nil {
				conns <- c
			}
		})}
		go srv.Serve(ln)
		defer srv.Close()

		cmd := exec.Command(bin, "-vv", "agent", "--rpc", "fakenode://"+id.NodeID+"@x", "--nodekey", keyfile, "--update-interval=60s", "ws://"+ln.Addr().String())
		cmd.Env = append(os.Environ(), "HOME="+dir)
		cmd.SysProcAttr = &syscall.SysProcAttr{Setpgid: true, Pdeathsig: syscall.SIGKILL}
		var out lockedBuf
		cmd.Stdout, cmd.Stderr = &out, &out
		if err := cmd.Start(); err != nil {
			u.R.Infra = err.Error()
			return
		}
		exited := make(chan struct{})
		go func() { cmd.Wait(); close(exited) }()
		defer func() {
			syscall.Kill(-cmd.Process.Pid, syscall.SIGKILL)
			<-exited
		}()
		var conn *websocket.Conn
		select {
		case conn = <-conns:
		case <-exited:
			u.Violate("wire/agent-did-not-connect", "the agent exited before dialling its pool: "+firstN(out.String(), 600), nil)
			return
		case <-time.After(3 * time.Minute):
			u.R.Infra = "the agent did not dial the harness pool within 3 minutes: " + firstN(out.String(), 600)
			return
		}
		defer conn.Close()

		// the pool end: answer the agent's own requests, route replies to our reverse requests
		var wmu sync.Mutex
		write := func(text string) error {
			wmu.Lock()
			defer wmu.Unlock()
			return conn.WriteMessage(websocket.TextMessage, []byte(text))
		}
		var rmu sync.Mutex
		replies := map[string]chan string{}
		registered := make(chan struct{})
		var regOnce sync.Once
		go func() {
			for {
				_, data, err := conn.ReadMessage()
				if err != nil {
					return
				}
				var m struct {
					ID     json.RawMessage `json:"id"`
					Method string          `json:"method"`
				}
				if json.Unmarshal(data, &m) != nil {
					continue
				}
				if m.Method != "" {
					result := `{}`
					if m.Method == "vipnode_connect" {
						result = `{"pool_version":"verif"}`
					}
					write(fmt.Sprintf(`{"jsonrpc":"2.0","id":%s,"result":%s}`, string(m.ID), result))
					if m.Method == "vipnode_update" {
						regOnce.Do(func() { close(registered) })
					}
					continue
				}
				rmu.Lock()
				ch := replies[string(m.ID)]
				rmu.Unlock()
				if ch != nil {
					ch <- string(data)
				}
			}
		}()
		select {
		case <-registered:
		case <-exited:
			u.Violate("wire/agent-did-not-register", "the agent exited while registering with the harness pool: "+firstN(out.String(), 600), nil)
			return
		case <-time.After(3 * time.Minute):
			u.R.Infra = "the agent did not send its first keep-alive within 3 minutes: " + firstN(out.String(), 600)
			return
		}
		nextID := 1000
		call := func(method string) (*vh.RPCReply, string, error) {
			nextID++
			idText := fmt.Sprint(nextID)
			ch := make(chan string, 1)
			rmu.Lock()
			replies[idText] = ch
			rmu.Unlock()
			if err := write(fmt.Sprintf(`{"jsonrpc":"2.0","id":%s,"method":%q,"params":[]}`, idText, method)); err != nil {
				return nil, "", err
			}
			select {
			case body := <-ch:
				r, err := vh.DecodeReply(body)
				return r, body, err
			case <-exited:
				return nil, "", fmt.Errorf("the agent exited")
			case <-time.After(2 * time.Minute):
				return nil, "", fmt.Errorf("no reply within 2 minutes")
			}
		}

		var cands []string
		t := reflect.TypeOf(&agent.Agent{})
		for i := 0; i < t.NumMethod(); i++ {
			cands = append(cands, t.Method(i).Name)
		}
		// destructive ones last (should one of them be callable, the others were still probed)
		cands = append(cands, "updatePeers", "serveUpdates", "disconnectPeers", "Ping", "Modules", "Connect", "Peers", "")
		sortLast := func(name string) bool { return strings.EqualFold(name, "stop") || strings.EqualFold(name, "wait") }
		var ordered []string
		for _, c := range cands {
			if !sortLast(c) {
				ordered = append(ordered, c)
			}
		}
		for _, c := range cands {
			if sortLast(c) {
				ordered = append(ordered, c)
			}
		}
		seen := map[string]bool{}
		callable := map[string]bool{}
		for _, m := range ordered {
			for _, prefix := range []string{"vipnode_", "", "agent_", "pool_"} {
				for _, v := range []string{lcfirst(m), m, strings.ToLower(m), strings.ToUpper(m)} {
					name := prefix + v
					if seen[name] {
						continue
					}
					seen[name] = true
					r, body, err := call(name)
					u.R.Evaluations++
					u.R.States++
					u.R.Transitions++
					u.R.Traces++
					if err != nil {
						u.Violate("wire/agent-no-reply", fmt.Sprintf("reverse request %q: %v; agent output: %s", name, err, firstN(out.String(), 600)), nil)
						return
					}
					isCallable := r.Code() != jsonrpc2.ErrCodeMethodNotFound
					want := name == "vipnode_whitelist"
					u.Observe(fmt.Sprintf("%v %d", want, r.Code()))
					if isCallable {
						callable[name] = true
					}
					if isCallable != want {
						cls := "undocumented-method-callable"
						if want {
							cls = "documented-method-missing"
						}
						u.Violate("wire/agent/"+cls, fmt.Sprintf("the agent binary answers the reverse request %q with code %d (%s)", name, r.Code(), firstN(body, 300)), nil)
					}
				}
			}
		}
		u.Sample(fmt.Sprintf("callable on the agent, pool -> agent direction: %v", keysOfB(callable)))
	}}
}
