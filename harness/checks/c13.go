//go:build go1.21

package checks

import (
	"bytes"
	"encoding/gob"
	"fmt"
	"math/big"
	"os"
	"path/filepath"
	"sort"
	"strings"
	"time"

	badgerdb "github.com/dgraph-io/badger/v2"
	"github.com/vipnode/vipnode/v2/internal/verif/vh"
	"github.com/vipnode/vipnode/v2/internal/verif/vsched"
	"github.com/vipnode/vipnode/v2/pool/store"
)

// C13 — the persistent store keeps every acknowledged change across restarts and crashes.

var c13Ops = []string{"set a hg", "set b cl", "upd a b 7", "addnb a 5", "link W1 a", "addab W1 -7", "nonce a n", "reopen"}

var c13IDs = []store.NodeID{"a", "b", "c"}
var c13Accts = []store.Account{"W1", "W2"}

// model state after a prefix of ops (ticks advance the virtual clock like in the child)
func c13Model(ops []string) *vh.StoreModel {
	vsched.SetVirtualClock(true)
	vsched.ResetClock(0)
	m := vh.NewStoreModel()
	for _, op := range ops {
		if op == "reopen" {
			continue
		}
		if d := vh.TickOf(op); d > 0 {
			vsched.Advance(d)
		}
		vh.ApplyStoreOpModel(m, op)
	}
	return m
}

// c13Judge opens an image, compares it with the candidate models; returns "" if it equals one.
func c13Judge(imgDir string, models []*vh.StoreModel, clocks []time.Duration) (problem string, refused bool, matched int) {
	st, refused, err := vh.OpenRecovered(imgDir)
	if err != nil {
		return fmt.Sprintf("the image cannot be opened: %v", err), refused, -1
	}
	defer st.Close()
	var firstDiff string
	for i, m := range models {
		vsched.ResetClock(clocks[i])
		mm := m.ReadBattery(st, c13IDs, c13Accts, []int{0})
		// nonces: the accepted ones must still be refused (probe is harmless on a throw-away image)
		if len(mm) == 0 {
			for id, h := range m.Nonces {
				if st.CheckAndSaveNonce(id, h) == nil {
					mm = append(mm, [2]string{"nonce", fmt.Sprintf("nonce %d of %s accepted again after recovery", h, id)})
				}
			}
		}
		if len(mm) == 0 {
			return "", refused, i
		}
		if firstDiff == "" {
			firstDiff = mm[0][1]
		}
	}
	return firstDiff, refused, -1
}

func c13Histories(length int) [][]string {
	var out [][]string
	var rec func(cur []string)
	rec = func(cur []string) {
		if len(cur) == length {
			out = append(out, append([]string{}, cur...))
			return
		}
		for _, op := range c13Ops {
			if op == "reopen" && (len(cur) == 0 || cur[len(cur)-1] == "reopen") {
				continue
			}
			rec(append(cur, op))
		}
	}
	rec(nil)
	return out
}

func c13Crash(length, shard, nshards int, everyByteMod int) vh.Unit {
	return c13CrashHists(fmt.Sprintf("crash-images/len%d/%d", length, shard), func() [][]string { return c13Histories(length) }, shard, nshards, everyByteMod)
}

// histories in which time passes: peer sets that age out (down to the empty set), nodes re-reporting
// after their peers expired, nonces accepted long before the kill
func c13AgedHistories() [][]string {
	var out [][]string
	for _, last := range []string{"upd a - 9", "upd a c 9", "upd a b 9", "upd b - 9", "set a hg", "nonce a fresh", "addnb a 5"} {
		for _, tick := range []string{"tick 1m", "tick 3m", "tick 20m"} {
			out = append(out,
				[]string{"set a hg", "set b cl", "upd a b 7", tick, last, "reopen"},
				[]string{"set a hg", "set b cl", "set c cl", "upd a b,c 7", tick, "upd a c 8", tick, last},
				[]string{"set a hg", "upd a b 7", "nonce a n", tick, last, "nonce a n+1"},
			)
		}
	}
	// balances that come back to exactly zero (a record holding nothing is still a record: it
	// carries the wallet it belongs to)
	out = append(out,
		[]string{"set a hg", "addnb a 5", "addnb a -5", "reopen"},
		[]string{"set a hg", "link W1 a", "addab W1 7", "addab W1 -7", "reopen"},
		[]string{"set a hg", "addnb a 5", "link W1 a", "addab W1 -5"},
		[]string{"set a hg", "set b cl", "addnb a 5", "addnb b -5", "addnb a -5", "addnb b 5"},
	)
	return out
}

func c13CrashHists(name string, histories func() [][]string, shard, nshards int, everyByteMod int) vh.Unit {
	return vh.Unit{Name: name, Run: func(u *vh.U) {
		hists := histories()
		for histIdx, ops := range hists {
			if histIdx%nshards != shard {
				continue
			}
			if u.Expired() {
				return
			}
			base := vh.Scratch("c13-")
			func() {
				defer os.RemoveAll(base)
				dir := filepath.Join(base, "db")
				os.MkdirAll(dir, 0700)
				run, err := vh.RunCrashChild(dir, ops)
				if err != nil {
					u.R.Infra = fmt.Sprintf("history %v: %v", ops, err)
					return
				}
				// models and clocks after every prefix
				var models []*vh.StoreModel
				var clocks []time.Duration
				for k := 0; k <= len(ops); k++ {
					models = append(models, c13Model(ops[:k]))
					clocks = append(clocks, vsched.Elapsed())
				}
				// acknowledged results must match the contract (C12 covers this; cheap sanity here)
				img := 0
				check := func(label string, sizes map[string]int64, vlog int64, cand []int) bool {
					img++
					d := filepath.Join(base, fmt.Sprintf("img%d", img))
					defer os.RemoveAll(d)
					if err := vh.MakeImage(dir, d, sizes, vlog); err != nil {
						u.Count("images_not_reconstructible", 1)
						return true
					}
					var ms []*vh.StoreModel
					var cs []time.Duration
					for _, c := range cand {
						ms = append(ms, models[c])
						cs = append(cs, clocks[c])
					}
					problem, refused, matched := c13Judge(d, ms, cs)
					u.R.Evaluations++
					u.R.States++
					u.R.Transitions++
					u.R.Traces++
					if refused {
						u.Count("torn_tail_refused_by_production_open", 1)
					}
					u.Observe(fmt.Sprintf("%s ops=%d matched=%d refused=%v", strings.Fields(label)[0], len(ops), matched, refused))
					if problem != "" {
						cls := "acknowledged-state-lost"
						if strings.HasPrefix(label, "torn") {
							cls = "interrupted-operation-half-applied"
						}
						u.Violate("crash/"+cls, fmt.Sprintf("history %v, %s: after recovery the store matches neither candidate state: %s", ops, label, problem), nil)
						return false
					}
					return true
				}
				// (b) kill after every acknowledged operation
				for k := 0; k <= len(ops); k++ {
					if !check(fmt.Sprintf("killed after operation %d of %d", k, len(ops)), run.Marks[k], -1, []int{k}) {
						return
					}
				}
				// (c) kill during the last operation: the value log cut inside the bytes it appended
				k := len(ops)
				lo, hi := vh.VlogSize(run.Marks[k-1]), vh.VlogSize(run.Marks[k])
				sameFiles := len(run.Marks[k-1]) == len(run.Marks[k])
				if ops[k-1] != "reopen" && vh.TickOf(ops[k-1]) == 0 && sameFiles && hi > lo {
					step := int64(16)
					if everyByteMod > 0 && histIdx%everyByteMod == 0 {
						step = 1 // a representative subset of histories gets every single byte length
					}
					for cut := lo + 1; cut < hi; cut++ {
						if step > 1 && (cut-lo)%step != 0 && cut-lo > 8 && hi-cut > 8 {
							continue
						}
						if !check(fmt.Sprintf("torn: killed while operation %d (%s) was being written, value log cut at byte %d of [%d,%d]", k, ops[k-1], cut, lo, hi), run.Marks[k], cut, []int{k - 1, k}) {
							return
						}
					}
				}
				if len(u.R.Samples) < 2 {
					u.Sample(map[string]interface{}{"history": ops, "vlog_marks": func() []int64 {
						var r []int64
						for _, m := range run.Marks {
							r = append(r, vh.VlogSize(m))
						}
						return r
					}()})
				}
			}()
			if u.NViolations() > 0 {
				return
			}
		}
	}}
}

// validation of the truncation model: really kill the child after operation k and compare the
// directory with the image computed from the full run (value log cut at the size recorded at k).
func c13ModelValidation() vh.Unit {
	return vh.Unit{Name: "truncation-model-validation", Run: func(u *vh.U) {
		hists := [][]string{
			{"set a hg", "addnb a 5", "link W1 a", "addab W1 -7"},
			{"set a hg", "set b cl", "upd a b 7", "nonce a n"},
			{"set b cl", "addnb b 5", "link W1 b", "upd b b 1"},
		}
		for _, ops := range hists {
			base := vh.Scratch("c13v-")
			func() {
				defer os.RemoveAll(base)
				full := filepath.Join(base, "full")
				os.MkdirAll(full, 0700)
				run, err := vh.RunCrashChild(full, ops)
				if err != nil {
					u.R.Infra = err.Error()
					return
				}
				for k := 1; k <= len(ops); k++ {
					part := filepath.Join(base, fmt.Sprintf("part%d", k))
					os.MkdirAll(part, 0700)
					runk, err := vh.RunCrashChild(part, ops[:k])
					if err != nil {
						u.R.Infra = err.Error()
						return
					}
					u.R.Evaluations++
					u.R.States++
					u.R.Transitions++
					u.R.Traces++
					want := vh.VlogSize(run.Marks[k])
					got := vh.VlogSize(runk.Marks[k])
					// the really killed directory must have a value log of exactly the recorded size and,
					// reopened, hold exactly what the computed image holds (the file header carries a
					// random IV, so the comparison is on content, not on raw bytes)
					img := filepath.Join(base, fmt.Sprintf("img%d", k))
					vh.MakeImage(full, img, run.Marks[k], -1)
					dumpOf := func(dir string) string {
						st, _, err := vh.OpenRecovered(dir)
						if err != nil {
							return "open failed: " + err.Error()
						}
						defer st.Close()
						return vh.BadgerDump(st)
					}
					killedDir := filepath.Join(base, fmt.Sprintf("killed%d", k))
					vh.MakeImage(part, killedDir, runk.Marks[k], -1)
					same := got == want && dumpOf(img) == dumpOf(killedDir)
					os.RemoveAll(img)
					os.RemoveAll(killedDir)
					u.Observe(fmt.Sprintf("k=%d size=%d same=%v", k, want, same))
					if !same {
						u.Violate("crash/truncation-model-invalid", fmt.Sprintf("history %v: a child really killed after operation %d left a %d-byte value log; the full run recorded %d bytes at that point (prefix identical: %v) - the crash-image model does not describe this badger version", ops, k, got, want, same), nil)
						return
					}
					os.RemoveAll(part)
				}
			}()
		}
		u.Sample("children really SIGKILLed after each prefix of 3 histories; value logs compared byte by byte with the computed images")
	}}
}

// (d) concurrent readers never observe a half-applied multi-key operation
func c13Readers(writer string, bound int) vh.Unit {
	name := "concurrent-readers/" + strings.Fields(writer)[0]
	var obs []string
	body := func() {
		st := vh.NewStore(vh.Badger)
		for _, op := range []string{"set a hg", "set b cl", "addnb a 40", "addab W1 2", "upd a b 1"} {
			vh.ApplyStoreOp(st, op)
		}
		obs = nil
		vh.Par([]string{"writer", "reader"},
			func() { vh.ApplyStoreOp(st, writer) },
			func() {
				for i := 0; i < 2; i++ {
					nb, _ := st.GetNodeBalance("a")
					ab, _ := st.GetAccountBalance("W1")
					stats, _ := st.Stats()
					peers, _ := st.NodePeers("a")
					tc := "?"
					if stats != nil {
						tc = stats.TotalCredit.String()
					}
					obs = append(obs, fmt.Sprintf("node-a=%s/%s wallet=%s total=%s trials=%d peers=%d", nb.Credit.String(), nb.Account, ab.Credit.String(), tc, stats.NumTrialBalances, len(peers)))
				}
			})
	}
	allowed := map[string]bool{
		// before / after "link W1 a": trial 40 + wallet 2  ->  wallet 42
		"link": true,
	}
	_ = allowed
	return vh.Unit{Name: name, Run: func(u *vh.U) {
		vh.RunDFS(u, vh.DFSSpec{
			Name: name, Bound: bound,
			Run:  vsched.Options{YieldFiles: []string{"badger.go", "helpers.go"}},
			Body: body,
			Obs:  func(s *vsched.Sched) string { return strings.Join(obs, " | ") },
			Check: func(s *vsched.Sched) (string, string) {
				for _, o := range obs {
					if !strings.Contains(o, "total=42") {
						return "readers/half-applied-state-observed", fmt.Sprintf("while %q ran a reader saw %s (total credit must be 42 before and after)", writer, o)
					}
					// each getter is one read transaction: its own answer must be a before- or an after-state
					if strings.HasPrefix(writer, "link") {
						f := strings.Fields(o)
						okNode := f[0] == "node-a=40/" || f[0] == "node-a=42/W1"
						okWallet := f[1] == "wallet=2" || f[1] == "wallet=42"
						okStats := f[3] == "trials=1" || f[3] == "trials=0"
						if !okNode || !okWallet || !okStats {
							return "readers/half-applied-state-observed", fmt.Sprintf("while %q ran a reader saw %s: one of the answers is neither the state before nor the state after", writer, o)
						}
					}
				}
				return "", ""
			},
		})
	}}
}

// concurrent writers: what is on disk after overlapping acknowledged operations is what some
// one-at-a-time order of them leaves (no orphan or half-migrated keys), key by key
func c13Writers(scen string, bound int) vh.Unit {
	name := "concurrent-writers/" + scen
	ops := map[string][]string{
		"credit-vs-link":         {"addnb a 5", "link W1 a"},
		"credit-vs-link-vs-acct": {"addnb a 5", "link W1 a", "addab W1 3"},
		"two-links":              {"link W1 a", "link W2 a"},
		"link-vs-reregister":     {"link W1 a", "set a hp"},
		"peers-vs-reregister":    {"upd a b 9", "set a hp"},
	}[scen]
	run := func(perm []int) string {
		vsched.ResetClock(0)
		st := vh.NewStore(vh.Badger)
		for _, op := range []string{"set a hg", "set b cl", "addnb a 40", "addab W1 2", "upd a b 1"} {
			vh.ApplyStoreOp(st, op)
		}
		res := make([]string, len(ops))
		if perm != nil {
			for _, i := range perm {
				res[i] = vh.ApplyStoreOp(st, ops[i])
			}
		} else {
			var fns []func()
			for i := range ops {
				i := i
				fns = append(fns, func() { res[i] = vh.ApplyStoreOp(st, ops[i]) })
			}
			vh.Par(ops, fns...)
		}
		return fmt.Sprint(res) + "\n" + vh.BadgerDump(st)
	}
	return vh.Unit{Name: name, Run: func(u *vh.U) {
		vsched.SetVirtualClock(true)
		allowed := map[string]bool{}
		for _, perm := range permutations(len(ops)) {
			allowed[run(perm)] = true
		}
		var got string
		vh.RunDFS(u, vh.DFSSpec{
			Name: name, Bound: bound,
			Run:  vsched.Options{YieldFiles: []string{"badger.go", "helpers.go"}, Delay: len(ops) > 2},
			Body: func() { got = run(nil) },
			Obs:  func(s *vsched.Sched) string { return vh.Hash(got) },
			Check: func(s *vsched.Sched) (string, string) {
				if allowed[got] {
					return "", ""
				}
				var al []string
				for k := range allowed {
					al = append(al, k)
				}
				sort.Strings(al)
				return "writers/" + scen, fmt.Sprintf("concurrently %v -> results and database\n%s\nwhich no order of the same calls leaves behind; serial outcomes:\n%s", ops, got, strings.Join(al, "\n--\n"))
			},
		})
	}}
}

// an operation that keeps losing its commit race: after any number of conflicts in a row it either
// reports an error and has changed nothing, or reports success and the change is there (and is
// still there after close and reopen) - acknowledged means applied
func c13LostCommitRaces() vh.Unit {
	return vh.Unit{Name: "lost-commit-races", Run: func(u *vh.U) {
		vsched.SetVirtualClock(true)
		ops := []string{"set b cl", "upd a b 7", "addnb a 5", "link W1 a", "addab W1 -7", "nonce a n"}
		for _, op := range ops {
			for _, k := range []int{0, 1, 2, 5, 31, 32, 33, 64, 200} {
				if u.Expired() {
					return
				}
				dir := vh.Scratch("c13r-")
				func() {
					defer os.RemoveAll(dir)
					vsched.ResetClock(0)
					st, err := vh.OpenBadgerDir(dir)
					if err != nil {
						u.R.Infra = err.Error()
						return
					}
					for _, pre := range []string{"set a hg", "set b cl", "addnb a 40", "addab W1 2"} {
						vh.ApplyStoreOp(st, pre)
					}
					before := vh.BadgerDump(st)
					// what the operation does when nothing interferes
					refDir := vh.Scratch("c13q-")
					defer os.RemoveAll(refDir)
					ref, _ := vh.OpenBadgerDir(refDir)
					for _, pre := range []string{"set a hg", "set b cl", "addnb a 40", "addab W1 2"} {
						vh.ApplyStoreOp(ref, pre)
					}
					wantRes := vh.ApplyStoreOp(ref, op)
					want := vh.BadgerDump(ref)
					ref.Close()
					vh.InjectBadgerConflicts(k)
					res := vh.ApplyStoreOp(st, op)
					vh.InjectBadgerConflicts(0)
					after := vh.BadgerDump(st)
					st.Close()
					st2, err := vh.OpenBadgerDir(dir)
					if err != nil {
						u.Violate("conflicts/reopen-failed", fmt.Sprintf("%q after %d lost commit races: %v", op, k, err), nil)
						return
					}
					reopened := vh.BadgerDump(st2)
					st2.Close()
					u.R.Evaluations++
					u.R.States++
					u.R.Transitions++
					u.R.Traces++
					u.Observe(fmt.Sprintf("%s k=%d -> %s applied=%v", strings.Fields(op)[0], k, res, after != before))
					desc := fmt.Sprintf("%q losing its first %d commit races", op, k)
					switch {
					case res == wantRes && after != want:
						u.Violate("conflicts/acknowledged-but-not-applied", fmt.Sprintf("%s: returned %q like an undisturbed run, but the database is not what an undisturbed run leaves (unchanged: %v)", desc, res, after == before), nil)
					case res != wantRes && after != before:
						u.Violate("conflicts/failed-but-applied", fmt.Sprintf("%s: returned %q, yet the database changed", desc, res), nil)
					case reopened != after:
						u.Violate("conflicts/lost-on-reopen", fmt.Sprintf("%s: the database differs after close and reopen", desc), nil)
					}
				}()
			}
		}
		u.Sample("six operations x {0,1,2,5,31,32,33,64,200} injected ErrConflict at commit")
	}}
}

// migration of older formats, and reopening a current database
func c13Migration() vh.Unit {
	return vh.Unit{Name: "migration", Run: func(u *vh.U) {
		vsched.SetVirtualClock(true)
		families := []string{"set a hg", "upd a a 3", "link W1 a", "addab W1 9", "set b cl;addnb b 4"}
		// bulk > 0: additionally that many nodes with 128-hex ids (as real enode ids are), each with a
		// peer set and a trial balance, and nonce keys of the same length - a database of realistic size
		type mcase struct{ mask, version, nNonces, bulk int }
		var cases []mcase
		for mask := 0; mask < 1<<len(families); mask++ {
			for _, version := range []int{0, 1, 2} {
				for nNonces := 0; nNonces <= 2; nNonces++ {
					if !u.Thorough() && (mask+version+nNonces)%3 != 0 && mask != (1<<len(families))-1 {
						continue
					}
					cases = append(cases, mcase{mask, version, nNonces, 0})
				}
			}
		}
		for _, bulk := range []int{40, 120, 300} {
			for _, version := range []int{0, 1, 2} {
				for _, nNonces := range []int{1, 3, 150} {
					if !u.Thorough() && bulk == 300 && nNonces != 3 {
						continue
					}
					cases = append(cases, mcase{(1 << len(families)) - 1, version, nNonces, bulk})
				}
			}
		}
		hexID := func(prefix string, i int) string { return fmt.Sprintf("%s%0126x", prefix, i) }
		{
			{
				for _, c := range cases {
					mask, version, nNonces, bulk := c.mask, c.version, c.nNonces, c.bulk
					if u.Expired() {
						return
					}
					base := vh.Scratch("c13m-")
					func() {
						defer os.RemoveAll(base)
						vsched.ResetClock(0)
						st, err := vh.OpenBadgerDir(base)
						if err != nil {
							u.R.Infra = err.Error()
							return
						}
						var ops []string
						for i, f := range families {
							if mask&(1<<i) != 0 {
								ops = append(ops, strings.Split(f, ";")...)
							}
						}
						for _, op := range ops {
							vh.ApplyStoreOp(st, op)
						}
						for i := 0; i < bulk; i++ {
							id := store.NodeID(hexID("4e", i))
							st.SetNode(store.Node{ID: id, Kind: "geth", IsHost: i%2 == 0, LastSeen: vsched.Now()})
							st.UpdateNodePeers(id, []string{hexID("4e", (i+1)%bulk)}, uint64(i))
							st.AddNodeBalance(id, big.NewInt(int64(1000+i)))
						}
						st.Close()
						// rewrite the format version and plant old-style nonce keys with the raw API
						db, err := badgerdb.Open(badgerdb.DefaultOptions(base).WithLogger(nil))
						if err != nil {
							u.R.Infra = err.Error()
							return
						}
						before := map[string]string{}
						db.Update(func(txn *badgerdb.Txn) error {
							if version == 0 {
								txn.Delete([]byte("vip:version"))
							} else {
								var buf bytes.Buffer
								gob.NewEncoder(&buf).Encode(&version)
								txn.Set([]byte("vip:version"), buf.Bytes())
							}
							for i := 0; i < nNonces; i++ {
								var buf bytes.Buffer
								n := int64(1000 + i)
								gob.NewEncoder(&buf).Encode(&n)
								key := fmt.Sprintf("vip:nonce:id%d", i)
								if bulk > 0 {
									key = "vip:nonce:" + hexID("4e", i)
								}
								txn.Set([]byte(key), buf.Bytes())
							}
							txn.Set([]byte("other:foreign"), []byte("keep"))
							return nil
						})
						db.View(func(txn *badgerdb.Txn) error {
							it := txn.NewIterator(badgerdb.DefaultIteratorOptions)
							defer it.Close()
							for it.Rewind(); it.Valid(); it.Next() {
								v, _ := it.Item().ValueCopy(nil)
								before[string(it.Item().Key())] = string(v)
							}
							return nil
						})
						db.Close()
						// open through the driver (migrates), twice (the second open must change nothing)
						var dumps []map[string]string
						for round := 0; round < 2; round++ {
							st2, err := vh.OpenBadgerDir(base)
							if err != nil {
								u.Violate("migration/open-failed", fmt.Sprintf("version %d, families %05b, %d nonces, %d bulk nodes: %v", version, mask, nNonces, bulk, err), nil)
								return
							}
							after := map[string]string{}
							for _, line := range strings.Split(vh.BadgerDump(st2), "\n") {
								if i := strings.Index(line, "="); i > 0 {
									after[line[:i]] = line[i+1:]
								}
							}
							dumps = append(dumps, after)
							st2.Close()
						}
						u.R.Evaluations++
						u.R.States++
						u.R.Transitions += 2
						u.R.Traces++
						u.Observe(fmt.Sprintf("v%d n%d k%d bulk%d", version, nNonces, len(before), bulk))
						after := dumps[0]
						var v2 bytes.Buffer
						two := 2
						gob.NewEncoder(&v2).Encode(&two)
						if after["vip:version"] != fmt.Sprintf("%x", v2.Bytes()) {
							u.Violate("migration/version-not-current", fmt.Sprintf("opened a version-%d database: version key afterwards %q", version, after["vip:version"]), nil)
							return
						}
						for k, v := range before {
							if k == "vip:version" {
								continue
							}
							got, ok := after[k]
							isNonce := strings.HasPrefix(k, "vip:nonce:")
							switch {
							case isNonce && version < 2 && ok:
								u.Violate("migration/old-nonces-kept", fmt.Sprintf("version %d -> 2 (%d nonce keys, %d keys in all): key %s survived", version, nNonces, len(before), k), nil)
								return
							case isNonce && version < 2:
							case !ok || got != fmt.Sprintf("%x", v):
								u.Violate("migration/data-touched", fmt.Sprintf("opening a version-%d database (%d nonce keys, %d keys in all) changed key %s (present afterwards: %v)", version, nNonces, len(before), k, ok), nil)
								return
							}
						}
						for k := range after {
							if _, ok := before[k]; !ok && k != "vip:version" {
								u.Violate("migration/key-appeared", fmt.Sprintf("opening a version-%d database created key %s", version, k), nil)
								return
							}
						}
						if fmt.Sprint(sortedKV(dumps[0])) != fmt.Sprint(sortedKV(dumps[1])) {
							u.Violate("migration/reopen-changed-data", fmt.Sprintf("reopening the migrated (version %d) database changed it", version), nil)
						}
					}()
					if u.NViolations() > 0 {
						return
					}
				}
			}
		}
		u.Sample("databases of version 0/1/2 with every subset of {node, peers, link, balance, trial} and 0-2 old nonce keys, plus databases with 40/120/300 nodes (128-hex ids) and 1/3/150 old nonce keys, opened twice")
	}}
}

func sortedKV(m map[string]string) []string {
	var r []string
	for k, v := range m {
		r = append(r, k+"="+v)
	}
	sort.Strings(r)
	return r
}

func init() {
	vh.Register(&vh.Check{
		ID: "C13", Level: "fault_enumeration",
		Technique: "crash-image enumeration on the real on-disk driver: a child process opened like pool.go runs a history, reports file sizes after every acknowledged operation and is SIGKILLed without Close; every image 'killed after operation k' (value log cut at the recorded size) and 'killed while operation k was being written' (value log cut inside the appended bytes) is reopened through the real driver and compared with a reference model; plus schedule DFS of readers against multi-key writers and exhaustive migration of synthesised old-format databases",
		Rule:      "all histories of length 2 plus half of those of length 3 (quick) / all of length 2-4 (thorough) over {SetNode a, SetNode b, UpdateNodePeers, AddNodeBalance, AddAccountNode (3 keys), AddAccountBalance, nonce, close+reopen}; per history: one image per acknowledged prefix (must equal the model after exactly that prefix) and, for the last operation, cut points inside its appended bytes (every byte for one shard, else every 16th plus the first and last 8; must equal the model before or after it); distinct = (kind, history length, matched candidate, refused?); 63 histories in which time passes (peer sets ageing out, late nonces)",
		Assumptions: []string{
			"SIGKILL semantics: what write() returned is in the page cache and survives; power loss below the page cache is not modelled",
			"badger 2.0.3 appends a committed transaction to the value log with one write and touches MANIFEST/SST only on flush or Close; the truncation model is validated on every run by reopening the image cut at the final recorded size (it must equal the full acknowledged history)",
			"a torn tail that production Open refuses with ErrTruncateNeeded is reopened WithTruncate(true) and judged the same way; refusals are counted in observed.torn_tail_refused_by_production_open",
		},
		Units: func(tier string) []vh.Unit {
			var us []vh.Unit
			if tier == "thorough" {
				for s := 0; s < 16; s++ {
					us = append(us, c13Crash(2, s, 16, 1))
				}
				for s := 0; s < 32; s++ {
					us = append(us, c13Crash(3, s, 32, 16))
				}
				for s := 0; s < 48; s++ {
					us = append(us, c13Crash(4, s, 48, 0))
				}
			} else {
				for s := 0; s < 12; s++ {
					us = append(us, c13Crash(2, s, 12, 9))
				}
				for s := 0; s < 12; s++ {
					us = append(us, c13Crash(3, s, 24, 0))
				}
			}
			an := 4
			if tier == "thorough" {
				an = 8
			}
			for sh := 0; sh < an; sh++ {
				every := 0
				if tier == "thorough" {
					every = 1
				}
				us = append(us, c13CrashHists(fmt.Sprintf("crash-images/aged/%d", sh), c13AgedHistories, sh, an, every))
			}
			bound := 1
			if tier == "thorough" {
				bound = 3
			}
			us = append(us, c13Readers("link W1 a", bound), c13Readers("upd a b 9", bound), c13Migration(), c13ModelValidation(), c13LostCommitRaces(), c13Golden(), c13BinaryRestart(), c13BinaryRestartMode("default-dir"), c13BinaryRestartMode("unusable-home"))
			for _, scen := range []string{"credit-vs-link", "credit-vs-link-vs-acct", "two-links", "link-vs-reregister", "peers-vs-reregister"} {
				us = append(us, c13Writers(scen, bound))
			}
			return us
		},
	})
}
