//go:build go1.21

package checks

import (
	"fmt"
	"sort"
	"strings"
	"time"

	"github.com/vipnode/vipnode/v2/internal/verif/vh"
	"github.com/vipnode/vipnode/v2/internal/verif/vsched"
	"github.com/vipnode/vipnode/v2/pool/store"
)

// C11 — peers that stop checking in are declared invalid and dropped; live ones never.

var c11Ticks = []string{"tick 59s", "tick 60s", "tick 61s", "tick 119.999999999s", "tick 120.000000001s"}

type c11World struct {
	model *vh.StoreModel
	st    store.Store
	open  bool // a tracked timestamp sat exactly on the boundary: judgement left open, branch closed
}

// boundaryOpen: does any peer that the update will judge sit exactly on now-window?
func c11BoundaryOpen(m *vh.StoreModel, id store.NodeID, peers []string) bool {
	deadline := vsched.Now().Add(-m.Window)
	for _, ts := range m.Peers[id] {
		if ts.Equal(deadline) {
			return true
		}
	}
	for _, p := range peers {
		if n, ok := m.Nodes[store.NodeID(p)]; ok && n.LastSeen.Equal(deadline) {
			return true
		}
	}
	return false
}

// c11RefreshUnit: the same walk over a small alphabet (one reporter, one peer, two ticks that sum
// past the window only together) so that quick-tier depth reaches histories in which a tracked
// timestamp has to be *refreshed* by a later report: report, peer checks in again, report again,
// time passes, peer omitted (6 events and more).
func c11RefreshUnit(driver string, depth int) vh.Unit {
	return c11StoreUnitEvs(fmt.Sprintf("store-bfs-refresh/%s/d%d", driver, depth), driver,
		[]string{"upd N P1", "upd N -", "upd P1 -", "upd N P1,P2", "tick 59s", "tick 61s"}, depth, 0, 1)
}

func c11StoreUnit(driver string, depth, shard, nshards int) vh.Unit {
	evs := []string{
		"upd N -", "upd N P1", "upd N P2", "upd N P1,P2", "upd N P1,X", "upd N X", "upd N P1,P1", "upd N P2,X,P1",
		"upd P1 -", "upd P2 -", "set P1 hg", "upd P1 N",
		"upd N N", "upd N N,P1", // a node that lists itself
	}
	evs = append(evs, c11Ticks...)
	return c11StoreUnitEvs(fmt.Sprintf("store-bfs/%s/d%d/%d", driver, depth, shard), driver, evs, depth, shard, nshards)
}

func c11StoreUnitEvs(name, driver string, evs []string, depth, shard, nshards int) vh.Unit {
	return vh.Unit{Name: name, Run: func(u *vh.U) {
		spec := vh.BFSSpec{
			Name: name, MaxDepth: depth, Shard: shard, NShards: nshards,
			New: func() interface{} {
				vsched.ResetClock(0)
				w := &c11World{model: vh.NewStoreModel(), st: vh.NewStore(driver)}
				for _, op := range []string{"set N cl", "set P1 hg", "set P2 hp"} {
					vh.ApplyStoreOpModel(w.model, op)
					vh.ApplyStoreOp(w.st, op)
				}
				return w
			},
			Events: func(wi interface{}) []string {
				if wi.(*c11World).open {
					return nil
				}
				return evs
			},
			Apply: func(wi interface{}, ev string, judge bool, hist []string) {
				w := wi.(*c11World)
				if d := vh.TickOf(ev); d > 0 {
					vsched.Advance(d)
					return
				}
				f := strings.Fields(ev)
				var reported []string
				if f[0] == "upd" && f[2] != "-" {
					reported = strings.Split(f[2], ",")
				}
				if f[0] == "upd" && c11BoundaryOpen(w.model, store.NodeID(f[1]), reported) {
					w.open = true
					if judge {
						u.Count("boundary_exact_not_judged", 1)
					}
					return
				}
				// direct oracle (independent of the model): a reported registered peer whose own
				// check-in is inside the window must not be declared.
				var mustKeep []string
				if f[0] == "upd" {
					for _, p := range reported {
						if n, ok := w.model.Nodes[store.NodeID(p)]; ok && p != f[1] && n.LastSeen.After(vsched.Now().Add(-w.model.Window)) {
							mustKeep = append(mustKeep, p)
						}
					}
				}
				want := vh.ApplyStoreOpModel(w.model, ev)
				got := vh.ApplyStoreOp(w.st, ev)
				if !judge {
					return
				}
				u.Observe(ev + "=>" + want)
				if got != want {
					cls := "declared-set"
					if strings.HasPrefix(got, "err") || strings.HasPrefix(want, "err") || strings.HasPrefix(got, "panic") {
						cls = "error"
					}
					u.Violate("store/"+driver+"/"+f[0]+"/"+cls, fmt.Sprintf("history %v: driver returned %q, peer-tracking model %q", hist, got, want), vh.BFSReplay(name, hist))
				}
				if strings.HasPrefix(got, "inactive=") {
					dec := strings.Split(strings.TrimPrefix(got, "inactive="), ",")
					for _, d := range dec {
						if d == "X" {
							u.Violate("store/"+driver+"/unknown-id-declared", fmt.Sprintf("history %v: unknown id X declared invalid", hist), vh.BFSReplay(name, hist))
						}
						for _, k := range mustKeep {
							if d == k {
								u.Violate("store/"+driver+"/live-peer-declared", fmt.Sprintf("history %v: peer %s checked in inside the window and was reported, yet declared invalid", hist, k), vh.BFSReplay(name, hist))
							}
						}
					}
				}
				for _, id := range []store.NodeID{"N", "P1", "P2"} {
					gp, gerr := w.st.NodePeers(id)
					mp, _ := w.model.NodePeers(id)
					var gs []string
					for _, p := range gp {
						gs = append(gs, string(p.ID))
					}
					sort.Strings(gs)
					if gerr != nil || strings.Join(gs, ",") != strings.Join(mp, ",") {
						u.Violate("store/"+driver+"/active-set", fmt.Sprintf("history %v: NodePeers(%s)=%v err=%v, model %v", hist, id, gs, gerr, mp), vh.BFSReplay(name, hist))
					}
				}
				u.R.Traces++
			},
			Key: func(wi interface{}) string {
				w := wi.(*c11World)
				return fmt.Sprintf("%v|%s|%s", w.open, w.model.Key(), vh.StateKey(w.st))
			},
		}
		vh.RunBFS(u, spec)
	}}
}

// pool level: the reply of a real signed vipnode_update carries exactly the model's sets, and
// billing touches exactly the active set.
func c11PoolUnit(driver string, depth, shard, nshards int) vh.Unit {
	name := fmt.Sprintf("pool-bfs/%s/d%d/%d", driver, depth, shard)
	ids := vh.Identities()
	N, P1, P2, X := ids[0], ids[1], ids[2], ids[3]
	byName := map[string]*vh.Ident{"N": N, "P1": P1, "P2": P2, "X": X}
	evs := []string{"upd N -", "upd N P1", "upd N P1,P2", "upd N P2,X", "upd P1 -", "upd P2 -", "conn P1", "conn N",
		// a keep-alive that fails half-way (the ledger cannot be written): whatever it already told
		// the store stays told, and later keep-alives are answered from the store as it is then
		"failing-upd N P1", "failing-upd N -"}
	evs = append(evs, "tick 59s", "tick 61s", "tick 119.999999999s", "tick 120.000000001s")
	type world struct {
		pw    *vh.PoolWorld
		model *vh.StoreModel
		open  bool
	}
	return vh.Unit{Name: name, Run: func(u *vh.U) {
		spec := vh.BFSSpec{
			Name: name, MaxDepth: depth, Shard: shard, NShards: nshards,
			New: func() interface{} {
				vsched.ResetClock(0)
				w := &world{pw: vh.NewPoolWorld(vh.PoolConfig{Driver: driver}), model: vh.NewStoreModel()}
				for _, c := range []struct {
					id   *vh.Ident
					host bool
					kind string
				}{{N, false, "geth"}, {P1, true, "geth"}, {P2, true, "parity"}} {
					if _, err := w.pw.Connect(c.id, vh.ConnectOpts{Host: c.host, Kind: c.kind}); err != nil {
						panic(err)
					}
					n, _ := w.pw.Store.GetNode(store.NodeID(c.id.NodeID))
					w.model.SetNode(*n)
				}
				return w
			},
			Events: func(wi interface{}) []string {
				if wi.(*world).open {
					return nil
				}
				return evs
			},
			Apply: func(wi interface{}, ev string, judge bool, hist []string) {
				w := wi.(*world)
				if d := vh.TickOf(ev); d > 0 {
					vsched.Advance(d)
					return
				}
				f := strings.Fields(ev)
				id := byName[f[1]]
				if f[0] == "conn" {
					host := f[1] != "N"
					if _, err := w.pw.Connect(id, vh.ConnectOpts{Host: host}); err != nil {
						if judge {
							u.Violate("pool/"+driver+"/reconnect-failed", fmt.Sprintf("history %v: %v", hist, err), vh.BFSReplay(name, hist))
						}
						return
					}
					n, _ := w.pw.Store.GetNode(store.NodeID(id.NodeID))
					w.model.SetNode(*n)
					return
				}
				var reported []string
				if f[2] != "-" {
					for _, p := range strings.Split(f[2], ",") {
						reported = append(reported, byName[p].NodeID)
					}
				}
				if c11BoundaryOpen(w.model, store.NodeID(id.NodeID), reported) {
					w.open = true
					return
				}
				// balances before
				before := map[string]string{}
				for _, x := range []*vh.Ident{N, P1, P2} {
					b, _ := w.pw.Store.GetNodeBalance(store.NodeID(x.NodeID))
					before[x.NodeID] = b.Credit.String()
				}
				elapsed := vsched.Now().Sub(w.model.Nodes[store.NodeID(id.NodeID)].LastSeen)
				wantInactive, _ := w.model.UpdateNodePeers(store.NodeID(id.NodeID), reported, 0)
				wantActive, _ := w.model.NodePeers(store.NodeID(id.NodeID))
				if f[0] == "failing-upd" {
					w.pw.BStore.FailBalanceOps = 1
				}
				resp, err := w.pw.Update(id, reported, 0)
				failed := f[0] == "failing-upd" && w.pw.BStore.FailBalanceOps == 0
				w.pw.BStore.FailBalanceOps = 0
				if !judge {
					return
				}
				u.R.Traces++
				if failed {
					u.Observe("failing update failed")
					if err == nil {
						u.Violate("pool/"+driver+"/failed-update-reported-success", fmt.Sprintf("history %v: the ledger write failed, the update returned no error", hist), vh.BFSReplay(name, hist))
					}
					return
				}
				if err != nil || resp == nil {
					u.Violate("pool/"+driver+"/update-error", fmt.Sprintf("history %v: update failed: %v", hist, err), vh.BFSReplay(name, hist))
					return
				}
				gotInv := vh.SortedStrings(resp.InvalidPeers)
				var gotAct []string
				for _, uri := range resp.ActivePeers {
					for _, x := range ids[:4] {
						if strings.Contains(uri, x.NodeID) {
							gotAct = append(gotAct, x.NodeID)
						}
					}
				}
				sort.Strings(gotAct)
				u.Observe(fmt.Sprintf("%s inv=%d act=%d", f[1], len(gotInv), len(gotAct)))
				if strings.Join(gotInv, ",") != strings.Join(wantInactive, ",") {
					u.Violate("pool/"+driver+"/invalid-peers", fmt.Sprintf("history %v: InvalidPeers=%v, model %v", hist, shortAll(gotInv), shortAll(wantInactive)), vh.BFSReplay(name, hist))
				}
				if strings.Join(gotAct, ",") != strings.Join(wantActive, ",") || len(gotAct) != len(resp.ActivePeers) {
					u.Violate("pool/"+driver+"/active-peers", fmt.Sprintf("history %v: ActivePeers=%v (%d uris), model %v", hist, shortAll(gotAct), len(resp.ActivePeers), shortAll(wantActive)), vh.BFSReplay(name, hist))
				}
				// billing touches exactly the active set (clients only, non-zero elapsed)
				if f[1] == "N" && elapsed >= time.Minute/1000+1 {
					var billed []string
					for _, x := range []*vh.Ident{P1, P2} {
						b, _ := w.pw.Store.GetNodeBalance(store.NodeID(x.NodeID))
						if b.Credit.String() != before[x.NodeID] {
							billed = append(billed, x.NodeID)
						}
					}
					sort.Strings(billed)
					if strings.Join(billed, ",") != strings.Join(wantActive, ",") {
						u.Violate("pool/"+driver+"/billed-set", fmt.Sprintf("history %v: peers credited %v, active set %v", hist, shortAll(billed), shortAll(wantActive)), vh.BFSReplay(name, hist))
					}
				}
			},
			Key: func(wi interface{}) string {
				w := wi.(*world)
				// (the model, plus whatever plain-data state the pool object keeps for itself)
				return fmt.Sprintf("%v|%s|%s", w.open, w.model.Key(), w.pw.RegistryKey())
			},
		}
		vh.RunBFS(u, spec)
	}}
}

// a keep-alive that reports a peer while that peer's own check-in (or re-registration) is being
// written: the verdict on the peer - declared invalid, or kept and billable - must be the one of
// some order of the two, never a mixture (declared invalid yet kept; kept yet never seen)
func c11Race(driver, scen string, bound int) vh.Unit {
	name := fmt.Sprintf("checkin-race/%s/%s", driver, scen)
	ops := map[string][]string{
		"report-vs-peer-checkin":   {"upd N P1", "upd P1 -"},
		"report-vs-peer-reconnect": {"upd N P1", "set P1 hg"},
		"report-two-vs-checkins":   {"upd N P1,P2", "upd P1 -", "upd P2 -"},
		"mutual-reports":           {"upd N P1", "upd P1 N"},
	}[scen]
	run := func(perm []int) string {
		vsched.ResetClock(0)
		st := vh.NewStore(driver)
		for _, op := range []string{"set N cl", "set P1 hg", "set P2 hp", "upd N P1,P2", "upd P1 N"} {
			vh.ApplyStoreOp(st, op)
		}
		vsched.Advance(121 * time.Second) // every check-in above is now outside the window
		res := make([]string, len(ops))
		if perm != nil {
			for _, i := range perm {
				res[i] = vh.ApplyStoreOp(st, ops[i])
			}
		} else {
			var fns []func()
			for i := range ops {
				i := i
				fns = append(fns, func() { res[i] = vh.ApplyStoreOp(st, ops[i]) })
			}
			vh.Par(ops, fns...)
		}
		var b strings.Builder
		fmt.Fprintf(&b, "%v", res)
		for _, id := range []store.NodeID{"N", "P1", "P2"} {
			ps, err := st.NodePeers(id)
			var l []string
			for _, p := range ps {
				l = append(l, string(p.ID))
			}
			sort.Strings(l)
			fmt.Fprintf(&b, " %s:%v/%v", id, l, err)
		}
		return b.String()
	}
	return vh.Unit{Name: name, Run: func(u *vh.U) {
		allowed := map[string]bool{}
		for _, perm := range permutations(len(ops)) {
			allowed[run(perm)] = true
		}
		var got string
		vh.RunDFS(u, vh.DFSSpec{
			Name: name, Bound: bound,
			Run:  vsched.Options{YieldFiles: []string{"memory.go", "badger.go", "helpers.go"}, Delay: len(ops) > 2},
			Body: func() { got = run(nil) },
			Obs:  func(s *vsched.Sched) string { return got },
			Check: func(s *vsched.Sched) (string, string) {
				if allowed[got] {
					return "", ""
				}
				var al []string
				for k := range allowed {
					al = append(al, k)
				}
				sort.Strings(al)
				return "checkin-race/" + driver + "/" + scen, fmt.Sprintf("after 121 s of silence, concurrently %v -> results and tracked peer sets %s\n  which no order of the same calls produces:\n  %s", ops, got, strings.Join(al, "\n  "))
			},
		})
	}}
}

// a busy node: it reports hundreds of peers, all of which keep checking in; however many there are
// and in whatever order it lists them, none of them is ever declared invalid or dropped
func c11WideReports(driver string, nPeers int) vh.Unit {
	name := fmt.Sprintf("wide-reports/%s/x%d", driver, nPeers)
	return vh.Unit{Name: name, Run: func(u *vh.U) {
		vsched.ResetClock(0)
		pw := vh.NewPoolWorld(vh.PoolConfig{Driver: driver, NoManager: true})
		N := vh.Identities()[0]
		pw.Store.SetNode(store.Node{ID: store.NodeID(N.NodeID), Kind: "geth", LastSeen: vsched.Now()})
		peers := make([]string, nPeers)
		for i := range peers {
			peers[i] = fmt.Sprintf("%0128x", 0xabc000+i)
			pw.Store.SetNode(store.Node{ID: store.NodeID(peers[i]), Kind: "geth", IsHost: true, LastSeen: vsched.Now()})
		}
		for round := 0; round < 5; round++ {
			if u.Expired() {
				return
			}
			// the report lists the peers in a different order every time
			report := make([]string, nPeers)
			for i := range report {
				report[i] = peers[(i*7+round*131)%nPeers]
			}
			if round == 4 {
				for i, j := 0, len(report)-1; i < j; i, j = i+1, j-1 {
					report[i], report[j] = report[j], report[i]
				}
			}
			resp, err := pw.Update(N, report, uint64(round))
			u.R.Evaluations++
			u.R.States++
			u.R.Transitions++
			u.R.Traces++
			desc := fmt.Sprintf("round %d at %s: a node reporting %d peers that all check in every 50 s", round, vsched.Elapsed(), nPeers)
			if err != nil || resp == nil {
				u.Violate("pool/"+driver+"/update-error", fmt.Sprintf("%s: %v", desc, err), nil)
				return
			}
			u.Observe(fmt.Sprintf("round %d invalid=%d active=%d", round, len(resp.InvalidPeers), len(resp.ActivePeers)))
			if len(resp.InvalidPeers) != 0 {
				u.Violate("pool/"+driver+"/invalid-peers", fmt.Sprintf("%s: %d live, reported peers were declared invalid (first: %s...)", desc, len(resp.InvalidPeers), resp.InvalidPeers[0][:12]), nil)
				return
			}
			tracked, _ := pw.Store.NodePeers(store.NodeID(N.NodeID))
			if len(tracked) != nPeers {
				u.Violate("pool/"+driver+"/active-peers", fmt.Sprintf("%s: %d peers are tracked as active", desc, len(tracked)), nil)
				return
			}
			vsched.Advance(50 * time.Second)
			for _, p := range peers {
				pw.Store.UpdateNodePeers(store.NodeID(p), nil, uint64(round))
			}
		}
		u.Sample(fmt.Sprintf("%d peers, 5 keep-alive rounds 50 s apart, report order permuted every round", nPeers))
	}}
}

func shortAll(ids []string) []string {
	r := make([]string, len(ids))
	for i, x := range ids {
		r[i] = vh.Short(x)
	}
	return r
}

func init() {
	vh.Register(&vh.Check{
		ID: "C11", Level: "model_checking",
		Technique: "explicit-state BFS of keep-alive histories on both real drivers and through the real signed vipnode_update, against a peer-tracking reference model",
		Rule:      "every sequence of node/peer keep-alives (all subsets of {P1,P2,unknown X}, duplicates, self), peer check-ins, reconnects and clock gaps {59s,60s,61s,120s∓1ns} up to the depth bound; declared-invalid set, active set and billed set compared with the model after every step; distinct = distinct (event, declared set) pairs",
		Assumptions: []string{
			"a timestamp exactly on the expiry boundary is not judged: such branches are closed and counted in observed.boundary_exact_not_judged",
		},
		Units: func(tier string) []vh.Unit {
			var us []vh.Unit
			if tier == "thorough" {
				for s := 0; s < 48; s++ {
					us = append(us, c11StoreUnit(vh.Memory, 7, s, 48))
					us = append(us, c11StoreUnit(vh.Badger, 6, s, 48))
				}
				for s := 0; s < 24; s++ {
					us = append(us, c11PoolUnit(vh.Memory, 6, s, 24))
					us = append(us, c11PoolUnit(vh.Badger, 5, s, 24))
				}
			} else {
				for s := 0; s < 9; s++ {
					us = append(us, c11StoreUnit(vh.Memory, 5, s, 9))
				}
				for s := 0; s < 6; s++ {
					us = append(us, c11StoreUnit(vh.Badger, 4, s, 6))
				}
				for s := 0; s < 8; s++ {
					us = append(us, c11PoolUnit(vh.Memory, 5, s, 8))
				}
				for s := 0; s < 4; s++ {
					us = append(us, c11PoolUnit(vh.Badger, 3, s, 4))
				}
			}
			for _, d := range vh.Drivers {
				if tier == "thorough" {
					us = append(us, c11RefreshUnit(d, 9))
				} else {
					us = append(us, c11RefreshUnit(d, 7))
				}
			}
			for _, d := range vh.Drivers {
				for _, n := range []int{40, 300, 1100} {
					if n > 300 && tier != "thorough" {
						continue
					}
					us = append(us, c11WideReports(d, n))
				}
			}
			for _, d := range vh.Drivers {
				bound := 2
				if d == vh.Badger {
					bound = 1
				}
				if tier == "thorough" {
					bound += 2
				}
				for _, scen := range []string{"report-vs-peer-checkin", "report-vs-peer-reconnect", "report-two-vs-checkins", "mutual-reports"} {
					us = append(us, c11Race(d, scen, bound))
				}
			}
			return us
		},
	})
}
