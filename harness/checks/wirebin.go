//go:build go1.21

package checks

import (
	"encoding/json"
	"fmt"
	"math/big"
	"os"
	"strings"
	"time"

	"github.com/vipnode/vipnode/v2/internal/verif/vh"
	"github.com/vipnode/vipnode/v2/pool"
)

// binSession is a session of real signed requests with the real pool binary, started with the
// flags under test: the way the binary wires its flags to the components (price, minimum balance,
// host limit, store) is part of what the properties quantify over ("all configurations").
type binSession struct {
	p     *vh.PoolProc
	cws   *vh.WS
	hosts map[string]*vh.HostConn
	n     int
}

func newBinSession(args ...string) (*binSession, error) {
	p, err := vh.StartPoolArgs(args...)
	if err != nil {
		return nil, err
	}
	cws, err := p.DialWS()
	if err != nil {
		p.Stop()
		return nil, err
	}
	return &binSession{p: p, cws: cws, hosts: map[string]*vh.HostConn{}}, nil
}

func (s *binSession) close() {
	s.cws.Close()
	for _, h := range s.hosts {
		h.WS.Close()
	}
	s.p.Stop()
}

// hostCall sends a request on the host's own connection (opened on first use), clientCall on the
// shared client connection, post over HTTP; each returns the decoded reply and when the request
// left and the reply arrived.
func (s *binSession) hostCall(id *vh.Ident, c vh.Call) (*vh.RPCReply, time.Time, time.Time, error) {
	h := s.hosts[id.NodeID]
	if h == nil {
		ws, err := s.p.DialWS()
		if err != nil {
			return nil, time.Time{}, time.Time{}, err
		}
		h = vh.NewHostConn(ws)
		s.hosts[id.NodeID] = h
	}
	s.n++
	t0 := time.Now()
	body, err := h.Call(vh.RequestText(c, s.n), 2*time.Minute)
	t1 := time.Now()
	if err != nil {
		return nil, t0, t1, err
	}
	r, err := vh.DecodeReply(body)
	return r, t0, t1, err
}

func (s *binSession) clientCall(c vh.Call) (*vh.RPCReply, time.Time, time.Time, error) {
	s.n++
	t0 := time.Now()
	body, err := s.cws.Call(vh.RequestText(c, s.n), 2*time.Minute)
	t1 := time.Now()
	if err != nil {
		return nil, t0, t1, err
	}
	r, err := vh.DecodeReply(body)
	return r, t0, t1, err
}

func (s *binSession) post(c vh.Call) (*vh.RPCReply, error) {
	s.n++
	_, body, err := s.p.Post(vh.RequestText(c, s.n))
	if err != nil {
		return nil, err
	}
	return vh.DecodeReply(body)
}

// credit returns the credit of a wallet as pool_account reports it.
func (s *binSession) credit(w *vh.Ident) (*big.Int, error) {
	_, body, err := s.p.Post(fmt.Sprintf(`{"jsonrpc":"2.0","id":1,"method":"pool_account","params":[%q]}`, w.Wallet))
	if err != nil {
		return nil, err
	}
	var r struct {
		Result struct {
			Balance struct {
				Credit json.Number `json:"credit"`
			} `json:"balance"`
		} `json:"result"`
		Error json.RawMessage `json:"error"`
	}
	d := json.NewDecoder(strings.NewReader(body))
	d.UseNumber()
	if err := d.Decode(&r); err != nil || len(r.Error) > 0 && string(r.Error) != "null" {
		return nil, fmt.Errorf("pool_account: %v %s", err, firstN(body, 200))
	}
	v, ok := new(big.Int).SetString(r.Result.Balance.Credit.String(), 10)
	if !ok {
		return nil, fmt.Errorf("pool_account: credit %q", r.Result.Balance.Credit)
	}
	return v, nil
}

func wireStep(u *vh.U) {
	u.R.Evaluations++
	u.R.States++
	u.R.Transitions++
	u.R.Traces++
}

// C02 at the binary: `--contract.price` reaches the balance manager. One client reports one host in
// two keep-alives a little over a second apart; the host's earnings (made visible by linking a
// wallet afterwards) lie between price x (the shortest span the pool can have measured) and
// price x (the longest), both taken from the harness' own clock around its requests - a bracket
// that no machine load can falsify.
func c02BinaryPrice() vh.Unit {
	return vh.Unit{Name: "wire/binary-price-flag", Run: func(u *vh.U) {
		ids := vh.Identities()
		client, host, w1, w2 := ids[0], ids[1], ids[3], ids[4]
		cases := []struct {
			flag string
			wei  int64 // per minute
		}{{"", 100e9}, {"3 gwei", 3e9}, {"7000", 7000}, {"0.5 gwei", 5e8}, {"2 szabo", 2e12}, {"4 microether", 4e12}, {"3 milliether", 3e15}, {"5 finney", 5e15}, {"6 mwei", 6e6}, {"0.001 ether", 1e15}}
		for _, tc := range cases {
			args := []string{"--store=memory"}
			if tc.flag != "" {
				args = append(args, "--contract.price="+tc.flag)
			}
			func() {
				s, err := newBinSession(args...)
				if err != nil {
					u.R.Infra = err.Error()
					return
				}
				defer s.close()
				fail := func(what string, r *vh.RPCReply, err error) bool {
					if err != nil || r.Code() != 0 {
						u.Violate("wire/session-step-failed", fmt.Sprintf("price %q: %s: %v %+v", tc.flag, what, err, r), nil)
						return true
					}
					return false
				}
				r, _, _, err := s.hostCall(host, vh.NewCall("vipnode_connect", host, vh.WireNonce(), pool2ConnectHost()))
				if fail("host registers", r, err) {
					return
				}
				r, tConn, _, err := s.clientCall(vh.NewCall("vipnode_connect", client, vh.WireNonce(), vh.DefaultParam("vipnode_connect", "")))
				if fail("client registers", r, err) {
					return
				}
				upd := func() vh.Call {
					return vh.NewCall("vipnode_update", client, vh.WireNonce(), vh.DefaultParam("vipnode_update", host.NodeID))
				}
				r, _, t1r, err := s.clientCall(upd())
				if fail("first keep-alive", r, err) {
					return
				}
				time.Sleep(1200 * time.Millisecond)
				r, t2s, t2r, err := s.clientCall(upd())
				if fail("second keep-alive", r, err) {
					return
				}
				if r, err := s.post(vh.NewCall("pool_addNode", w1, vh.WireNonce(), client.NodeID)); fail("wallet 1 links the client", r, err) {
					return
				}
				if r, err := s.post(vh.NewCall("pool_addNode", w2, vh.WireNonce(), host.NodeID)); fail("wallet 2 links the host", r, err) {
					return
				}
				spent, err1 := s.credit(w1)
				earned, err2 := s.credit(w2)
				if err1 != nil || err2 != nil {
					u.Violate("wire/read-failed", fmt.Sprint(err1, err2), nil)
					return
				}
				wireStep(u)
				amount := func(d time.Duration) *big.Int {
					v := new(big.Int).Mul(big.NewInt(int64(d)), big.NewInt(tc.wei))
					return v.Div(v, big.NewInt(int64(time.Minute)))
				}
				lo := new(big.Int).Sub(amount(t2s.Sub(t1r)), big.NewInt(2))
				hi := new(big.Int).Add(amount(t2r.Sub(tConn)), big.NewInt(2))
				u.Observe(fmt.Sprintf("price %q in-bracket=%v", tc.flag, earned.Cmp(lo) >= 0 && earned.Cmp(hi) <= 0))
				desc := fmt.Sprintf("vipnode pool --contract.price=%q (= %d wei per minute): two keep-alives of one client reporting one host; the pool can have measured between %s and %s", tc.flag, tc.wei, t2s.Sub(t1r), t2r.Sub(tConn))
				if earned.Cmp(lo) < 0 || earned.Cmp(hi) > 0 {
					u.Violate("wire/price-flag-not-applied", fmt.Sprintf("%s, i.e. a charge in [%s, %s]; the host earned %s", desc, lo, hi, earned), nil)
					return
				}
				if new(big.Int).Add(spent, earned).Sign() != 0 {
					u.Violate("wire/ledger-not-zero-sum", fmt.Sprintf("%s: the client's wallet was charged %s, the host's wallet earned %s", desc, spent, earned), nil)
				}
			}()
			if u.R.Infra != "" || u.NViolations() > 0 {
				return
			}
		}
		u.Sample("real binary with 5 spellings of --contract.price: earnings bracketed by the harness' own clock, zero-sum")
	}}
}

// C03 at the binary: `--contract.min-balance` reaches the balance manager.
func c03BinaryMinBalance() vh.Unit {
	return vh.Unit{Name: "wire/binary-min-balance-flag", Run: func(u *vh.U) {
		ids := vh.Identities()
		client, host := ids[0], ids[1]
		cases := []struct {
			flag        string
			clientAdmit bool
		}{{"", true}, {"off", true}, {"0", true}, {"1", false}, {"1 gwei", false}, {"0.005 ether", false}}
		for _, tc := range cases {
			args := []string{"--store=memory"}
			if tc.flag != "" {
				args = append(args, "--contract.min-balance="+tc.flag)
			}
			func() {
				s, err := newBinSession(args...)
				if err != nil {
					u.R.Infra = err.Error()
					return
				}
				defer s.close()
				desc := fmt.Sprintf("vipnode pool --contract.min-balance=%q", tc.flag)
				r, _, _, err := s.hostCall(host, vh.NewCall("vipnode_connect", host, vh.WireNonce(), pool2ConnectHost()))
				wireStep(u)
				if err != nil || r.Code() != 0 {
					u.Violate("wire/host-refused-for-balance", fmt.Sprintf("%s: a host (hosts need no balance) was refused: %v %+v", desc, err, r), nil)
					return
				}
				for _, endpoint := range []string{"vipnode_connect", "vipnode_client"} {
					r, _, _, err = s.clientCall(vh.NewCall(endpoint, client, vh.WireNonce(), vh.DefaultParam(endpoint, "")))
					wireStep(u)
					if err != nil {
						u.Violate("wire/read-failed", err.Error(), nil)
						return
					}
					admitted := r.Code() == 0
					u.Observe(fmt.Sprintf("min %q %s admitted=%v", tc.flag, endpoint, admitted))
					if admitted != tc.clientAdmit {
						cls := "client-below-minimum-admitted"
						if tc.clientAdmit {
							cls = "client-refused-without-minimum"
						}
						u.Violate("wire/"+cls, fmt.Sprintf("%s: a client with no balance at all sent %s: admitted=%v (%+v)", desc, endpoint, admitted, r.Error), nil)
						return
					}
				}
			}()
			if u.R.Infra != "" || u.NViolations() > 0 {
				return
			}
		}
		u.Sample("real binary with 6 spellings of --contract.min-balance: a client with no balance is admitted iff the minimum is off or zero; hosts always")
	}}
}

// C08 at the binary: `--max-request-hosts` reaches the pool.
func c08BinaryMaxHosts() vh.Unit {
	return vh.Unit{Name: "wire/binary-max-request-hosts-flag", Run: func(u *vh.U) {
		ids := vh.Identities()
		client := ids[0]
		hosts := []*vh.Ident{ids[1], ids[2], ids[5]}
		for _, max := range []int{-1, 0, 1, 2, 5} { // -1: flag absent
			args := []string{"--store=memory"}
			if max >= 0 {
				args = append(args, fmt.Sprintf("--max-request-hosts=%d", max))
			}
			func() {
				s, err := newBinSession(args...)
				if err != nil {
					u.R.Infra = err.Error()
					return
				}
				defer s.close()
				for _, h := range hosts {
					if r, _, _, err := s.hostCall(h, vh.NewCall("vipnode_connect", h, vh.WireNonce(), pool2ConnectHost())); err != nil || r.Code() != 0 {
						u.Violate("wire/session-step-failed", fmt.Sprintf("host registers: %v %+v", err, r), nil)
						return
					}
				}
				if r, _, _, err := s.clientCall(vh.NewCall("vipnode_connect", client, vh.WireNonce(), vh.DefaultParam("vipnode_connect", ""))); err != nil || r.Code() != 0 {
					u.Violate("wire/session-step-failed", fmt.Sprintf("client registers: %v %+v", err, r), nil)
					return
				}
				for _, k := range []int{1, 2, 3, 10} {
					r, _, _, err := s.clientCall(vh.NewCall("vipnode_peer", client, vh.WireNonce(), pool.PeerRequest{Num: k}))
					wireStep(u)
					if err != nil {
						u.Violate("wire/read-failed", err.Error(), nil)
						return
					}
					var resp struct {
						Peers []struct {
							ID string `json:"id"`
						} `json:"peers"`
					}
					json.Unmarshal(r.Result, &resp)
					want := k
					if max > 0 && want > max {
						want = max
					}
					if want > len(hosts) {
						want = len(hosts)
					}
					u.Observe(fmt.Sprintf("max %d k %d -> %d", max, k, len(resp.Peers)))
					if r.Code() != 0 || len(resp.Peers) != want {
						cls := "limit-exceeded"
						if len(resp.Peers) < want {
							cls = "fewer-hosts-than-available"
						}
						u.Violate("wire/max-request-hosts/"+cls, fmt.Sprintf("vipnode pool with --max-request-hosts %d (−1 = flag absent), 3 connected hosts that acknowledge: a client asking for %d was handed %d hosts, expected %d (%+v)", max, k, len(resp.Peers), want, r.Error), nil)
						return
					}
				}
			}()
			if u.R.Infra != "" || u.NViolations() > 0 {
				return
			}
		}
		u.Sample("real binary with --max-request-hosts absent/0/1/2/5, 3 acknowledging hosts, requests for 1/2/3/10")
	}}
}

// C03 at the binary, magnitudes: every unit name `--contract.min-balance` accepts. The price is
// given in bare wei (no unit parsing involved) as one unit per second; after two keep-alives 1.5 s
// apart a client has spent between 1.5 and (measured upper bound) units: with a minimum of
// "-10 <unit>" it must still be served (judged only if the upper bound stayed below 10 s), with
// "-1 <unit>" it must have been cut off (the lower bound alone decides).
func c03BinaryMinBalanceUnits() vh.Unit {
	return vh.Unit{Name: "wire/binary-min-balance-units", Run: func(u *vh.U) {
		ids := vh.Identities()
		client, host := ids[0], ids[1]
		units := []struct {
			name string
			wei  *big.Int
		}{{"kwei", big.NewInt(1e3)}, {"babbage", big.NewInt(1e3)}, {"mwei", big.NewInt(1e6)}, {"lovelace", big.NewInt(1e6)}, {"gwei", big.NewInt(1e9)}, {"shannon", big.NewInt(1e9)},
			{"szabo", big.NewInt(1e12)}, {"microether", big.NewInt(1e12)}, {"finney", big.NewInt(1e15)}, {"milliether", big.NewInt(1e15)}, {"ether", big.NewInt(1e18)}, {"eth", big.NewInt(1e18)}}
		type outcome struct {
			desc, violation, detail, infra string
			observed                       string
		}
		type job struct {
			unit  int
			scale int // minimum = -scale units
		}
		var jobs []job
		for i := range units {
			jobs = append(jobs, job{i, 10}, job{i, 1})
		}
		results := make([]outcome, len(jobs))
		sem := make(chan struct{}, 6)
		done := make(chan int, len(jobs))
		for ji, j := range jobs {
			go func(ji int, j job) {
				sem <- struct{}{}
				defer func() { <-sem; done <- ji }()
				un := units[j.unit]
				price := new(big.Int).Mul(un.wei, big.NewInt(60)) // per minute = one unit per second
				min := fmt.Sprintf("-%d %s", j.scale, un.name)
				o := &results[ji]
				o.desc = fmt.Sprintf("vipnode pool --contract.price=%s (one %s per second, in bare wei) --contract.min-balance=%q", price, un.name, min)
				s, err := newBinSession("--store=memory", "--contract.price="+price.String(), "--contract.min-balance="+min)
				if err != nil {
					o.infra = err.Error()
					return
				}
				defer s.close()
				if r, _, _, err := s.hostCall(host, vh.NewCall("vipnode_connect", host, vh.WireNonce(), pool2ConnectHost())); err != nil || r.Code() != 0 {
					o.violation, o.detail = "wire/session-step-failed", fmt.Sprintf("host registers: %v %+v", err, r)
					return
				}
				r, tConn, _, err := s.clientCall(vh.NewCall("vipnode_connect", client, vh.WireNonce(), vh.DefaultParam("vipnode_connect", "")))
				if err != nil || r.Code() != 0 {
					o.violation, o.detail = "wire/client-refused-above-negative-minimum", fmt.Sprintf("a client with balance 0 was refused at connect: %v %+v", err, r)
					return
				}
				upd := func() vh.Call {
					return vh.NewCall("vipnode_update", client, vh.WireNonce(), vh.DefaultParam("vipnode_update", host.NodeID))
				}
				r1, _, t1r, err := s.clientCall(upd())
				if err != nil {
					o.infra = err.Error()
					return
				}
				_ = r1
				time.Sleep(1500 * time.Millisecond)
				r2, t2s, t2r, err := s.clientCall(upd())
				if err != nil {
					o.infra = err.Error()
					return
				}
				lo, hi := t2s.Sub(t1r), t2r.Sub(tConn)
				served := r2.Code() == 0
				o.observed = fmt.Sprintf("%s scale %d served=%v", un.name, j.scale, served)
				switch {
				case j.scale == 1 && served:
					o.violation, o.detail = "wire/client-below-minimum-served", fmt.Sprintf("at least %s of peering were billed (>= 1.5 %s spent), yet the keep-alive was served", lo, un.name)
				case j.scale == 10 && !served && hi < 9*time.Second:
					o.violation, o.detail = "wire/client-above-minimum-cut-off", fmt.Sprintf("at most %s of peering can have been billed (< 9 %s spent), yet the keep-alive was refused: %+v", hi, un.name, r2.Error)
				case j.scale == 10 && !served:
					o.observed += " (inconclusive: slow machine)"
				}
			}(ji, j)
		}
		for range jobs {
			<-done
		}
		for _, o := range results {
			wireStep(u)
			if o.infra != "" {
				u.R.Infra = o.infra
				return
			}
			u.Observe(o.observed)
			if o.violation != "" {
				u.Violate(o.violation, o.desc+": "+o.detail, nil)
			}
		}
		u.Sample("real binary: 12 unit names x minimum of -10 / -1 units, price one unit per second given in bare wei")
	}}
}

// The pool binary wired to a payment contract (--contract.rpc / --contract.address /
// --contract.keystore), against a chain node the harness serves (vh.ChainNode: the real contract
// on go-ethereum's simulated chain). What the wallets hold on chain counts towards the minimum
// balance (C03); a withdrawal reaches the wallet exactly once, also when the Ethereum node's reply
// to the settlement transaction is lost (C07).
func binaryWithContract() vh.Unit {
	return vh.Unit{Name: "wire/binary-with-contract", Run: func(u *vh.U) {
		ids := vh.Identities()
		client, host, w1, w2 := ids[0], ids[1], ids[3], ids[4]
		node, err := vh.NewChainNode(w1, w2)
		if err != nil {
			u.R.Infra = "chain node: " + err.Error()
			return
		}
		defer node.Close()
		dir := vh.Scratch("c07bin-")
		defer os.RemoveAll(dir)
		ksPath, err := node.OperatorKeystore(dir, "verif-passphrase")
		if err != nil {
			u.R.Infra = "keystore: " + err.Error()
			return
		}
		ether := func(n int64) *big.Int { return new(big.Int).Mul(big.NewInt(n), big.NewInt(1e18)) }
		fee := big.NewInt(2500000000000000) // the binary's fixed withdrawal fee (pool.go)
		if err := node.Deposit(w1, ether(2)); err != nil {
			u.R.Infra = "deposit: " + err.Error()
			return
		}
		if err := node.Deposit(w2, ether(1)); err != nil {
			u.R.Infra = "deposit: " + err.Error()
			return
		}
		p, err := vh.StartPoolEnv("", []string{"KEYSTORE_PASSPHRASE=verif-passphrase"}, "--store=memory",
			"--contract.rpc="+node.URL, "--contract.address=rinkeby://"+node.Address.Hex(), "--contract.keystore="+ksPath,
			"--contract.min-balance=1 ether", "--contract.price=100 gwei")
		if err != nil {
			u.R.Infra = "pool with contract: " + err.Error()
			return
		}
		s := &binSession{p: p, hosts: map[string]*vh.HostConn{}}
		s.cws, err = p.DialWS()
		if err != nil {
			p.Stop()
			u.Violate("wire/websocket-dial-failed", err.Error(), nil)
			return
		}
		defer s.close()
		desc := "vipnode pool --contract.rpc=<chain node> --contract.address=rinkeby://<contract> --contract.keystore=<operator> --contract.min-balance=\"1 ether\""
		account := func(w *vh.Ident) (deposit, credit *big.Int, err error) {
			_, body, err := p.Post(fmt.Sprintf(`{"jsonrpc":"2.0","id":1,"method":"pool_account","params":[%q]}`, w.Wallet))
			if err != nil {
				return nil, nil, err
			}
			var r struct {
				Result struct {
					Balance struct {
						Deposit json.Number `json:"deposit"`
						Credit  json.Number `json:"credit"`
					} `json:"balance"`
				} `json:"result"`
			}
			d := json.NewDecoder(strings.NewReader(body))
			d.UseNumber()
			if err := d.Decode(&r); err != nil {
				return nil, nil, fmt.Errorf("%v: %s", err, firstN(body, 200))
			}
			dep, ok1 := new(big.Int).SetString(r.Result.Balance.Deposit.String(), 10)
			cre, ok2 := new(big.Int).SetString(r.Result.Balance.Credit.String(), 10)
			if !ok1 || !ok2 {
				return nil, nil, fmt.Errorf("pool_account: %s", firstN(body, 200))
			}
			return dep, cre, nil
		}
		// --- C03: the on-chain deposit counts
		connect := func() (*vh.RPCReply, error) {
			r, _, _, err := s.clientCall(vh.NewCall("vipnode_connect", client, vh.WireNonce(), vh.DefaultParam("vipnode_connect", "")))
			return r, err
		}
		r, err := connect()
		wireStep(u)
		if err != nil {
			u.Violate("wire/read-failed", err.Error(), nil)
			return
		}
		if r.Code() == 0 {
			u.Violate("wire/client-below-minimum-admitted", desc+": a client without wallet or balance was admitted", nil)
			return
		}
		if r, err := s.post(vh.NewCall("pool_addNode", w1, vh.WireNonce(), client.NodeID)); err != nil || r.Code() != 0 {
			u.Violate("wire/session-step-failed", fmt.Sprintf("wallet 1 links the client: %v %+v", err, r), nil)
			return
		}
		dep, _, err := account(w1)
		wireStep(u)
		if err != nil || dep.Cmp(ether(2)) != 0 {
			u.Violate("wire/on-chain-deposit-not-reported", fmt.Sprintf("%s: wallet 1 holds 2 ether in the contract, pool_account reports deposit %v (%v)", desc, dep, err), nil)
			return
		}
		r, err = connect()
		wireStep(u)
		if err != nil || r.Code() != 0 {
			u.Violate("wire/funded-client-refused", fmt.Sprintf("%s: the client's wallet holds 2 ether on chain (pool_account agrees), the client was refused: %v %+v", desc, err, r), nil)
			return
		}
		if r, _, _, err := s.hostCall(host, vh.NewCall("vipnode_connect", host, vh.WireNonce(), pool2ConnectHost())); err != nil || r.Code() != 0 {
			u.Violate("wire/session-step-failed", fmt.Sprintf("host registers: %v %+v", err, r), nil)
			return
		}
		for i := 0; i < 2; i++ {
			time.Sleep(600 * time.Millisecond)
			r, _, _, err := s.clientCall(vh.NewCall("vipnode_update", client, vh.WireNonce(), vh.DefaultParam("vipnode_update", host.NodeID)))
			wireStep(u)
			if err != nil || r.Code() != 0 {
				u.Violate("wire/funded-client-cut-off", fmt.Sprintf("%s: keep-alive %d of the client whose wallet holds 2 ether was refused: %v %+v", desc, i+1, err, r), nil)
				return
			}
		}
		// --- C07: a withdrawal whose settlement transaction is accepted by the node while the reply
		// is lost: the wallet gets its money once
		withdraw := func(w *vh.Ident) (*vh.RPCReply, error) {
			return s.post(vh.NewCall("pool_withdraw", w, vh.WireNonce(), nil))
		}
		_, funds2 := node.OnChain(w2)
		contractBefore := node.ContractFunds()
		node.LoseSendReplies.Store(1)
		r1, err1 := withdraw(w2)
		node.LoseSendReplies.Store(0)
		// the wallet's owner tries again - once the pool has heard from the chain what became of the
		// deposit (the Balance event of a transaction whose reply was lost arrives a moment later;
		// a retry inside that moment is not judged: the pool cannot know yet)
		for i := 0; i < 1200; i++ {
			chainDep, _ := node.OnChain(w2)
			if poolDep, _, err := account(w2); err == nil && poolDep.Cmp(chainDep) == 0 {
				break
			}
			time.Sleep(100 * time.Millisecond)
		}
		r2, err2 := withdraw(w2)
		wireStep(u)
		if err1 != nil || err2 != nil {
			u.Violate("wire/read-failed", fmt.Sprint(err1, err2), nil)
			return
		}
		dep2, funds2After := node.OnChain(w2)
		received := new(big.Int).Sub(funds2After, funds2)
		owed := new(big.Int).Sub(ether(1), fee)
		paidOut := new(big.Int).Sub(contractBefore, node.ContractFunds())
		u.Observe(fmt.Sprintf("lossy withdraw: first=%d second=%d received=%s", r1.Code(), r2.Code(), received))
		if received.Cmp(owed) > 0 || paidOut.Cmp(owed) > 0 {
			u.Violate("wire/withdrawal-paid-more-than-owed", fmt.Sprintf("%s: wallet 2 deposited 1 ether; its withdrawal was sent while the Ethereum node accepted transactions but lost the replies, then once more: the wallet received %s wei, the contract paid out %s wei, owed %s (deposit left in the contract: %s; settlement transactions accepted: %d)", desc, received, paidOut, owed, dep2, node.Sent.Load()), nil)
			return
		}
		if received.Sign() != 0 && received.Cmp(owed) != 0 {
			u.Violate("wire/withdrawal-wrong-amount", fmt.Sprintf("%s: wallet 2 received %s wei, owed %s", desc, received, owed), nil)
			return
		}
		// --- an undisturbed withdrawal of wallet 1: deposit + (negative) credit - fee, once
		dep1, cre1, err := account(w1)
		if err != nil {
			u.Violate("wire/read-failed", err.Error(), nil)
			return
		}
		_, funds1 := node.OnChain(w1)
		ra, erra := withdraw(w1)
		rb, errb := withdraw(w1)
		wireStep(u)
		if erra != nil || errb != nil {
			u.Violate("wire/read-failed", fmt.Sprint(erra, errb), nil)
			return
		}
		depAfter, funds1After := node.OnChain(w1)
		received1 := new(big.Int).Sub(funds1After, funds1)
		// (the client keeps being billed until the moment of the withdrawal: the credit read a moment
		// earlier is an upper bound of what is left)
		upper := new(big.Int).Sub(new(big.Int).Add(dep1, cre1), fee)
		lower := new(big.Int).Sub(upper, big.NewInt(1e13)) // 100 gwei per minute: far less than 1e13 wei in the seconds between
		u.Observe(fmt.Sprintf("withdraw: first=%d second=%d", ra.Code(), rb.Code()))
		switch {
		case ra.Code() != 0:
			u.Violate("wire/withdrawal-refused", fmt.Sprintf("%s: wallet 1 (deposit %s, credit %s) was refused: %+v", desc, dep1, cre1, ra.Error), nil)
		case received1.Cmp(upper) > 0 || received1.Cmp(lower) < 0:
			u.Violate("wire/withdrawal-wrong-amount", fmt.Sprintf("%s: wallet 1 (deposit %s, credit %s, fee %s) withdrew twice in a row and received %s wei in total, expected between %s and %s", desc, dep1, cre1, fee, received1, lower, upper), nil)
		case depAfter.Sign() != 0:
			u.Violate("wire/balance-not-cleared", fmt.Sprintf("%s: after the withdrawal wallet 1 still has %s wei deposited in the contract", desc, depAfter), nil)
		}
		u.Sample("real binary + real contract on a served simulated chain: minimum balance from the on-chain deposit; withdrawal with lost node replies; plain withdrawal twice")
	}}
}
