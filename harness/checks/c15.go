//go:build go1.21

package checks

import (
	"bytes"
	"context"
	"encoding/json"
	"fmt"
	"math/big"
	"net/http"
	"net/http/httptest"
	"strings"
	"time"

	"github.com/vipnode/vipnode/v2/agent"
	"github.com/vipnode/vipnode/v2/ethnode"
	"github.com/vipnode/vipnode/v2/internal/verif/vh"
	"github.com/vipnode/vipnode/v2/internal/verif/vsched"
	"github.com/vipnode/vipnode/v2/jsonrpc2"
	"github.com/vipnode/vipnode/v2/pool"
)

// C15 — no message from the network can crash or wedge a pool or an agent.

func c15World() (*vh.PoolWorld, *jsonrpc2.Server, *vh.Cast) { return c15WorldOn(vh.Memory) }

// c15Tight: the pool is in a state where ordinary requests take their rare paths - a minimum balance
// is configured, the client is one keep-alive away from it, one of its active peers has hung up
var c15Tight bool

func c15WorldOn(driver string) (*vh.PoolWorld, *jsonrpc2.Server, *vh.Cast) {
	vsched.ResetClock(0)
	cast := vh.StdCast()
	cfg := vh.PoolConfig{Driver: driver, WithdrawMin: big10("100")}
	if c15Tight {
		cfg.Price, cfg.Interval, cfg.MinBalance = big.NewInt(1), 1, big.NewInt(-5e9)
	}
	pw := vh.NewPoolWorld(cfg)
	evs := []string{"conn H1", "conn H2", "conn C1", "upd C1 H1", "link W1 C1", "tick 1s"}
	if c15Tight {
		evs = []string{"conn H1", "conn H2", "conn C1", "upd C1 H1,H2", "link W1 C1", "tick 20s", "upd H1 -", "upd H2 -"}
	}
	for _, e := range evs {
		vh.PoolEvent(pw, cast, e)
	}
	if c15Tight {
		pw.Pool.CloseRemote(pw.Host(cast.ByName["H2"].Name).Service()) // H2 hung up; it is still an active peer of C1
	}
	srv := &jsonrpc2.Server{}
	if err := vh.RegisterProd(srv, pw); err != nil {
		panic(err)
	}
	return pw, srv, cast
}

// JSON value grammar for parameter positions.
func c15Values(cast *vh.Cast) []string {
	sig65 := cast.ByName["C1"].SignNode("vipnode_ping", 1)
	return []string{
		`null`, `true`, `0`, `-1`, `9223372036854775808`, `1.5`, `""`, `"x"`,
		`"` + cast.ByName["C1"].NodeID + `"`, `"` + cast.ByName["W1"].Wallet + `"`, `"` + sig65 + `"`,
		`"AA=="`, `"` + strings.Repeat("A", 84) + `"`, `"` + strings.Repeat("A", 88) + `"`, `"` + strings.Repeat("zz", 65) + `"`,
		`[]`, `{}`, `{"num":"x","kind":5,"peers_info":"no","node_info":7,"node_uri":{},"block_number":-1}`,
		`"` + strings.Repeat("p", 2100) + `"`, `[` + strings.Repeat(`{"a":1},`, 300) + `{}]`,
		`[[[[[[[[[[]]]]]]]]]]`, `{"peers_info":[null,{"id":5},{"enode":"enode://short"}],"block_number":18446744073709551616}`,
	}
}

// arity of each production method (positional params after the context)
var c15Arity = map[string]int{
	"vipnode_connect": 4, "vipnode_update": 4, "vipnode_peer": 4, "vipnode_client": 4, "vipnode_host": 4, "vipnode_ping": 0,
	"pool_account": 1, "pool_addNode": 4, "pool_withdraw": 3, "pool_status": 0,
}

func c15ValidArgs(method string, cast *vh.Cast) []string {
	id := `"` + cast.ByName["C1"].NodeID + `"`
	w := `"` + cast.ByName["W1"].Wallet + `"`
	switch method {
	case "pool_account":
		return []string{w}
	case "pool_addNode":
		return []string{`"sig"`, w, `1`, id}
	case "pool_withdraw":
		return []string{`"sig"`, w, `1`}
	case "vipnode_ping", "pool_status":
		return nil
	}
	return []string{`"sig"`, id, `1`, `{}`}
}

// shape-hostile requests: every method x arity 0..n+1 x one position at a time from the grammar
func c15Shapes(shard, nshards int) vh.Unit {
	name := fmt.Sprintf("request-shapes/%d", shard)
	return vh.Unit{Name: name, Run: func(u *vh.U) {
		_, srv, cast := c15World()
		agentSrv, _ := vh.AgentServer()
		vals := c15Values(cast)
		type target struct {
			srv    *jsonrpc2.Server
			method string
			n      int
			valid  []string
		}
		var targets []target
		for _, m := range vh.ProdMethods {
			targets = append(targets, target{srv, m, c15Arity[m], c15ValidArgs(m, cast)})
		}
		targets = append(targets, target{agentSrv, "vipnode_whitelist", 1, []string{`"abc"`}})
		idx := 0
		try := func(t target, params string) {
			idx++
			if idx%nshards != shard {
				return
			}
			text := fmt.Sprintf(`{"jsonrpc":"2.0","id":%d,"method":%q,"params":%s}`, idx, t.method, params)
			c15Feed(u, t.srv, text, fmt.Sprint(idx), t.srv == srv)
		}
		for _, t := range targets {
			// arities with valid-looking values
			for n := 0; n <= t.n+1; n++ {
				var args []string
				for i := 0; i < n; i++ {
					if i < len(t.valid) {
						args = append(args, t.valid[i])
					} else {
						args = append(args, `1`)
					}
				}
				try(t, "["+strings.Join(args, ",")+"]")
			}
			for _, p := range []string{`null`, `{}`, `"x"`, `7`, `[[]]`} {
				try(t, p)
			}
			// one position at a time, and all positions at once
			for _, v := range vals {
				for pos := 0; pos < t.n; pos++ {
					args := append([]string{}, t.valid...)
					args[pos] = v
					try(t, "["+strings.Join(args, ",")+"]")
				}
				if t.n > 1 {
					args := make([]string, t.n)
					for i := range args {
						args[i] = v
					}
					try(t, "["+strings.Join(args, ",")+"]")
				}
			}
		}
	}}
}

// c15Feed sends one request text to a server and judges the reply.
func c15Feed(u *vh.U, srv *jsonrpc2.Server, text, id string, pingable bool) {
	u.R.Evaluations++
	u.R.Transitions++
	u.R.States++
	u.R.Traces++
	msg, err := vh.ParseMessage(text)
	if err != nil {
		u.Observe("unparseable")
		return
	}
	var resp *jsonrpc2.Message
	ctx := vh.CtxWith(&vh.FakeHost{W: &vh.PoolWorld{}, Name: "hostile", Addr: "203.0.113.66:4000"})
	if p := vh.Recover(func() {
		resp, _ = vh.Watched("request "+abbreviate(text), func() (*jsonrpc2.Message, error) { return srv.Handle(ctx, msg), nil })
	}); p != "" {
		cls := "panic"
		if strings.Contains(p, "never returned") {
			cls = "no-reply"
		}
		u.Violate("hostile-request/"+cls, fmt.Sprintf("request %s: %s", abbreviate(text), p), nil)
		return
	}
	if prob := vh.ReplyProblem(id, resp); prob != "" {
		u.Violate("hostile-request/malformed-reply", fmt.Sprintf("request %s: %s", abbreviate(text), prob), nil)
	}
	code := 0
	if resp != nil && resp.Response != nil && resp.Error != nil {
		code = resp.Error.Code
	}
	method := "<none>"
	if msg.Request != nil {
		method = msg.Method
	}
	u.Observe(fmt.Sprintf("%s %d", method, code))
	if len(u.R.Samples) < 3 && code == jsonrpc2.ErrCodeInvalidParams {
		u.Sample(abbreviate(text))
	}
	if pingable && !vh.Ping(srv) {
		u.Violate("hostile-request/server-unusable-afterwards", fmt.Sprintf("after request %s the server no longer answers vipnode_ping", abbreviate(text)), nil)
	}
}

func abbreviate(s string) string {
	if len(s) > 400 {
		return s[:200] + "…" + s[len(s)-150:]
	}
	return s
}

// correctly signed requests with semantically hostile parameters
func c15Signed(shard, nshards int) vh.Unit { return c15SignedOn(vh.Memory, shard, nshards) }

func c15SignedOn(driver string, shard, nshards int) vh.Unit {
	return c15SignedIn(driver, false, shard, nshards)
}

func c15SignedIn(driver string, tight bool, shard, nshards int) vh.Unit {
	name := fmt.Sprintf("signed-hostile/%d", shard)
	if driver != vh.Memory {
		name = fmt.Sprintf("signed-hostile/%s/%d", driver, shard)
	}
	if tight {
		name = fmt.Sprintf("signed-hostile/tight-pool/%s/%d", driver, shard)
	}
	return vh.Unit{Name: name, Run: func(u *vh.U) {
		c15Tight = tight
		defer func() { c15Tight = false }()
		cast := vh.StdCast()
		C, H, W := cast.ByName["C1"], cast.ByName["H2"], cast.ByName["W1"]
		long := strings.Repeat("a", 70000)
		uris := []string{"", C.NodeID, "enode://" + H.NodeID + "@", "enode://" + H.NodeID + "@[2001:db8::1]:30303", "enode://" + H.NodeID + ":pw@1.2.3.4:1",
			"enode://%zz@1.2.3.4", "enode://" + H.NodeID + "@" + long, "enode://" + H.NodeID + "@1.2.3.4:30303/path?discport=0", "http://x", "://", "enode://@:", "enode://" + H.NodeID + "@[::]:1", "\x00\x01", "enode://" + H.NodeID + "@1.2.3.4:99999999"}
		nums := []int{-2147483648, -3, -1, 0, 2147483648, 1 << 62}
		var calls []vh.Call
		nonce := int64(0)
		nn := func() int64 { nonce++; return vsched.Base().UnixNano() + 5e9 + nonce }
		for _, uri := range uris {
			calls = append(calls, vh.NewCall("vipnode_connect", H, nn(), pool.ConnectRequest{NodeInfo: ethnode.UserAgent{IsFullNode: true, Kind: ethnode.Geth}, NodeURI: uri}))
			calls = append(calls, vh.NewCall("vipnode_host", H, nn(), pool.HostRequest{Kind: "geth", NodeURI: uri}))
		}
		calls = append(calls, vh.NewCall("vipnode_connect", C, nn(), pool.ConnectRequest{NodeInfo: ethnode.UserAgent{Kind: 99, Network: -7}, Payout: long}))
		for _, n := range nums {
			calls = append(calls, vh.NewCall("vipnode_peer", C, nn(), pool.PeerRequest{Num: n, Kind: "geth"}))
			calls = append(calls, vh.NewCall("vipnode_peer", C, nn(), pool.PeerRequest{Num: n, Kind: long}))
			calls = append(calls, vh.NewCall("vipnode_client", C, nn(), pool.ClientRequest{NumHosts: n, Kind: "parity"}))
		}
		mkPeer := func(id, enode string) ethnode.PeerInfo { return ethnode.PeerInfo{ID: id, Enode: enode} }
		peerSets := [][]ethnode.PeerInfo{
			nil, {}, {mkPeer("", "")}, {mkPeer(long, "")}, {mkPeer("x", "enode://short")}, {mkPeer("x", "enode://"+strings.Repeat("b", 128))},
			{mkPeer("x", "enode://"+strings.Repeat("b", 129))}, {mkPeer("x", strings.Repeat("c", 136))}, {mkPeer("x", strings.Repeat("c", 137))},
			{mkPeer(H.NodeID, ""), mkPeer(H.NodeID, ""), mkPeer(C.NodeID, "")},
		}
		for n := 120; n <= 142; n++ {
			peerSets = append(peerSets, []ethnode.PeerInfo{mkPeer("y", strings.Repeat("d", n))})
			if n >= 8 {
				peerSets = append(peerSets, []ethnode.PeerInfo{mkPeer("y", "enode://"+strings.Repeat("e", n-8))})
			}
		}
		big := make([]ethnode.PeerInfo, 1500)
		for i := range big {
			big[i] = mkPeer(fmt.Sprintf("%0128x", i), "")
		}
		peerSets = append(peerSets, big)
		for _, ps := range peerSets {
			calls = append(calls, vh.NewCall("vipnode_update", C, nn(), pool.UpdateRequest{PeerInfo: ps, BlockNumber: 1<<64 - 1}))
			calls = append(calls, vh.NewCall("vipnode_update", C, nn(), pool.UpdateRequest{Peers: []string{"", long}, PeerInfo: ps}))
		}
		// (incl. ids that are a prefix or an extension of a registered one)
		for _, node := range []string{"", "abc", C.NodeID, H.NodeID, strings.Repeat("f", 128), long, C.NodeID[:1], C.NodeID[:11], C.NodeID[:12], C.NodeID[:127], C.NodeID + "0", strings.ToUpper(C.NodeID)} {
			calls = append(calls, vh.NewCall("pool_addNode", W, nn(), node))
		}
		calls = append(calls, vh.NewCall("pool_withdraw", W, nn(), nil))
		// every numeric field of every request, at any depth, at the extremes of its type
		for _, ep := range vh.SignedEndpoints {
			owner := C
			if ep == "vipnode_host" {
				owner = H
			}
			if vh.IsWalletEndpoint(ep) {
				owner = W
			}
			_, alts := vh.NumericExtremes(vh.DefaultParam(ep, H.NodeID))
			for _, a := range alts {
				calls = append(calls, vh.NewCall(ep, owner, nn(), a))
				if ep == "vipnode_connect" {
					calls = append(calls, vh.NewCall(ep, H, nn(), a))
				}
			}
		}
		for i, c := range calls {
			if i%nshards != shard {
				continue
			}
			if u.Expired() {
				return
			}
			pw, srv, _ := c15WorldOn(driver)
			_ = pw
			// through the real JSON path: marshal the signed call as an RPC request
			params := []interface{}{c.Sig, c.ID, c.Nonce}
			if c.Endpoint != "pool_withdraw" {
				params = append(params, c.Param)
			}
			pj, _ := json.Marshal(params)
			text := fmt.Sprintf(`{"jsonrpc":"2.0","id":%d,"method":%q,"params":%s}`, i+1, c.Endpoint, pj)
			c15Feed(u, srv, text, fmt.Sprint(i+1), true)
			// account view after arbitrary links must still be servable
			for _, wallet := range []string{W.Wallet, "", "x"} {
				c15Feed(u, srv, fmt.Sprintf(`{"jsonrpc":"2.0","id":7,"method":"pool_account","params":[%q]}`, wallet), "7", true)
			}
			c15Feed(u, srv, `{"jsonrpc":"2.0","id":8,"method":"pool_status","params":[]}`, "8", true)
		}
	}}
}

// envelopes and replies over a real Remote pair (controlled scheduler, drained)
func c15Envelopes() vh.Unit {
	name := "envelopes-and-replies"
	return vh.Unit{Name: name, Run: func(u *vh.U) {
		envelopes := []string{
			`{}`, `[]`, `[{"jsonrpc":"2.0","id":1,"method":"echo","params":["x"]}]`, `null`, `7`, `"x"`,
			`{"jsonrpc":"2.0","method":"echo","params":["x"]}`, `{"jsonrpc":"2.0","id":null,"method":"echo","params":["x"]}`,
			`{"jsonrpc":"2.0","id":"str","method":"echo","params":["x"]}`, `{"jsonrpc":"2.0","id":{"a":1},"method":"echo","params":["x"]}`,
			`{"jsonrpc":"2.0","id":5,"method":7}`, `{"jsonrpc":"2.0","id":5,"params":["x"]}`, `{"jsonrpc":"1.0","id":5,"method":"echo","params":["x"]}`,
			`{"jsonrpc":"2.0","id":5,"method":"echo","params":["x"],"result":"y"}`, `{"jsonrpc":"2.0","id":5,"method":"echo","params":["x"],"error":{"code":1,"message":"m"}}`,
			`{"jsonrpc":"2.0","id":5}`, `{"id":5}`, `{"jsonrpc":"2.0","id":5,"method":"nosuch","params":[]}`, `{"jsonrpc":"2.0","id":5,"method":"echo","params":{"a":1}}`,
			`{"jsonrpc":"2.0","id":5,"method":"echo","params":[1]}`, `{"jsonrpc":"2.0","id":5,"method":"nest","params":["t",-1]}`, `{"jsonrpc":"2.0","id":5,"method":"","params":[]}`,
		}
		replies := []string{}
		for _, id := range []string{`1`, `99`, ``, `null`, `"1"`} {
			for _, res := range []string{``, `"result":null`, `"result":"tok"`, `"result":{"a":[1,2]}`, `"result":5`} {
				for _, er := range []string{``, `"error":null`, `"error":{"code":-32000,"message":"boom"}`, `"error":"str"`, `"error":{"code":"x"}`} {
					parts := []string{`"jsonrpc":"2.0"`}
					if id != "" {
						parts = append(parts, `"id":`+id)
					}
					if res != "" {
						parts = append(parts, res)
					}
					if er != "" {
						parts = append(parts, er)
					}
					replies = append(replies, "{"+strings.Join(parts, ",")+"}")
				}
			}
		}
		var repeat = 1       // how many times the hostile reply is sent
		var solicited = true // whether a caller is waiting for a reply when it arrives
		run := func(kind, text string, isReply bool) {
			var w *vh.RPCWorld
			var callErr, pingErr error
			var callRes, pingRes string
			callDone, pingDone := false, false
			s := vsched.Run(vsched.Options{Drain: true, MaxTime: time.Hour}, func() {
				w = vh.NewRPCWorld(0, 0)
				w.Start()
				if isReply {
					// A waits for the reply to its request #1; B's side is played by the harness
					ctx, cancel := vsched.WithTimeout(context.Background(), 5*time.Second)
					defer cancel()
					if solicited {
						vsched.GoMain("waiting-caller", func() {
							callErr = w.A.Call(ctx, &callRes, "echo", "tok")
							callDone = true
						})
						vsched.Yield("let-caller-send")
					} else {
						callDone = true
					}
					for i := 0; i < repeat; i++ {
						w.CA.InjectIncoming([]byte(text))
					}
				} else {
					w.CB.InjectIncoming([]byte(text)) // arrives at B as if A had sent it
				}
				// the same connection must still work for an ordinary call afterwards (B serves echo)
				ctx2, cancel2 := vsched.WithTimeout(context.Background(), 20*time.Second)
				defer cancel2()
				pingErr = w.A.Call(ctx2, &pingRes, "echo", "still-alive")
				pingDone = true
			})
			u.R.Evaluations++
			u.R.Transitions += int64(len(s.Trace))
			u.R.States++
			u.R.Traces++
			u.Observe(fmt.Sprintf("%s call=%v/%v ping=%v serveA=%v serveB=%v", kind, callRes, callErr != nil, pingErr != nil, w.ServeErr[0] != nil, w.ServeErr[1] != nil))
			desc := fmt.Sprintf("%s %s", kind, abbreviate(text))
			if isReply && (repeat > 1 || !solicited) {
				desc = fmt.Sprintf("%s sent %d times (a caller waiting: %v)", desc, repeat, solicited)
			}
			switch {
			case s.Panic != nil:
				u.Violate("hostile-"+kind+"/panic", fmt.Sprintf("%s: panic: %v\n%s", desc, s.Panic, firstN(s.PanicStack, 1200)), nil)
			case !pingDone:
				u.Violate("hostile-"+kind+"/wedged", fmt.Sprintf("%s: a later call on the connection never returned; threads %v", desc, s.Blocked), nil)
			case isReply && !callDone:
				u.Violate("hostile-reply/caller-hangs", fmt.Sprintf("%s: the waiting caller never returned; threads %v", desc, s.Blocked), nil)
			case !isReply && !c15WellFormed(text):
				// not a JSON-RPC message object at all (batch array, bare value): a malformed stream may
				// cost the sender its own connection; observed, not judged
				u.Count("non_object_envelope_not_judged", 1)
			case !isReply && (pingErr != nil || pingRes != "still-alive"):
				u.Violate("hostile-envelope/connection-unusable", fmt.Sprintf("%s: afterwards echo on the same connection returned %q err=%v (serve loops: %v)", desc, pingRes, pingErr, w.ServeErr), nil)
			}
		}
		for _, e := range envelopes {
			run("envelope", e, false)
		}
		for _, r := range replies {
			run("reply", r, true)
		}
		// the same replies unsolicited and repeated: whatever a peer sends, and however often, only
		// its own connection may suffer - nobody calling over it may be left hanging
		for _, solicited = range []bool{true, false} {
			for _, repeat = range []int{2, 3} {
				for i, r := range replies {
					if !u.Thorough() && i%5 != 2 && i%25 != 0 {
						continue
					}
					run("reply", r, true)
				}
			}
		}
		repeat, solicited = 1, false
		for i, r := range replies {
			if !u.Thorough() && i%5 != 2 {
				continue
			}
			run("reply", r, true)
		}
		repeat, solicited = 1, true
		u.Sample(envelopes[4])
		u.Sample(replies[7])
	}}
}

// c15WellFormed: does the text decode as a JSON-RPC message object at all?
func c15WellFormed(text string) bool {
	if !strings.HasPrefix(strings.TrimSpace(text), "{") {
		return false
	}
	_, err := vh.ParseMessage(text)
	return err == nil
}

func firstN(s string, n int) string {
	if len(s) > n {
		return s[:n]
	}
	return s
}

// bytes: every prefix and every single-byte substitution of representative messages, through the
// stream codec + Server.Handle and through HTTPServer.ServeHTTP
func c15Bytes(shard, nshards int) vh.Unit {
	name := fmt.Sprintf("bytes/%d", shard)
	return vh.Unit{Name: name, Run: func(u *vh.U) {
		_, srv, cast := c15World()
		C := cast.ByName["C1"]
		upd := vh.NewCall("vipnode_update", C, vsched.Base().UnixNano()+9e9, vh.DefaultParam("vipnode_update", cast.ByName["H1"].NodeID))
		pj, _ := json.Marshal([]interface{}{upd.Sig, upd.ID, upd.Nonce, upd.Param})
		msgs := []string{
			`{"jsonrpc":"2.0","id":1,"method":"vipnode_ping","params":[]}`,
			`{"jsonrpc":"2.0","id":2,"method":"pool_account","params":["` + cast.ByName["W1"].Wallet + `"]}`,
			`{"jsonrpc":"2.0","id":3,"method":"vipnode_update","params":` + string(pj) + `}`,
			`{"jsonrpc":"2.0","id":4,"result":{"a":"üé"},"error":null}`,
			`{"jsonrpc":"2.0","id":5,"method":"pool_status"}`,
			`{"jsonrpc":"2.0","id":"6","method":"vipnode_peer","params":["sig","id",1,{"num":1}]}`,
		}
		subs := []byte{'{', '}', '[', ']', '"', '\\', ',', ':', '0', ' ', 0x00, 0xff}
		hs := &jsonrpc2.HTTPServer{}
		if err := vh.RegisterProd(&hs.Server, vh.NewPoolWorld(vh.PoolConfig{})); err != nil {
			panic(err)
		}
		idx := 0
		feed := func(b []byte) {
			idx++
			if idx%nshards != shard {
				return
			}
			u.R.Evaluations++
			u.R.Transitions++
			u.R.States++
			u.R.Traces++
			// stream codec
			codec := jsonrpc2.IOCodec(rwcOf(b))
			var msg *jsonrpc2.Message
			var err error
			if p := vh.Recover(func() { msg, err = codec.ReadMessage() }); p != "" {
				u.Violate("hostile-bytes/panic-in-codec", fmt.Sprintf("bytes %q: %s", abbreviate(string(b)), p), nil)
				return
			}
			if err == nil && msg != nil {
				var resp *jsonrpc2.Message
				if p := vh.Recover(func() { resp = srv.Handle(context.Background(), msg) }); p != "" {
					u.Violate("hostile-bytes/panic-in-handler", fmt.Sprintf("bytes %q: %s", abbreviate(string(b)), p), nil)
					return
				}
				if prob := vh.ReplyProblem(string(msg.ID), resp); prob != "" && msg.Request != nil {
					u.Violate("hostile-bytes/malformed-reply", fmt.Sprintf("bytes %q: %s", abbreviate(string(b)), prob), nil)
				}
				if msg.Request != nil {
					u.Observe("parsed " + msg.Method)
				} else {
					u.Observe("parsed non-request")
				}
			} else {
				u.Observe("rejected")
			}
			// HTTP transport
			rec := httptest.NewRecorder()
			req := httptest.NewRequest(http.MethodPost, "/", bytes.NewReader(b))
			if p := vh.Recover(func() { hs.ServeHTTP(rec, req) }); p != "" {
				u.Violate("hostile-bytes/panic-in-http", fmt.Sprintf("bytes %q: %s", abbreviate(string(b)), p), nil)
				return
			}
			if rec.Code == 200 && !json.Valid(bytes.TrimSpace(rec.Body.Bytes())) && rec.Body.Len() > 0 {
				u.Violate("hostile-bytes/http-reply-not-json", fmt.Sprintf("bytes %q -> %q", abbreviate(string(b)), abbreviate(rec.Body.String())), nil)
			}
		}
		for _, m := range msgs {
			b := []byte(m)
			step := 1
			if len(b) > 600 && !u.Thorough() {
				step = 7
			}
			for n := 0; n <= len(b); n += step {
				feed(b[:n])
			}
			for pos := 0; pos < len(b); pos += step {
				for _, sb := range subs {
					if b[pos] == sb {
						continue
					}
					c := append([]byte{}, b...)
					c[pos] = sb
					feed(c)
				}
			}
		}
		if !vh.Ping(srv) {
			u.Violate("hostile-bytes/server-unusable-afterwards", "vipnode_ping no longer answered", nil)
		}
		u.Sample(msgs[0][:20] + "…  (every prefix, every single-byte substitution)")
	}}
}

// the real binary: hostile requests over HTTP and over WebSocket must neither kill the process
// (a panic in a per-request goroutine would) nor make it stop serving another connection
func c15Wire() vh.Unit {
	return vh.Unit{Name: "wire/hostile-requests", Run: func(u *vh.U) {
		p, err := vh.StartPool()
		if err != nil {
			u.R.Infra = err.Error()
			return
		}
		defer p.Stop()
		cast := vh.StdCast()
		other, err := p.DialWS() // the bystander connection
		if err != nil {
			u.Violate("wire/websocket-dial-failed", err.Error(), nil)
			return
		}
		defer other.Close()
		ws, _ := p.DialWS()
		defer func() {
			if ws != nil {
				ws.Close()
			}
		}()
		vals := c15Values(cast)
		ping := `{"jsonrpc":"2.0","id":424242,"method":"vipnode_ping","params":[]}`
		n := 0
		send := func(text string, wellFormedRequest bool) bool {
			if u.Expired() {
				return false
			}
			n++
			u.R.Evaluations++
			u.R.States++
			u.R.Transitions += 2
			u.R.Traces++
			_, body, herr := p.Post(text)
			if !p.Alive() {
				u.Violate("wire/pool-died", fmt.Sprintf("the pool process exited after HTTP request %s\n%s", abbreviate(text), firstN(tailOf(p.Output(), 1500), 1500)), nil)
				return false
			}
			if wellFormedRequest && herr == nil {
				if r, derr := vh.DecodeReply(body); derr != nil || (r.Error == nil && len(r.Result) == 0) {
					u.Violate("wire/malformed-http-reply", fmt.Sprintf("%s -> %q", abbreviate(text), abbreviate(body)), nil)
				}
			}
			// same request over WebSocket, then the connection must still answer a ping
			if ws == nil {
				ws, _ = p.DialWS()
			}
			if ws != nil {
				if err := ws.Send(text); err == nil && wellFormedRequest {
					if _, err := ws.Recv(time.Minute); err != nil {
						u.Violate("wire/no-reply-over-websocket", fmt.Sprintf("%s: %v", abbreviate(text), err), nil)
						ws.Close()
						ws = nil
					} else if r, err := ws.Call(ping, time.Minute); err != nil || !strings.Contains(r, "pong") {
						u.Violate("wire/hostile-request-cost-its-connection", fmt.Sprintf("after %s a ping on the same WebSocket connection got %q %v", abbreviate(text), r, err), nil)
						ws.Close()
						ws = nil
					}
				} else if !wellFormedRequest {
					ws.Close() // a malformed stream may cost the sender its own connection
					ws = nil
				}
			}
			if !p.Alive() {
				u.Violate("wire/pool-died", fmt.Sprintf("the pool process exited after WebSocket request %s\n%s", abbreviate(text), firstN(tailOf(p.Output(), 1500), 1500)), nil)
				return false
			}
			if n%10 == 0 {
				if r, err := other.Call(ping, time.Minute); err != nil || !strings.Contains(r, "pong") {
					u.Violate("wire/other-connection-not-served", fmt.Sprintf("after %s the bystander connection got %q %v", abbreviate(text), r, err), nil)
					return false
				}
			}
			u.Observe(fmt.Sprint(wellFormedRequest, len(body) > 0))
			return true
		}
		id := 0
		for _, m := range vh.ProdMethods {
			nargs := c15Arity[m]
			valid := c15ValidArgs(m, cast)
			for _, v := range vals {
				for pos := 0; pos < nargs; pos++ {
					if !u.Thorough() && (pos+len(v))%3 != 0 {
						continue
					}
					args := append([]string{}, valid...)
					args[pos] = v
					id++
					if !send(fmt.Sprintf(`{"jsonrpc":"2.0","id":%d,"method":%q,"params":[%s]}`, id, m, strings.Join(args, ",")), true) {
						return
					}
				}
			}
		}
		// correctly signed but hostile (real-time nonces: the binary runs on the real clock)
		C := cast.ByName["C1"]
		if !send(vh.RequestText(vh.NewCall("vipnode_connect", C, vh.WireNonce(), vh.DefaultParam("vipnode_connect", "")), 900001), true) {
			return
		}
		for _, num := range []int{-2147483648, -1, 0, 2147483648, 1 << 62} {
			if !send(vh.RequestText(vh.NewCall("vipnode_peer", C, vh.WireNonce(), pool.PeerRequest{Num: num}), 900002), true) {
				return
			}
		}
		for _, enode := range []string{strings.Repeat("d", 130), "enode://short", strings.Repeat("e", 137)} {
			req := pool.UpdateRequest{PeerInfo: []ethnode.PeerInfo{{ID: "x", Enode: enode}}}
			if !send(vh.RequestText(vh.NewCall("vipnode_update", C, vh.WireNonce(), req), 900003), true) {
				return
			}
		}
		for _, sig := range []string{"", "AA==", strings.Repeat("A", 84)} {
			c := vh.NewCall("vipnode_update", C, vh.WireNonce(), pool.UpdateRequest{})
			c.Sig = sig
			if !send(vh.RequestText(c, 900004), true) {
				return
			}
		}
		for _, raw := range []string{`{"jsonrpc":"2.0","id":1}`, `[]`, `{"id":5,"method":7}`, `{`, `null`, `{"jsonrpc":"2.0","id":5,"result":"x"}`, `{"jsonrpc":"2.0","id":6,"result":null,"error":null}`} {
			if !send(raw, false) {
				return
			}
		}
		u.Sample(fmt.Sprintf("%d hostile requests sent to the real binary over HTTP and WebSocket with a bystander connection pinged every 10", n))
	}}
}

func tailOf(s string, n int) string {
	if len(s) > n {
		return s[len(s)-n:]
	}
	return s
}

type rwcT struct{ *bytes.Reader }

func (rwcT) Write(p []byte) (int, error) { return len(p), nil }
func (rwcT) Close() error                { return nil }
func rwcOf(b []byte) rwcT                { return rwcT{bytes.NewReader(b)} }

// hosts that answer the pool's own calls with errors (or not at all): whatever number of them
// fails, the client's request gets a well-formed reply and the pool keeps serving - the reply is
// built from the error values those failures produce
func c15FailingHosts() vh.Unit {
	return vh.Unit{Name: "failing-hosts", Run: func(u *vh.U) {
		cast := vh.StdCast()
		hosts := []string{"H1", "H2", "H3"}
		for nHosts := 1; nHosts <= 3; nHosts++ {
			for modes := 0; modes < 27; modes++ { // per host: ack / error / silent
				for _, k := range []int{1, 3} {
					for _, legacy := range []bool{false, true} {
						var ms []int
						m := modes
						for i := 0; i < nHosts; i++ {
							ms = append(ms, m%3)
							m /= 3
						}
						if m != 0 {
							continue
						}
						var resp *jsonrpc2.Message
						var alive bool
						s := vsched.Run(vsched.Options{MaxTime: time.Hour, Drain: true}, func() {
							pw := vh.NewPoolWorld(vh.PoolConfig{Driver: vh.Memory, NoManager: true})
							for i := 0; i < nHosts; i++ {
								vh.PoolEvent(pw, cast, "conn "+hosts[i])
								pw.Host(cast.ByName[hosts[i]].Name).Mode = ms[i]
							}
							vh.PoolEvent(pw, cast, "conn C1")
							srv := &jsonrpc2.Server{}
							if err := vh.RegisterProd(srv, pw); err != nil {
								panic(err)
							}
							c := vh.NewCall("vipnode_peer", cast.ByName["C1"], vsched.Now().UnixNano()+77, pool.PeerRequest{Num: k})
							if legacy {
								c = vh.NewCall("vipnode_client", cast.ByName["C1"], vsched.Now().UnixNano()+77, pool.ClientRequest{Kind: "geth", NumHosts: k})
							}
							msg, err := vh.ParseMessage(vh.RequestText(c, 5))
							if err != nil {
								panic(err)
							}
							resp = srv.Handle(vh.CtxWith(pw.Host("client-conn").Service()), msg)
							alive = vh.Ping(srv)
						})
						u.R.Evaluations++
						u.R.States++
						u.R.Transitions += int64(len(s.Trace))
						u.R.Traces++
						desc := fmt.Sprintf("%d hosts answering the whitelist call with %v (0 ack, 1 error, 2 silence), request for %d hosts (legacy=%v)", nHosts, ms, k, legacy)
						u.Observe(fmt.Sprintf("%v %d %v err=%v", ms, k, legacy, resp != nil && resp.Response != nil && resp.Error != nil))
						switch {
						case s.Panic != nil:
							u.Violate("failing-hosts/panic", fmt.Sprintf("%s: %v", desc, s.Panic), nil)
							return
						case s.Deadlock || s.Horizon:
							u.Violate("failing-hosts/request-never-answered", desc, nil)
							return
						case vh.ReplyProblem("5", resp) != "":
							u.Violate("failing-hosts/malformed-reply", fmt.Sprintf("%s: %s", desc, vh.ReplyProblem("5", resp)), nil)
							return
						case !alive:
							u.Violate("failing-hosts/pool-stopped-serving", desc, nil)
							return
						}
						if len(u.R.Samples) < 2 && !allAckOf(ms) {
							u.Sample(desc + " -> " + vh.ShortJSON(resp))
						}
						// (control: hosts that all acknowledge are handed out)
						allAck := true
						for _, m := range ms {
							allAck = allAck && m == vh.HostAck
						}
						if allAck && (resp.Error != nil || !strings.Contains(string(resp.Result), cast.ByName["H1"].NodeID)) {
							u.Violate("failing-hosts/acknowledging-hosts-not-returned", fmt.Sprintf("%s: %s", desc, vh.ShortJSON(resp)), nil)
							return
						}
					}
				}
			}
		}
		u.Sample("1-3 hosts x every ack/error/silence assignment x requests for 1 and 3 hosts, both request formats, through the production registration")
	}}
}

// hostile requests arriving at the same moment on different connections (garbage signatures in the
// name of different nodes, mixed with a valid request): every interleaving of their handling - the
// bookkeeping a pool does about rejected requests is shared state like any other
func c15ConcurrentHostile(bound int) vh.Unit {
	name := "concurrent-hostile-requests"
	cast := vh.StdCast()
	var replies [3]*jsonrpc2.Message
	var alive bool
	body := func() {
		pw := vh.NewPoolWorld(vh.PoolConfig{Driver: vh.Memory})
		for _, e := range []string{"conn H1", "conn C1", "conn C2"} {
			vh.PoolEvent(pw, cast, e)
		}
		srv := &jsonrpc2.Server{}
		if err := vh.RegisterProd(srv, pw); err != nil {
			panic(err)
		}
		now := vsched.Now().UnixNano()
		bad := func(endpoint string, id *vh.Ident, nonce int64) *jsonrpc2.Message {
			c := vh.NewCall(endpoint, id, nonce, vh.DefaultParam(endpoint, cast.ByName["H1"].NodeID))
			c.Sig = c.Sig[:10] + "AAAA" + c.Sig[14:] // garbage in the signature
			m, err := vh.ParseMessage(vh.RequestText(c, int(nonce-now)))
			if err != nil {
				panic(err)
			}
			return m
		}
		good := vh.NewCall("vipnode_update", cast.ByName["H1"], now+3, vh.DefaultParam("vipnode_update", cast.ByName["C1"].NodeID))
		goodMsg, _ := vh.ParseMessage(vh.RequestText(good, 3))
		msgs := []*jsonrpc2.Message{bad("vipnode_update", cast.ByName["C1"], now+1), bad("vipnode_peer", cast.ByName["C2"], now+2), goodMsg}
		var fns []func()
		for i := range msgs {
			i := i
			fns = append(fns, func() { replies[i] = srv.Handle(vh.CtxWith(pw.Host(fmt.Sprint("conn", i)).Service()), msgs[i]) })
		}
		vh.Par([]string{"bad-update-C1", "bad-peer-C2", "good-update-H1"}, fns...)
		alive = vh.Ping(srv)
	}
	return vh.Unit{Name: name, Run: func(u *vh.U) {
		vh.RunDFS(u, vh.DFSSpec{
			Name: name, Bound: bound,
			Run:  vsched.Options{YieldFiles: []string{"service.go", "memory.go"}, Drain: true},
			Body: body,
			Obs: func(s *vsched.Sched) string {
				return fmt.Sprint(replies[0] != nil && replies[0].Error != nil, replies[1] != nil && replies[1].Error != nil, replies[2] != nil && replies[2].Error == nil)
			},
			Check: func(s *vsched.Sched) (string, string) {
				for i, want := range []string{"1", "2", "3"} {
					if p := vh.ReplyProblem(want, replies[i]); p != "" {
						return name + "/malformed-reply", fmt.Sprintf("request %d: %s", i+1, p)
					}
				}
				if replies[0].Error == nil || replies[1].Error == nil {
					return name + "/garbage-signature-accepted", vh.ShortJSON(replies[:2])
				}
				if replies[2].Error != nil {
					return name + "/valid-request-refused", vh.ShortJSON(replies[2])
				}
				if !alive {
					return name + "/pool-stopped-serving", "ping unanswered after the three requests"
				}
				return "", ""
			},
		})
	}}
}

// the agent as the *caller*: whatever a pool answers to the agent's own requests (connect,
// keep-alive, peer request) - null, wrong types, nulls inside lists, absurd numbers, error objects -
// the agent process does not panic; it reports an error or carries on
func c15AgentVsHostilePool(shard, nshards int) vh.Unit {
	name := fmt.Sprintf("agent-vs-hostile-pool/%d", shard)
	return vh.Unit{Name: name, Run: func(u *vh.U) {
		self := vh.Identities()[0]
		generic := []string{`null`, `{}`, `[]`, `"x"`, `5`, `true`}
		connects := append(append([]string{}, generic...), `{"pool_version":5}`, `{"pool_version":"v","message":7}`, `{"pool_version":"verif"}`)
		updates := append(append([]string{}, generic...), `{"invalid_peers":null,"active_peers":null,"balance":null}`, `{"invalid_peers":[null],"active_peers":[null]}`, `{"invalid_peers":"x"}`,
			`{"balance":{"credit":"x","deposit":null}}`, `{"latest_block_number":-1}`, `{"latest_block_number":18446744073709551616}`, `{"invalid_peers":["","enode://","enode://x@"],"active_peers":["%zz","enode://@:"]}`, `{"active_peers":[]}`)
		peers := append(append([]string{}, generic...), `{"peers":null}`, `{"peers":[null]}`, `{"peers":[{}]}`, `{"peers":[{"uri":5}]}`, `{"peers":[{"uri":"","ID":""}]}`, `{"peers":[{"uri":"enode://%zz@","ID":"x"}]}`, `{"peers":"x"}`)
		errorReply := `!error`
		connects, updates, peers = append(connects, errorReply), append(updates, errorReply), append(peers, errorReply)
		idx := 0
		for _, c := range connects {
			for _, up := range updates {
				for _, pr := range peers {
					idx++
					if idx%nshards != shard {
						continue
					}
					if c != `{"pool_version":"verif"}` && up != updates[0] && pr != peers[0] {
						continue // (a refused or garbled connect ends the start: vary the rest only after a good one)
					}
					if u.Expired() {
						return
					}
					var startErr error
					s := vsched.Run(vsched.Options{MaxTime: time.Hour, Drain: false}, func() {
						ca, cb := vh.NewMemPipe(8)
						agentSide := &jsonrpc2.Remote{Codec: cb, Client: &jsonrpc2.Client{}, Server: &jsonrpc2.Server{}}
						vsched.GoNamed("agent-serve", func() { agentSide.Serve() })
						vsched.GoNamed("hostile-pool", func() {
							for {
								m, err := ca.ReadMessage()
								if err != nil {
									return
								}
								if m.Request == nil {
									continue
								}
								raw := `{}`
								switch m.Request.Method {
								case "vipnode_connect":
									raw = c
								case "vipnode_update":
									raw = up
								case "vipnode_peer":
									raw = pr
								}
								reply := &jsonrpc2.Message{ID: m.ID, Version: jsonrpc2.Version, Response: &jsonrpc2.Response{Result: json.RawMessage(raw)}}
								if raw == errorReply {
									reply.Response = &jsonrpc2.Response{Error: &jsonrpc2.ErrResponse{Code: -32000, Message: "refused"}}
								}
								if ca.WriteMessage(reply) != nil {
									return
								}
							}
						})
						node := &recNode{kind: ethnode.Geth, id: self.NodeID}
						p0 := ethnode.PeerInfo{ID: c18Ids[0]}
						p0.Network.RemoteAddress = "1.2.3.4:30303"
						node.peers = []ethnode.PeerInfo{p0}
						a := &agent.Agent{EthNode: node, NumHosts: 3, StrictPeers: idx%2 == 0, UpdateInterval: time.Hour}
						startErr = a.Start(pool.Remote(agentSide, self.Key))
						if startErr == nil {
							a.UpdatePeers(context.Background(), pool.Remote(agentSide, self.Key))
							a.Stop()
						}
						cb.Close()
						ca.Close()
					})
					u.R.Evaluations++
					u.R.States++
					u.R.Transitions += int64(len(s.Trace))
					u.R.Traces++
					u.Observe(fmt.Sprintf("hostile-pool started=%v", startErr == nil))
					desc := fmt.Sprintf("a pool answering the agent's vipnode_connect with %s, vipnode_update with %s, vipnode_peer with %s", c, up, pr)
					if s.Panic != nil {
						u.Violate("agent-vs-hostile-pool/panic", fmt.Sprintf("%s: the agent panicked: %v\n%s", desc, s.Panic, firstN(s.PanicStack, 1200)), nil)
						return
					}
					if s.Deadlock || s.Horizon {
						u.Violate("agent-vs-hostile-pool/wedged", fmt.Sprintf("%s: the agent never returned; threads: %v", desc, s.Blocked), nil)
						return
					}
				}
			}
		}
		u.Sample("the real agent (Start + one forced keep-alive) over a real Remote against a pool answering with every combination of 10 x 15 x 14 reply shapes")
	}}
}

func init() {
	vh.Register(&vh.Check{
		ID: "C15", Level: "model_checking",
		Technique: "bounded-exhaustive enumeration of message grammars (request shapes x arities x per-position value kinds for every production method of the pool, payment, status and agent services; correctly signed requests with hostile parameters; envelopes; every reply shape to a waiting caller; every prefix and single-byte substitution of representative messages) applied to the real Server/Remote/HTTPServer with a live pool world",
		Rule:      "requests: 11 methods x arities 0..n+1 x 20 JSON value kinds per position (one position at a time and all at once); signed: node-URI / peer-description / count grammars through the real signature check; envelopes: 22 shapes; replies: 5 id kinds x 5 result kinds x 5 error kinds to a waiting Remote.Call under the controlled scheduler (virtual time-outs, drained); bytes: all prefixes and 12 substitutions per position of 6 messages through the stream codec, Server.Handle and HTTPServer. Oracle: no panic, every request with an id gets one reply with that id and a result or an error, ping still answered, waiting caller returns; distinct = (method, error code) etc.",
		Assumptions: []string{
			"malformed byte streams may cost the sender its own connection (left open by the property); hostile well-formed requests may not",
			"a reply carrying \"result\": null next to an error counts as an error reply",
		},
		Units: func(tier string) []vh.Unit {
			var us []vh.Unit
			for s := 0; s < 6; s++ {
				us = append(us, c15Shapes(s, 6))
			}
			for s := 0; s < 6; s++ {
				us = append(us, c15Signed(s, 6), c15SignedOn(vh.Badger, s, 6))
				if s < 3 {
					us = append(us, c15SignedIn(vh.Memory, true, s, 3))
				}
			}
			us = append(us, c15Envelopes(), c15Wire(), c15FailingHosts())
			// a connection that drops while a request of the node registered on it is being served
			// must not wedge the pool (all interleavings; a deadlock is a violation)
			wb := 2
			if tier == "thorough" {
				wb = 3
			}
			for _, scen := range []string{"close-vs-rehost", "close-vs-rehost-same", "close-vs-peer", "close-vs-host-update"} {
				us = append(us, c10SerialNamed("no-wedge", vh.Memory, scen, wb))
			}
			us = append(us, c15ConcurrentHostile(wb-1))
			for sh := 0; sh < 4; sh++ {
				us = append(us, c15AgentVsHostilePool(sh, 4))
			}
			n := 4
			if tier == "thorough" {
				n = 12
			}
			for s := 0; s < n; s++ {
				us = append(us, c15Bytes(s, n))
			}
			return us
		},
	})
}

func allAckOf(ms []int) bool {
	for _, m := range ms {
		if m != vh.HostAck {
			return false
		}
	}
	return true
}
