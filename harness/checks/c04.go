//go:build go1.21

package checks

import (
	"context"
	"crypto/ecdsa"
	"encoding/base64"
	"encoding/hex"
	"fmt"
	"math/big"
	"reflect"
	"sort"
	"strings"

	"github.com/ethereum/go-ethereum/crypto"
	"github.com/ethereum/go-ethereum/p2p/discv5"
	"github.com/vipnode/vipnode/v2/ethnode"
	"github.com/vipnode/vipnode/v2/internal/verif/vh"
	"github.com/vipnode/vipnode/v2/internal/verif/vsched"
	"github.com/vipnode/vipnode/v2/jsonrpc2"
	"github.com/vipnode/vipnode/v2/pool"
	"github.com/vipnode/vipnode/v2/pool/store"
)

// C04 — every signed endpoint acts only on requests signed by the identity they name.

var c04States = [][]string{
	{},
	{"conn H1", "conn C1"},
	{"conn H1", "conn H2", "conn C1", "upd C1 H1", "link W1 C1", "tick 30s"},
}

// poolDigest is everything a refused request must leave untouched.
func poolDigest(pw *vh.PoolWorld, cast *vh.Cast) string {
	return fmt.Sprintf("%s|remotes=%d|calls=%s|dep=%v|settles=%d", vh.StoreView(pw.Raw, cast.Nodes, cast.Accts), pw.Pool.NumRemotes(), pw.CallLog(), pw.BStore.Deposits, len(pw.Settles))
}

type c04Alt struct {
	label string
	class string // alteration class (part of the violation signature)
	call  vh.Call
	judge bool // false: observed only
}

func decodeSig(sig string, wallet bool) []byte {
	if wallet {
		b, _ := hex.DecodeString(strings.TrimPrefix(sig, "0x"))
		return b
	}
	b, _ := base64.StdEncoding.DecodeString(sig)
	return b
}

func encodeSig(b []byte, wallet bool) string {
	if wallet {
		return hex.EncodeToString(b)
	}
	return base64.StdEncoding.EncodeToString(b)
}

// c04Alterations enumerates every single-component alteration of a correctly signed base call.
func c04Alterations(base vh.Call, owner, other *vh.Ident) []c04Alt {
	var out []c04Alt
	wallet := vh.IsWalletEndpoint(base.Endpoint)
	add := func(label, class string, c vh.Call, judge bool) {
		out = append(out, c04Alt{label, class, c, judge})
	}
	// 1. method name
	for _, m := range append(append([]string{}, vh.SignedEndpoints...), "", strings.ToUpper(base.Endpoint), base.Endpoint+"x") {
		if m == base.Endpoint {
			continue
		}
		c := base
		c.Method = m
		add("signed-for-method:"+m, "method", c.Resign(owner), true)
	}
	// 2. identity
	otherID := other.NodeID
	if wallet {
		otherID = other.Wallet
	}
	c := base
	c.ID = otherID
	add("identity-swapped-after-signing", "identity", c, true)
	add("other-key-names-victim", "other-key", base.Resign(other), true)
	c = base
	c.ID = otherID
	add("owner-signs-naming-other-identity", "identity", c.Resign(owner), true)
	c = base
	if up := strings.ToUpper(base.ID); up != base.ID {
		c.ID = strings.Replace(up, "0X", "0x", 1)
		add("identity-case-changed-after-signing", "identity", c, true)
	}
	// 3. nonce
	for _, d := range []int64{1, -1} {
		c = base
		c.Nonce += d
		add(fmt.Sprintf("nonce%+d", d), "nonce", c, true)
	}
	// 4. every parameter field
	labels, alts := vh.FieldAlterations(base.Param)
	for i, a := range alts {
		c = base
		c.Param = a
		add(labels[i], "param", c, true)
	}
	// 5. signature bytes
	raw := decodeSig(base.Sig, wallet)
	for i := range raw {
		b := append([]byte{}, raw...)
		b[i] ^= 0xff
		c = base
		c.Sig = encodeSig(b, wallet)
		// the recovery byte V of a node-style signature is not part of (R,S): not judged
		add(fmt.Sprintf("sig-byte-%d-flipped", i), "sig-byte", c, !(i == 64 && !wallet))
	}
	// the mirror signature (R, N-S): valid for plain ECDSA, but not what the owner produced - a third
	// party can derive it from any signature it has seen (both recovery-byte variants)
	if len(raw) >= 64 {
		n, _ := new(big.Int).SetString("fffffffffffffffffffffffffffffffebaaedce6af48a03bbfd25e8cd0364141", 16)
		sNeg := new(big.Int).Sub(n, new(big.Int).SetBytes(raw[32:64]))
		for _, flipV := range []bool{true, false} {
			b := append([]byte{}, raw...)
			sNeg.FillBytes(b[32:64])
			if flipV && len(b) > 64 {
				b[64] ^= 1
			}
			c = base
			c.Sig = encodeSig(b, wallet)
			// observed, not judged: the mirror signature is a valid ECDSA signature of the very same
			// method, identity, nonce and parameters (nothing the owner did not sign is carried out, and
			// the nonce makes it a replay); recovery-based verification accepts it by construction
			add(fmt.Sprintf("sig-s-mirrored(flipV=%v)", flipV), "sig-mirrored", c, false)
		}
	}
	for n := 0; n < len(raw); n++ {
		c = base
		c.Sig = encodeSig(raw[:n], wallet)
		// dropping only the recovery byte of a node-style signature leaves (R,S) intact: not judged
		add(fmt.Sprintf("sig-truncated-to-%d", n), "sig-truncated", c, !(n == 64 && !wallet))
	}
	for _, g := range []string{"", "!!!", "AAAA", "0x", "zz", strings.Repeat("A", 200)} {
		c = base
		c.Sig = g
		add("sig-garbage:"+g[:min(len(g), 6)], "sig-garbage", c, true)
	}
	c = base
	c.Sig = encodeSig(raw, !wallet) // base64 <-> hex swapped
	add("sig-encoding-swapped", "sig-encoding", c, true)
	if !wallet {
		c = base
		c.Sig = "0x" + base.Sig
		add("sig-0x-prefixed", "sig-encoding", c, true)
	}
	return out
}

func c04Unit(endpoint string) vh.Unit { return c04UnitShape(endpoint, "") }

// shape "peers-only" (vipnode_update): a request in the current format that carries only the
// deprecated peers list - what it signs must still differ from every other request's bytes.
func c04UnitShape(endpoint, shape string) vh.Unit {
	name := "alterations/" + endpoint
	if shape != "" {
		name += "/" + shape
	}
	cast := vh.StdCast()
	return vh.Unit{Name: name, Run: func(u *vh.U) {
		for si, prefix := range c04States {
			owner := cast.ByName["C1"]
			target := cast.ByName["H1"].NodeID
			if endpoint == "vipnode_host" {
				owner = cast.ByName["H2"]
				target = owner.NodeID
			}
			if vh.IsWalletEndpoint(endpoint) {
				owner = cast.ByName["W1"]
				target = cast.ByName["C1"].NodeID
			}
			other := cast.ByName["H3"]
			build := func() (*vh.PoolWorld, context.Context) {
				vsched.ResetClock(0)
				pw := vh.NewPoolWorld(vh.PoolConfig{Driver: vh.Memory})
				for _, e := range prefix {
					vh.PoolEvent(pw, cast, e)
				}
				return pw, vh.CtxWith(pw.Host("conn-" + owner.Name).Service())
			}
			nonce := vsched.Base().UnixNano() + int64(3600e9) + 5000
			param := vh.DefaultParam(endpoint, target)
			if shape == "peers-only" {
				param = pool.UpdateRequest{Peers: []string{target}, BlockNumber: 7}
			}
			base := vh.NewCall(endpoint, owner, nonce, param)
			// unaltered: the verification step must accept
			{
				pw, ctx := build()
				var err error
				if p := vh.Recover(func() { _, err = base.Invoke(pw, ctx) }); p != "" {
					u.Violate("c04/"+endpoint+"/panic/unaltered", fmt.Sprintf("state %d: correctly signed request panicked: %s", si, p), nil)
				} else if vh.IsRefused(err) {
					u.Violate("c04/"+endpoint+"/valid-request-refused", fmt.Sprintf("state %v: correctly signed fresh %s refused: %v", prefix, endpoint, err), nil)
				}
				u.R.Evaluations++
				if vh.IsWalletEndpoint(endpoint) {
					// the same wallet named in lower case, signed over that spelling
					pw, ctx = build()
					c := base
					c.ID = strings.ToLower(base.ID)
					c = c.Resign(owner)
					if p := vh.Recover(func() { _, err = c.Invoke(pw, ctx) }); p != "" || vh.IsRefused(err) {
						u.Violate("c04/"+endpoint+"/valid-request-refused", fmt.Sprintf("state %v: correctly signed %s naming the wallet in lower case refused: %v %s", prefix, endpoint, err, p), nil)
					}
				}
			}
			for _, a := range c04Alterations(base, owner, other) {
				if u.Expired() {
					return
				}
				pw, ctx := build()
				before := poolDigest(pw, cast)
				var err error
				p := vh.Recover(func() { _, err = a.call.Invoke(pw, ctx) })
				after := poolDigest(pw, cast)
				u.R.Evaluations++
				u.R.States++
				u.R.Transitions++
				u.R.Traces++
				u.Observe(fmt.Sprintf("%s %s refused=%v", endpoint, a.class, vh.IsRefused(err)))
				if len(u.R.Samples) < 3 && a.class == "param" {
					u.Sample(fmt.Sprintf("%s in state %v: %s -> %v", endpoint, prefix, a.label, err))
				}
				if !a.judge {
					u.Count("signature_encoding_variant_not_judged", 1)
					continue
				}
				switch {
				case p != "":
					u.Violate("c04/"+endpoint+"/panic/"+a.class, fmt.Sprintf("state %v, alteration %q: panic: %s", prefix, a.label, p), nil)
				case !vh.IsRefused(err):
					u.Violate("c04/"+endpoint+"/altered-request-accepted/"+a.class, fmt.Sprintf("state %v, alteration %q: not refused (err=%v)", prefix, a.label, err), nil)
				case before != after:
					u.Violate("c04/"+endpoint+"/refused-but-acted/"+a.class, fmt.Sprintf("state %v, alteration %q: refused, but the pool state changed:\n before %s\n after  %s", prefix, a.label, before, after), nil)
				}
			}
		}
	}}
}

// vipnode_update signed in the deprecated format (what old agents send): the pool falls back to
// verifying the signature over {peers, block_number} only.
func c04Legacy() vh.Unit {
	name := "alterations/vipnode_update-legacy-format"
	cast := vh.StdCast()
	return vh.Unit{Name: name, Run: func(u *vh.U) {
		owner, other := cast.ByName["C1"], cast.ByName["H3"]
		for _, prefix := range c04States[1:] {
			build := func() (*vh.PoolWorld, context.Context) {
				vsched.ResetClock(0)
				pw := vh.NewPoolWorld(vh.PoolConfig{Driver: vh.Memory})
				for _, e := range prefix {
					vh.PoolEvent(pw, cast, e)
				}
				return pw, vh.CtxWith(pw.Host("conn-" + owner.Name).Service())
			}
			req := vh.DefaultParam("vipnode_update", cast.ByName["H1"].NodeID).(pool.UpdateRequest)
			req.Peers = []string{cast.ByName["H1"].NodeID}
			nonce := vsched.Base().UnixNano() + int64(3600e9) + 7000
			base := vh.NewLegacyUpdateCall(owner, nonce, req)
			{
				pw, ctx := build()
				if _, err := base.Invoke(pw, ctx); vh.IsRefused(err) {
					u.Violate("c04/vipnode_update-legacy/valid-request-refused", fmt.Sprintf("state %v: %v", prefix, err), nil)
				}
			}
			for _, a := range c04Alterations(base, owner, other) {
				if a.class == "method" || a.class == "other-key" || strings.HasPrefix(a.label, "owner-signs") {
					continue // these re-sign in the current format; the current-format unit covers them
				}
				pw, ctx := build()
				before := poolDigest(pw, cast)
				var err error
				p := vh.Recover(func() { _, err = a.call.Invoke(pw, ctx) })
				after := poolDigest(pw, cast)
				u.R.Evaluations++
				u.R.States++
				u.R.Transitions++
				u.R.Traces++
				cls := a.class
				if a.class == "param" {
					cls = strings.SplitN(a.label, ":", 2)[0] // param.<field path>
					if i := strings.Index(cls[6:], "."); i >= 0 {
						cls = cls[:6+i]
					}
				}
				u.Observe(fmt.Sprintf("legacy %s refused=%v", cls, vh.IsRefused(err)))
				if !a.judge {
					continue
				}
				switch {
				case p != "":
					u.Violate("c04/vipnode_update-legacy/panic/"+cls, fmt.Sprintf("state %v, alteration %q: panic: %s", prefix, a.label, p), nil)
				case !vh.IsRefused(err):
					u.Violate("c04/vipnode_update-legacy/altered-request-accepted/"+cls, fmt.Sprintf("state %v: a vipnode_update signed in the deprecated format, then altered (%s), was not refused (err=%v)", prefix, a.label, err), nil)
				case before != after:
					u.Violate("c04/vipnode_update-legacy/refused-but-acted/"+cls, fmt.Sprintf("state %v, alteration %q", prefix, a.label), nil)
				}
			}
		}
		u.Sample("vipnode_update signed over the deprecated {peers, block_number} payload, every single-component alteration")
	}}
}

// Every correctly signed fresh request is accepted, whatever (valid) shape its parameters have:
// the verification step must hash exactly what the sender signed.
func c04ValidShapes() vh.Unit {
	name := "valid-shapes"
	cast := vh.StdCast()
	return vh.Unit{Name: name, Run: func(u *vh.U) {
		C1, H1, H2, W1 := cast.ByName["C1"], cast.ByName["H1"], cast.ByName["H2"], cast.ByName["W1"]
		unknown := vh.Identities()[7].NodeID
		peerInfo := func(id string) ethnode.PeerInfo {
			pi := vh.DefaultParam("vipnode_update", id).(pool.UpdateRequest).PeerInfo[0]
			return pi
		}
		type shape struct {
			endpoint string
			owner    *vh.Ident
			param    interface{}
			label    string
		}
		var shapes []shape
		// vipnode_update: every peer list of length 0..3 over {self, H1, H2, unknown id}, in the
		// current and in the deprecated field, three block numbers
		alphabet := []string{C1.NodeID, H1.NodeID, H2.NodeID, unknown}
		names := []string{"self", "H1", "H2", "X"}
		var lists [][]int
		var gen func(cur []int)
		gen = func(cur []int) {
			lists = append(lists, append([]int{}, cur...))
			if len(cur) == 3 {
				return
			}
			for i := range alphabet {
				gen(append(cur, i))
			}
		}
		gen(nil)
		for _, l := range lists {
			var req pool.UpdateRequest
			var lab []string
			for _, i := range l {
				req.PeerInfo = append(req.PeerInfo, peerInfo(alphabet[i]))
				lab = append(lab, names[i])
			}
			for _, bn := range []uint64{0, 7, 1<<63 + 5} {
				r := req
				r.BlockNumber = bn
				shapes = append(shapes, shape{"vipnode_update", C1, r, fmt.Sprintf("peers_info=%v block=%d", lab, bn)})
			}
			var old pool.UpdateRequest
			for _, i := range l {
				old.Peers = append(old.Peers, alphabet[i])
			}
			shapes = append(shapes, shape{"vipnode_update", C1, old, fmt.Sprintf("peers=%v", lab)})
		}
		for _, num := range []int{0, 1, 3, 100} {
			for _, kind := range []string{"", "geth", "parity", "besu"} {
				shapes = append(shapes, shape{"vipnode_peer", C1, pool.PeerRequest{Num: num, Kind: kind}, fmt.Sprintf("num=%d kind=%q", num, kind)})
				shapes = append(shapes, shape{"vipnode_client", C1, pool.ClientRequest{Kind: kind, NumHosts: num}, fmt.Sprintf("num=%d kind=%q", num, kind)})
			}
		}
		for _, payout := range []string{"", W1.Wallet, strings.ToLower(W1.Wallet)} {
			for _, uri := range []string{"", "enode://" + H2.NodeID + "@192.0.2.7:30303", "enode://" + H2.NodeID + "@[2001:db8::1]:30303"} {
				for _, full := range []bool{false, true} {
					c := vh.DefaultParam("vipnode_connect", "").(pool.ConnectRequest)
					c.Payout, c.NodeURI, c.NodeInfo.IsFullNode = payout, uri, full
					shapes = append(shapes, shape{"vipnode_connect", H2, c, fmt.Sprintf("payout=%q uri=%q full=%v", payout, uri, full)})
				}
				shapes = append(shapes, shape{"vipnode_host", H2, pool.HostRequest{Kind: "geth", Payout: payout, NodeURI: uri}, fmt.Sprintf("payout=%q uri=%q", payout, uri)})
			}
		}
		for _, node := range []string{C1.NodeID, H1.NodeID, unknown, ""} {
			shapes = append(shapes, shape{"pool_addNode", W1, node, "node=" + vh.Short(node)})
		}
		shapes = append(shapes, shape{"pool_withdraw", W1, nil, ""})
		// the payment endpoints named by a node-style identity (a node key acting for itself): the
		// signature scheme follows the identity's form, on these endpoints like on the others
		shapes = append(shapes, shape{"pool_addNode", C1, C1.NodeID, "identity=node id, node=self"}, shape{"pool_addNode", H1, C1.NodeID, "identity=node id"}, shape{"pool_withdraw", C1, nil, "identity=node id"})
		for _, prefix := range c04States {
			for _, sh := range shapes {
				if u.Expired() {
					return
				}
				vsched.ResetClock(0)
				pw := vh.NewPoolWorld(vh.PoolConfig{Driver: vh.Memory})
				for _, e := range prefix {
					vh.PoolEvent(pw, cast, e)
				}
				ctx := vh.CtxWith(pw.Host("conn-" + sh.owner.Name).Service())
				nonce := vsched.Base().UnixNano() + int64(3600e9) + 9000
				call := vh.NewCall(sh.endpoint, sh.owner, nonce, sh.param)
				if strings.HasPrefix(sh.label, "identity=node id") {
					call.ID = sh.owner.NodeID
					call = call.Resign(sh.owner)
				}
				var err error
				p := vh.Recover(func() { _, err = call.Invoke(pw, ctx) })
				u.R.Evaluations++
				u.R.States++
				u.R.Transitions++
				u.R.Traces++
				u.Observe(fmt.Sprintf("%s refused=%v", sh.endpoint, vh.IsRefused(err)))
				if p != "" {
					u.Violate("c04/"+sh.endpoint+"/panic/valid-shape", fmt.Sprintf("state %v, %s: panic: %s", prefix, sh.label, p), nil)
				} else if vh.IsRefused(err) {
					u.Violate("c04/"+sh.endpoint+"/valid-request-refused", fmt.Sprintf("state %v: a correctly signed fresh %s (%s) was refused: %v", prefix, sh.endpoint, sh.label, err), nil)
				}
			}
		}
		u.Sample("vipnode_update with every peer list of length 0..3 over {self, two hosts, an unknown id}; peer/client/connect/host/addNode parameter grids")
	}}
}

// Verification is a pure function of the request: concurrent verifications of different requests
// must not influence each other (each valid request accepted, the altered one refused).
func c04Concurrent(bound int) vh.Unit {
	name := "concurrent-verification"
	cast := vh.StdCast()
	var res []error
	var labels []string
	body := func() {
		vsched.ResetClock(0)
		pw := vh.NewPoolWorld(vh.PoolConfig{Driver: vh.Memory})
		for _, e := range c04States[len(c04States)-1] {
			vh.PoolEvent(pw, cast, e)
		}
		C1, C2, W1 := cast.ByName["C1"], cast.ByName["C2"], cast.ByName["W1"]
		nonce := vsched.Base().UnixNano() + int64(3600e9) + 9500
		valid1 := vh.NewCall("vipnode_update", C1, nonce, vh.DefaultParam("vipnode_update", cast.ByName["H1"].NodeID))
		valid2 := vh.NewCall("vipnode_peer", C2, nonce+1, pool.PeerRequest{Num: 1, Kind: "geth"})
		valid3 := vh.NewCall("pool_addNode", W1, nonce+2, C2.NodeID)
		altered := vh.NewCall("vipnode_connect", C2, nonce+3, vh.DefaultParam("vipnode_connect", ""))
		cr := altered.Param.(pool.ConnectRequest)
		cr.Payout = cast.ByName["W2"].Wallet // changed after signing
		altered.Param = cr
		calls := []vh.Call{valid1, valid2, valid3, altered}
		labels = []string{"valid update C1", "valid peer C2", "valid addNode W1", "altered connect C2"}
		res = make([]error, len(calls))
		var fns []func()
		for i := range calls {
			i := i
			fns = append(fns, func() {
				_, res[i] = calls[i].Invoke(pw, vh.CtxWith(pw.Host("conn"+fmt.Sprint(i)).Service()))
			})
		}
		vh.Par(labels, fns...)
	}
	return vh.Unit{Name: name, Run: func(u *vh.U) {
		vh.RunDFS(u, vh.DFSSpec{
			Name: name, Bound: bound,
			Run:  vsched.Options{YieldFiles: []string{"request.go", "node.go", "address.go"}, Delay: true, Drain: true},
			Body: body,
			Obs:  func(s *vsched.Sched) string { return fmt.Sprint(errs(res)) },
			Check: func(s *vsched.Sched) (string, string) {
				for i, e := range res {
					refused := vh.IsRefused(e)
					if i < 3 && refused {
						return "c04/concurrent/valid-request-refused", fmt.Sprintf("%s, verified while other requests were being verified, was refused: %v", labels[i], e)
					}
					if i == 3 && !refused {
						return "c04/concurrent/altered-request-accepted", fmt.Sprintf("%s, verified while other requests were being verified, was not refused (err=%v)", labels[i], e)
					}
				}
				return "", ""
			},
		})
	}}
}

// wallet signatures are hex strings, with or without a 0x prefix: acceptance must not depend on
// what the signature's own digits happen to be (leading zeros, all letters, ...) - 200 different
// signatures per encoding and endpoint
func c04WalletEncodings() vh.Unit {
	name := "wallet-signature-encodings"
	cast := vh.StdCast()
	return vh.Unit{Name: name, Run: func(u *vh.U) {
		W1, C1 := cast.ByName["W1"], cast.ByName["C1"]
		vsched.ResetClock(0)
		pw := vh.NewPoolWorld(vh.PoolConfig{Driver: vh.Memory})
		for _, e := range c04States[2] {
			vh.PoolEvent(pw, cast, e)
		}
		ctx := vh.CtxWith(pw.Host("conn-w").Service())
		nonce := vsched.Base().UnixNano() + int64(3600e9) + 20000
		firstDigits := map[byte]int{}
		for i := 0; i < 200; i++ {
			for _, ep := range []string{"pool_addNode", "pool_withdraw"} {
				for _, prefix := range []string{"", "0x"} {
					nonce++
					var param interface{}
					if ep == "pool_addNode" {
						param = C1.NodeID
					}
					call := vh.NewCall(ep, W1, nonce, param)
					raw := strings.TrimPrefix(call.Sig, "0x")
					call.Sig = prefix + raw
					firstDigits[raw[0]]++
					var err error
					p := vh.Recover(func() { _, err = call.Invoke(pw, ctx) })
					u.R.Evaluations++
					u.R.States++
					u.R.Transitions++
					u.R.Traces++
					if p != "" {
						u.Violate("c04/"+ep+"/panic/valid-shape", fmt.Sprintf("signature %s...: panic: %s", call.Sig[:10], p), nil)
					} else if vh.IsRefused(err) {
						u.Violate("c04/"+ep+"/valid-request-refused", fmt.Sprintf("a correctly signed fresh %s whose signature is written %q... was refused: %v", ep, call.Sig[:12], err), nil)
					}
				}
			}
		}
		u.Observe(fmt.Sprintf("distinct first digits of the signatures: %d", len(firstDigits)))
		if firstDigits['0'] == 0 {
			u.Note("no signature with a leading zero digit among those generated")
		}
		u.Sample("pool_addNode / pool_withdraw signed 200 times each, signature written with and without 0x")
	}}
}

// The whole RPC surface of a pool wired like the binary (names read from the server's registry,
// plus every method of the registered objects - promoted ones included - under both prefixes):
// nothing that carries no valid signature changes anything, whatever the arguments.
func c04RPCSurface() vh.Unit {
	return vh.Unit{Name: "rpc-surface/unsigned-calls-change-nothing", Run: func(u *vh.U) {
		cast := vh.StdCast()
		vsched.ResetClock(0)
		pw := vh.NewPoolWorld(vh.PoolConfig{Driver: vh.Memory})
		for _, e := range c06Session {
			vh.PoolEvent(pw, cast, e)
		}
		srv := &jsonrpc2.Server{}
		if err := vh.RegisterProd(srv, pw); err != nil {
			panic(err)
		}
		names := map[string]bool{}
		for _, n := range vh.RegisteredMethods(srv) {
			names[n] = true
		}
		registered := len(names)
		if registered == 0 {
			u.Violate("c04/rpc-surface/registry-not-readable", "the server's method registry could not be enumerated", nil)
			return
		}
		for _, recv := range []interface{}{pw.Pool, pw.Payment} {
			t := reflect.TypeOf(recv)
			for i := 0; i < t.NumMethod(); i++ {
				m := t.Method(i).Name
				for _, prefix := range []string{"pool_", "vipnode_"} {
					names[prefix+strings.ToLower(m[:1])+m[1:]] = true
				}
			}
		}
		var sorted []string
		for n := range names {
			sorted = append(sorted, n)
		}
		sort.Strings(sorted)
		now := vsched.Now().UnixNano()
		w1, c1, h1 := cast.ByName["W1"], cast.ByName["C1"], cast.ByName["H1"]
		values := []string{`"` + w1.Wallet + `"`, `"` + c1.NodeID + `"`, `"` + h1.NodeID + `"`, `"` + cast.ByName["C2"].NodeID + `"`, `""`, `5`, fmt.Sprint(now + 1000), `{}`}
		var tuples [][]string
		var gen func(prefix []string, left int)
		gen = func(prefix []string, left int) {
			tuples = append(tuples, append([]string{}, prefix...))
			if left == 0 {
				return
			}
			for _, v := range values {
				gen(append(prefix, v), left-1)
			}
		}
		gen(nil, 3)
		for _, sig := range []string{`""`, `"` + c1.SignNode("vipnode_ping", 1) + `"`} {
			for _, id := range values[:4] {
				for _, x := range values {
					tuples = append(tuples, []string{sig, id, fmt.Sprint(now + 1000), x})
				}
			}
		}
		pw.Host("stranger")
		before := poolDigest(pw, cast)
		for _, method := range sorted {
			for _, args := range tuples {
				msg, err := vh.ParseMessage(fmt.Sprintf(`{"jsonrpc":"2.0","id":1,"method":%q,"params":[%s]}`, method, strings.Join(args, ",")))
				if err != nil {
					panic(err)
				}
				p := vh.Recover(func() { srv.Handle(vh.CtxWith(pw.Host("stranger").Service()), msg) })
				u.R.Evaluations++
				u.R.States++
				u.R.Transitions++
				u.R.Traces++
				if p != "" {
					u.Violate("c04/rpc-surface/panic/"+method, fmt.Sprintf("%s(%s): %s", method, strings.Join(args, ","), p), nil)
					return
				}
				if after := poolDigest(pw, cast); after != before {
					u.Violate("c04/rpc-surface/unsigned-call-changed-state/"+method, fmt.Sprintf("%s(%s), which carries no valid signature, changed the pool:\n before %s\n after  %s", method, strings.Join(args, ","), before, after), nil)
					return
				}
			}
		}
		u.Observe(fmt.Sprintf("registered=%d candidates=%d", registered, len(sorted)))
		u.Sample(fmt.Sprintf("%d registered + %d derived method names x %d unsigned argument tuples: pool digest unchanged", registered, len(sorted)-registered, len(tuples)))
	}}
}

// the client side of the signed endpoints as the binaries use it: pool.Remote signs with the node
// key and names the identity it derives from that key. Every key's requests must be accepted - also
// keys whose public coordinates begin with zero bytes (one in 128 each) - on every endpoint.
func c04RemotePoolIdentities() vh.Unit {
	return vh.Unit{Name: "remote-pool-identities", Run: func(u *vh.U) {
		var keys []*ecdsa.PrivateKey
		special := 0
		for d := int64(1); d < 4000 && (special < 6 || len(keys) < 12); d++ {
			b := make([]byte, 32)
			big.NewInt(d).FillBytes(b)
			k, err := crypto.ToECDSA(b)
			if err != nil {
				continue
			}
			x, y := k.PublicKey.X.Bytes(), k.PublicKey.Y.Bytes()
			if len(x) < 32 || len(y) < 32 {
				if special < 6 {
					keys = append(keys, k)
					special++
				}
			} else if len(keys)-special < 6 {
				keys = append(keys, k)
			}
		}
		if special < 3 {
			u.R.Infra = "no keys with short coordinates found"
			return
		}
		for _, k := range keys {
			vsched.ResetClock(0)
			vsched.SetVirtualClock(false)
			pw := vh.NewPoolWorld(vh.PoolConfig{Driver: vh.Memory})
			local := &jsonrpc2.Local{}
			if err := vh.RegisterProd(&local.Server, pw); err != nil {
				panic(err)
			}
			rp := pool.Remote(local, k)
			id := discv5.PubkeyID(&k.PublicKey).String()
			short := len(k.PublicKey.X.Bytes()) < 32 || len(k.PublicKey.Y.Bytes()) < 32
			type step struct {
				name string
				run  func() error
			}
			steps := []step{
				{"vipnode_connect", func() error {
					_, err := rp.Connect(context.Background(), pool.ConnectRequest{NodeInfo: ethnode.UserAgent{Kind: ethnode.Geth}})
					return err
				}},
				{"vipnode_update", func() error {
					_, err := rp.Update(context.Background(), pool.UpdateRequest{PeerInfo: []ethnode.PeerInfo{}})
					return err
				}},
				{"vipnode_peer", func() error { _, err := rp.Peer(context.Background(), pool.PeerRequest{Num: 1}); return err }},
			}
			for _, st := range steps {
				var err error
				p := vh.Recover(func() { err = st.run() })
				u.R.Evaluations++
				u.R.States++
				u.R.Transitions++
				u.R.Traces++
				refused := vh.IsRefused(err) || (err != nil && strings.Contains(err.Error(), "verify"))
				u.Observe(fmt.Sprintf("remote-pool %s short-coordinate=%v refused=%v", st.name, short, refused))
				if p != "" || refused {
					u.Violate("c04/"+st.name+"/valid-request-refused", fmt.Sprintf("pool.Remote with node key d=%s (identity %s..., public coordinate with leading zero byte: %v): %s refused: %v %s", k.D, id[:8], short, st.name, err, p), nil)
					return
				}
			}
			if n, err := pw.Raw.GetNode(store.NodeID(id)); err != nil || string(n.ID) != id {
				u.Violate("c04/vipnode_connect/identity-not-the-key's", fmt.Sprintf("node key d=%s: the node registered by pool.Remote is not stored under the key's node id %s...: %v", k.D, id[:8], err), nil)
				return
			}
		}
		u.Sample(fmt.Sprintf("pool.Remote with %d node keys (%d of them with a public coordinate that starts with a zero byte) x connect / update / peer", len(keys), special))
	}}
}

func init() {
	vh.Register(&vh.Check{
		ID: "C04", Level: "model_checking",
		Technique: "bounded-exhaustive enumeration of every single-component alteration of a signed request (method, identity, nonce, every parameter field by reflection, every signature byte, every truncation, encodings, other key) on the seven real endpoints in three session states",
		Rule:      "per endpoint and session state: a correctly signed base request, then every alteration of exactly one component; altered => VerifyFailedError and unchanged pool digest, unaltered => verification accepts; distinct = (endpoint, alteration class, refused?)",
		Assumptions: []string{
			"flipping the recovery byte V of a node-style signature leaves (R,S) intact and is observed, not judged",
			"a wallet signature with 0x prefix or V in {27,28} is the same signature in another encoding (not an alteration)",
			"the mirror signature (R, N-S) of a genuine one signs exactly the same request: whether it is accepted is observed, not judged",
		},
		Units: func(tier string) []vh.Unit {
			var us []vh.Unit
			for _, e := range vh.SignedEndpoints {
				us = append(us, c04Unit(e))
			}
			us = append(us, c04Legacy(), c04ValidShapes(), c04WalletEncodings(), c04RPCSurface(), c04UnitShape("vipnode_update", "peers-only"), c04RemotePoolIdentities())
			b := 2
			if tier == "thorough" {
				b = 3
			}
			us = append(us, c04Concurrent(b))
			return us
		},
	})
}
